//! Engine `vaultchain` (C06, vault-router clause over SEVERAL vaults): the real vault router in front of
//! the REAL vault factory with 3 or 4 real vaults (different assets, native and cw20 mixed, each with
//! its own fee triple and depositors), three users, a programmable funding contract (account 3), the
//! fee collector (4). Accounts 6 + k are the vaults themselves (a vault can hold foreign assets).
//!
//! The router's `FlashLoan{assets, msgs}` refuses more than one asset, so the CHAINED branch of
//! `next_loan` (`to_loan` non-empty) is reached the only way it can be reached on the real code: a
//! payload message makes the ROUTER borrow from the first vault with the `NextLoan` chain message that
//! `flash_loan.rs` would build for several assets (`chain:<initiator>:(j.n,…):[payload]`).
//!
//! Op lines
//!   init vaultchain nv=N kinds=k,… fees=p:f:b,… bals=a0:…:a5,… deps=d0:d1:d2,…
//!   rloan <who 0..3> <(j.n,…)> <payload>      router FlashLoan{assets, msgs}
//!   rfund <who> <j> <n>                       plain transfer of asset j to the router
//!   collect <j>                               vault j CollectProtocolFees
//!   xnext <who> <initiator> <(j.n,…)> <payload>   router NextLoan sent directly (first entry = source vault)
//!   xcomplete <who> <initiator> <(j.n,…)>         router CompleteLoan sent directly
//! payload = [act;act;…] with act = fund:j:n | out:j:dst:n | fail | complete:I:(j.n,…) | chain:I:(j.n,…):[payload]
//! (asset index j = nv names an asset without a vault).
//! STRAY COINS: rloan / collect / xnext / xcomplete lines may end in a token `+<sel>:<amount>`: the sender of the
//! message (rloan / xnext / xcomplete: `who`, 3 = the funding contract attaching its own coins; collect: bob)
//! attaches `amount` > 0 coins the message does not ask for — sel = j < nv: the native denom of vault j's asset
//! (nobody holds such a coin when that asset is a cw20), sel = nv: the denom `unovault` no vault knows (accounts
//! 0..3 hold 2^100 of it).
//! Observation: v<j>=pend,all,burned,ctr  b<j>=balances of asset j for accounts 0..5, vaults 0..nv-1  q=GetPaybackAmount(1000000007) per vault
//!              junk=balances of `unovault` for accounts 0..5, vaults 0..nv-1
use crate::common::*;
use crate::engines::vault::{adv_contract, cw20_bal, AdvMsg};
use cosmwasm_std::{coins, to_json_binary, Addr, BankMsg, Binary, Coin, CosmosMsg, Decimal, Empty, Uint128, Uint512, WasmMsg};
use cw20::{Cw20Coin, Cw20ExecuteMsg, Cw20QueryMsg};
use cw_multi_test::{App, AppBuilder, BankKeeper, ContractWrapper, Executor};
use white_whale_std::fee::{Fee, VaultFee};
use white_whale_std::pool_network::asset::{Asset, AssetInfo};
use white_whale_std::vault_network::vault as vmsg;
use white_whale_std::vault_network::vault_factory as fmsg;
use white_whale_std::vault_network::vault_router as rmsg;

const E18: u128 = 1_000_000_000_000_000_000;
const ACCTS: [&str; 6] = ["alice", "bob", "carol", "adv", "collector", "router"];
const ADV: usize = 3;
const ROUTER: usize = 5;
/// native denoms (plain ones: with a cw20 LP token the vault derives the LP ticker from the denom, and
/// cw20-base refuses tickers outside [a-zA-Z-]{3,12}, so IBC / token-factory denoms cannot get a vault here)
/// the vaults' native denoms and the denom no vault knows, per world (`dn=<k>` on the init line; the model does
/// not look at names): plain; IBC vouchers (upper-case hex), a case pair and the lower-case twin of the first
/// voucher as the unknown denom; prefixes of each other
const DENOM_SETS: [([&str; 4], &str); 3] = [
    (["uasset", "uluna", "uwhale", "uatom"], "unovault"),
    (
        [
            "ibc/27394FB092D2ECCD56123C74F36E4C1F926001CEADA9CA97EA622B25F41E5EB2",
            "uLuna",
            "uluna",
            "ibc/B3504E092456BA618CC28AC671A71FB08C6CA0FD0BE7C8A5B5A3E2DD933CC9E4",
        ],
        "ibc/27394fb092d2eccd56123c74f36e4c1f926001ceada9ca97ea622b25f41e5eb2",
    ),
    (["uusd", "uusdc", "uusdcx", "uus"], "uusdcxx"),
];
static DN: std::sync::atomic::AtomicUsize = std::sync::atomic::AtomicUsize::new(0);
fn dset() -> &'static ([&'static str; 4], &'static str) {
    &DENOM_SETS[DN.load(std::sync::atomic::Ordering::Relaxed) % DENOM_SETS.len()]
}

type Loans = Vec<(usize, u128)>;

#[derive(Clone, Debug)]
pub enum RAct {
    Fund(usize, u128),
    Out(usize, usize, u128),
    Fail,
    Complete(usize, Loans),
    Chain(usize, Loans, Vec<RAct>),
}

pub fn show_loans(l: &Loans) -> String {
    format!("({})", l.iter().map(|(j, n)| format!("{j}.{n}")).collect::<Vec<_>>().join(","))
}

pub fn show_racts(a: &[RAct]) -> String {
    let parts: Vec<String> = a
        .iter()
        .map(|x| match x {
            RAct::Fund(j, n) => format!("fund:{j}:{n}"),
            RAct::Out(j, d, n) => format!("out:{j}:{d}:{n}"),
            RAct::Fail => "fail".into(),
            RAct::Complete(i, l) => format!("complete:{i}:{}", show_loans(l)),
            RAct::Chain(i, l, p) => format!("chain:{i}:{}:{}", show_loans(l), show_racts(p)),
        })
        .collect();
    format!("[{}]", parts.join(";"))
}

struct P<'a> {
    b: &'a [u8],
    i: usize,
}
impl<'a> P<'a> {
    fn peek(&self) -> Option<u8> {
        self.b.get(self.i).copied()
    }
    fn eat(&mut self, c: u8) -> Option<()> {
        if self.peek() == Some(c) {
            self.i += 1;
            Some(())
        } else {
            None
        }
    }
    fn num(&mut self) -> Option<u128> {
        let st = self.i;
        while self.peek().map_or(false, |c| c.is_ascii_digit()) {
            self.i += 1;
        }
        if st == self.i {
            return None;
        }
        std::str::from_utf8(&self.b[st..self.i]).ok()?.parse().ok()
    }
    fn idx(&mut self) -> Option<usize> {
        let n = self.num()?;
        if n > 1_000_000 {
            None
        } else {
            Some(n as usize)
        }
    }
    fn word(&mut self) -> String {
        let st = self.i;
        while self.peek().map_or(false, |c| c.is_ascii_alphabetic()) {
            self.i += 1;
        }
        String::from_utf8_lossy(&self.b[st..self.i]).to_string()
    }
    fn loans(&mut self) -> Option<Loans> {
        self.eat(b'(')?;
        let mut out = vec![];
        if self.eat(b')').is_some() {
            return Some(out);
        }
        loop {
            let j = self.idx()?;
            self.eat(b'.')?;
            let n = self.num()?;
            out.push((j, n));
            if self.eat(b',').is_some() {
                continue;
            }
            self.eat(b')')?;
            return Some(out);
        }
    }
    fn list(&mut self) -> Option<Vec<RAct>> {
        self.eat(b'[')?;
        let mut out = vec![];
        if self.eat(b']').is_some() {
            return Some(out);
        }
        loop {
            let w = self.word();
            let act = match w.as_str() {
                "fail" => RAct::Fail,
                "fund" => {
                    self.eat(b':')?;
                    let j = self.idx()?;
                    self.eat(b':')?;
                    RAct::Fund(j, self.num()?)
                }
                "out" => {
                    self.eat(b':')?;
                    let j = self.idx()?;
                    self.eat(b':')?;
                    let d = self.idx()?;
                    self.eat(b':')?;
                    RAct::Out(j, d, self.num()?)
                }
                "complete" => {
                    self.eat(b':')?;
                    let i = self.idx()?;
                    self.eat(b':')?;
                    RAct::Complete(i, self.loans()?)
                }
                "chain" => {
                    self.eat(b':')?;
                    let i = self.idx()?;
                    self.eat(b':')?;
                    let l = self.loans()?;
                    self.eat(b':')?;
                    let p = self.list()?;
                    if l.is_empty() {
                        return None;
                    }
                    RAct::Chain(i, l, p)
                }
                _ => return None,
            };
            out.push(act);
            if self.eat(b';').is_some() {
                continue;
            }
            self.eat(b']')?;
            return Some(out);
        }
    }
}

pub fn parse_loans(s: &str) -> Option<Loans> {
    let mut p = P { b: s.as_bytes(), i: 0 };
    let l = p.loans()?;
    if p.i == s.len() {
        Some(l)
    } else {
        None
    }
}
pub fn parse_racts(s: &str) -> Option<Vec<RAct>> {
    let mut p = P { b: s.as_bytes(), i: 0 };
    let l = p.list()?;
    if p.i == s.len() {
        Some(l)
    } else {
        None
    }
}

#[derive(Clone, Debug, PartialEq, Default)]
pub struct Obs {
    /// per vault: pending, all-time, burned, loan counter
    pub v: Vec<[u128; 4]>,
    /// per asset: balances of accounts 0..5 and of every vault
    pub b: Vec<Vec<u128>>,
    pub q: Vec<u128>,
    /// LP supply per vault (monitors only, not printed)
    pub sup: Vec<u128>,
    /// balances of the denom without a vault: accounts 0..5 and every vault
    pub junk: Vec<u128>,
}
impl Obs {
    fn show(&self) -> String {
        let j = |v: &[u128]| v.iter().map(|x| x.to_string()).collect::<Vec<_>>().join(",");
        let mut parts: Vec<String> = self.v.iter().enumerate().map(|(k, v)| format!("v{k}={}", j(v))).collect();
        parts.extend(self.b.iter().enumerate().map(|(k, v)| format!("b{k}={}", j(v))));
        parts.push(format!("q={}", j(&self.q)));
        parts.push(format!("junk={}", j(&self.junk)));
        parts.join(" ")
    }
}

pub struct World {
    app: App,
    nv: usize,
    kinds: Vec<u8>,
    tokens: Vec<Option<Addr>>,
    vaults: Vec<Addr>,
    lps: Vec<Addr>,
    adv: Addr,
    router: Addr,
    accts: Vec<Addr>,
    fees: Vec<(u128, u128, u128)>,
}

fn u512(x: u128) -> Uint512 {
    Uint512::from(x)
}
fn fee_of(share: u128, amt: u128) -> u128 {
    (u512(amt) * u512(share) / u512(E18)).to_string().parse().unwrap()
}

impl World {
    fn new(kinds: &[u8], fees: &[(u128, u128, u128)], bals: &[Vec<u128>], deps: &[Vec<u128>]) -> Option<World> {
        let nv = kinds.len();
        let owner = Addr::unchecked("owner");
        let mut accts: Vec<Addr> = ACCTS.iter().map(|a| Addr::unchecked(*a)).collect();
        let mut app = AppBuilder::new().with_bank(BankKeeper::new()).build(|_r, _a, _s| {});
        let vault_id = app.store_code(Box::new(
            ContractWrapper::new(vault::contract::execute, vault::contract::instantiate, vault::contract::query).with_reply(vault::reply::reply),
        ));
        let token_id = app.store_code(Box::new(ContractWrapper::new(
            terraswap_token::contract::execute,
            terraswap_token::contract::instantiate,
            terraswap_token::contract::query,
        )));
        let cw20_id = app.store_code(Box::new(ContractWrapper::new(
            cw20_base::contract::execute,
            cw20_base::contract::instantiate,
            cw20_base::contract::query,
        )));
        let adv_id = app.store_code(adv_contract());
        let adv = app.instantiate_contract(adv_id, owner.clone(), &Empty {}, &[], "adv", None).unwrap();
        accts[ADV] = adv.clone();
        let factory_id = app.store_code(Box::new(
            ContractWrapper::new(vault_factory::contract::execute, vault_factory::contract::instantiate, vault_factory::contract::query)
                .with_reply(vault_factory::reply::reply),
        ));
        let factory = app
            .instantiate_contract(
                factory_id,
                owner.clone(),
                &fmsg::InstantiateMsg { owner: owner.to_string(), vault_id, token_id, fee_collector_addr: accts[4].to_string() },
                &[],
                "vault-factory",
                None,
            )
            .unwrap();
        let router_id = app.store_code(Box::new(ContractWrapper::new(
            vault_router::contract::execute,
            vault_router::contract::instantiate,
            vault_router::contract::query,
        )));
        let router = app
            .instantiate_contract(
                router_id,
                owner.clone(),
                &rmsg::InstantiateMsg { owner: owner.to_string(), vault_factory_addr: factory.to_string() },
                &[],
                "router",
                None,
            )
            .unwrap();
        accts[ROUTER] = router.clone();
        for a in accts[..4].iter() {
            app.sudo(cw_multi_test::SudoMsg::Bank(cw_multi_test::BankSudo::Mint { to_address: a.to_string(), amount: coins(1u128 << 100, dset().1) }))
                .unwrap();
        }
        let mut tokens = vec![];
        let mut vaults = vec![];
        let mut lps = vec![];
        for j in 0..nv {
            let info = if kinds[j] == 0 {
                for (i, a) in accts.iter().enumerate() {
                    if bals[j][i] > 0 {
                        app.sudo(cw_multi_test::SudoMsg::Bank(cw_multi_test::BankSudo::Mint {
                            to_address: a.to_string(),
                            amount: coins(bals[j][i], dset().0[j]),
                        }))
                        .unwrap();
                    }
                }
                tokens.push(None);
                AssetInfo::NativeToken { denom: dset().0[j].into() }
            } else {
                let init: Vec<Cw20Coin> = accts
                    .iter()
                    .enumerate()
                    .filter(|(i, _)| bals[j][*i] > 0)
                    .map(|(i, a)| Cw20Coin { address: a.to_string(), amount: Uint128::new(bals[j][i]) })
                    .collect();
                let t = app
                    .instantiate_contract(
                        cw20_id,
                        owner.clone(),
                        &cw20_base::msg::InstantiateMsg {
                            name: format!("asset{j}"),
                            symbol: format!("ASSET{}", ["A", "B", "C", "D"][j]),
                            decimals: 6,
                            initial_balances: init,
                            mint: None,
                            marketing: None,
                        },
                        &[],
                        "asset",
                        None,
                    )
                    .unwrap();
                tokens.push(Some(t.clone()));
                AssetInfo::Token { contract_addr: t.to_string() }
            };
            let f = fees[j];
            app.execute_contract(
                owner.clone(),
                factory.clone(),
                &fmsg::ExecuteMsg::CreateVault {
                    asset_info: info.clone(),
                    fees: VaultFee {
                        protocol_fee: Fee { share: Decimal::raw(f.0) },
                        flash_loan_fee: Fee { share: Decimal::raw(f.1) },
                        burn_fee: Fee { share: Decimal::raw(f.2) },
                    },
                    token_factory_lp: false,
                },
                &[],
            )
            .map_err(|e| {
                if std::env::var("WWH_PANIC").is_ok() {
                    eprintln!("create_vault {j}: {e:?}");
                }
                e
            })
            .ok()?;
            let addr: Option<String> = app.wrap().query_wasm_smart(&factory, &fmsg::QueryMsg::Vault { asset_info: info.clone() }).ok()?;
            let vault = Addr::unchecked(addr?);
            let cfg: vmsg::Config = app.wrap().query_wasm_smart(&vault, &vmsg::QueryMsg::Config {}).ok()?;
            let lp = match cfg.lp_asset {
                AssetInfo::Token { contract_addr } => Addr::unchecked(contract_addr),
                AssetInfo::NativeToken { .. } => return None,
            };
            // the depositors
            for u in 0..3 {
                let d = deps[j][u];
                if d == 0 {
                    continue;
                }
                if let Some(t) = &tokens[j] {
                    app.execute_contract(
                        accts[u].clone(),
                        t.clone(),
                        &Cw20ExecuteMsg::IncreaseAllowance { spender: vault.to_string(), amount: d.into(), expires: None },
                        &[],
                    )
                    .ok()?;
                }
                let funds = if kinds[j] == 0 { coins(d, dset().0[j]) } else { vec![] };
                app.execute_contract(accts[u].clone(), vault.clone(), &vmsg::ExecuteMsg::Deposit { amount: d.into() }, &funds).ok()?;
            }
            vaults.push(vault);
            lps.push(lp);
        }
        Some(World { app, nv, kinds: kinds.to_vec(), tokens, vaults, lps, adv, router, accts, fees: fees.to_vec() })
    }

    /// account index -> address (0..5 the fixed accounts, 6 + k vault k)
    fn acct(&self, a: usize) -> Option<Addr> {
        if a < 6 {
            Some(self.accts[a].clone())
        } else {
            self.vaults.get(a - 6).cloned()
        }
    }

    fn bal(&self, j: usize, a: &Addr) -> u128 {
        match &self.tokens[j] {
            None => self.app.wrap().query_balance(a, dset().0[j]).unwrap().amount.u128(),
            Some(t) => cw20_bal(&self.app, t, a),
        }
    }

    fn observe(&self) -> Obs {
        let q = self.app.wrap();
        let mut o = Obs::default();
        for j in 0..self.nv {
            let v = &self.vaults[j];
            let pend: vmsg::ProtocolFeesResponse = q.query_wasm_smart(v, &vmsg::QueryMsg::ProtocolFees { all_time: false }).unwrap();
            let all: vmsg::ProtocolFeesResponse = q.query_wasm_smart(v, &vmsg::QueryMsg::ProtocolFees { all_time: true }).unwrap();
            let burned: vmsg::ProtocolFeesResponse = q.query_wasm_smart(v, &vmsg::QueryMsg::BurnedFees {}).unwrap();
            let ctr = match q.query_wasm_raw(v, b"loan_counter".to_vec()).unwrap() {
                Some(raw) => String::from_utf8(raw).unwrap().trim().parse::<u128>().unwrap_or(999),
                None => 999,
            };
            o.v.push([pend.fees.amount.u128(), all.fees.amount.u128(), burned.fees.amount.u128(), ctr]);
            let mut row: Vec<u128> = self.accts.iter().map(|a| self.bal(j, a)).collect();
            row.extend(self.vaults.iter().map(|a| self.bal(j, a)));
            o.b.push(row);
            let pb: vmsg::PaybackAmountResponse = q.query_wasm_smart(v, &vmsg::QueryMsg::GetPaybackAmount { amount: Uint128::new(1_000_000_007) }).unwrap();
            o.q.push(pb.payback_amount.u128());
            let ti: cw20::TokenInfoResponse = q.query_wasm_smart(&self.lps[j], &Cw20QueryMsg::TokenInfo {}).unwrap();
            o.sup.push(ti.total_supply.u128());
        }
        o.junk = self.accts.iter().chain(self.vaults.iter()).map(|a| q.query_balance(a, dset().1).unwrap().amount.u128()).collect();
        o
    }

    /// the coins of a stray-coin suffix: sel < nv the native denom of vault sel's asset, sel = nv the denom without a vault
    fn stray_coins(&self, stray: Stray) -> Vec<Coin> {
        match stray {
            Some((sel, n)) if sel < self.nv => coins(n, dset().0[sel]),
            Some((_, n)) => coins(n, dset().1),
            None => vec![],
        }
    }

    fn asset_info(&self, j: usize) -> AssetInfo {
        if j >= self.nv {
            return AssetInfo::NativeToken { denom: dset().1.into() };
        }
        match &self.tokens[j] {
            None => AssetInfo::NativeToken { denom: dset().0[j].into() },
            Some(t) => AssetInfo::Token { contract_addr: t.to_string() },
        }
    }
    fn asset(&self, j: usize, n: u128) -> Asset {
        Asset { info: self.asset_info(j), amount: n.into() }
    }
    /// the address named as vault of asset j (an asset without a vault: the funding contract)
    fn vault_str(&self, j: usize) -> String {
        if j < self.nv {
            self.vaults[j].to_string()
        } else {
            self.adv.to_string()
        }
    }
    fn loaned(&self, l: &Loans) -> Vec<(String, Asset)> {
        l.iter().map(|(j, n)| (self.vault_str(*j), self.asset(*j, *n))).collect()
    }

    fn pay_msg(&self, j: usize, to: &Addr, n: u128) -> CosmosMsg {
        match &self.tokens[j] {
            None => BankMsg::Send { to_address: to.to_string(), amount: coins(n, dset().0[j]) }.into(),
            Some(t) => WasmMsg::Execute {
                contract_addr: t.to_string(),
                msg: to_json_binary(&Cw20ExecuteMsg::Transfer { recipient: to.to_string(), amount: n.into() }).unwrap(),
                funds: vec![],
            }
            .into(),
        }
    }
    fn wasm(&self, to: &str, msg: Binary) -> CosmosMsg {
        WasmMsg::Execute { contract_addr: to.to_string(), msg, funds: vec![] }.into()
    }
    fn fail_msg(&self) -> CosmosMsg {
        self.wasm(self.adv.as_str(), to_json_binary(&AdvMsg::Fail {}).unwrap())
    }

    /// what `flash_loan.rs` would build for the assets `l` (it refuses more than one): the first vault's
    /// FlashLoan carrying NextLoan{initiator, source = first, to_loan = rest, payload, loaned_assets = all}
    fn chain_msg(&self, initiator: &Addr, l: &Loans, payload: Vec<CosmosMsg>) -> CosmosMsg {
        let all = self.loaned(l);
        let ((v0, a0), rest) = all.split_first().unwrap();
        self.wasm(
            v0,
            to_json_binary(&vmsg::ExecuteMsg::FlashLoan {
                amount: a0.amount,
                msg: to_json_binary(&rmsg::ExecuteMsg::NextLoan {
                    initiator: initiator.clone(),
                    source_vault: v0.clone(),
                    source_vault_asset_info: a0.info.clone(),
                    payload,
                    to_loan: rest.to_vec(),
                    loaned_assets: all.clone(),
                })
                .unwrap(),
            })
            .unwrap(),
        )
    }

    /// the payload's messages; the ROUTER executes them
    fn racts_to_msgs(&self, acts: &[RAct]) -> Vec<CosmosMsg> {
        let mut out = vec![];
        for a in acts {
            out.push(match a {
                RAct::Fund(j, n) => {
                    if *j < self.nv {
                        self.wasm(self.adv.as_str(), to_json_binary(&AdvMsg::Run { msgs: vec![self.pay_msg(*j, &self.router, *n)] }).unwrap())
                    } else {
                        self.fail_msg()
                    }
                }
                RAct::Out(j, d, n) => match self.acct(*d) {
                    Some(to) if *j < self.nv && *d != ROUTER => self.pay_msg(*j, &to, *n),
                    _ => self.fail_msg(),
                },
                RAct::Fail => self.fail_msg(),
                RAct::Complete(i, l) => match self.acct(*i) {
                    Some(ini) => self.wasm(
                        self.router.as_str(),
                        to_json_binary(&rmsg::ExecuteMsg::CompleteLoan { initiator: ini, loaned_assets: self.loaned(l) }).unwrap(),
                    ),
                    None => self.fail_msg(),
                },
                RAct::Chain(i, l, p) => match self.acct(*i) {
                    Some(ini) => self.chain_msg(&ini, l, self.racts_to_msgs(p)),
                    None => self.fail_msg(),
                },
            });
        }
        out
    }

    /// execute `msg` on the router as account `who` (0..2 directly, 3 = the funding contract via `Run`)
    fn call_router(&mut self, who: usize, msg: &rmsg::ExecuteMsg, funds: &[Coin]) -> bool {
        let r = if who < 3 {
            let (a, r) = (self.accts[who].clone(), self.router.clone());
            guarded(|| self.app.execute_contract(a, r, msg, funds))
        } else {
            // the funding contract attaches the coins (its own) to the message it sends
            let inner: CosmosMsg =
                WasmMsg::Execute { contract_addr: self.router.to_string(), msg: to_json_binary(msg).unwrap(), funds: funds.to_vec() }.into();
            let run = AdvMsg::Run { msgs: vec![inner] };
            let (a, adv) = (self.accts[0].clone(), self.adv.clone());
            guarded(|| self.app.execute_contract(a, adv, &run, &[]))
        };
        matches!(r, Outcome::Ok(_))
    }

    /// the vault's own answer to GetPaybackAmount: (payback, protocol, flash, burn)
    fn quote(&self, j: usize, n: u128) -> Option<(u128, u128, u128, u128)> {
        if j >= self.nv {
            return None;
        }
        let r: Result<vmsg::PaybackAmountResponse, _> =
            self.app.wrap().query_wasm_smart(&self.vaults[j], &vmsg::QueryMsg::GetPaybackAmount { amount: Uint128::new(n) });
        r.ok().map(|p| (p.payback_amount.u128(), p.protocol_fee.u128(), p.flash_loan_fee.u128(), p.burn_fee.u128()))
    }
}

/// The property's reading of a router transaction, evaluated on balances only (independent of the
/// Lean model): funds move as the messages say, every vault is repaid exactly what it QUOTES
/// (the real GetPaybackAmount answers), the remainder goes to the named initiator.
struct Sim<'a> {
    w: &'a World,
    b: Vec<Vec<u128>>,
    inflight: Vec<bool>,
    /// per vault: protocol fees and burn fees charged by the transaction
    charged: Vec<(u128, u128)>,
    /// quotes used: (vault, loan, payback)
    quotes: Vec<(usize, u128, u128)>,
    /// (asset) for which a CompleteLoan ran: the router must hold nothing of it right afterwards
    max_chain: usize,
}
impl<'a> Sim<'a> {
    fn mv(&mut self, j: usize, src: usize, dst: usize, n: u128) -> Option<()> {
        // (row nv is the denom without a vault: a native one)
        if (n == 0 && self.w.kinds.get(j).map_or(true, |k| *k == 0)) || self.b[j][src] < n {
            return None;
        }
        self.b[j][src] -= n;
        self.b[j][dst] = self.b[j][dst].checked_add(n)?;
        Some(())
    }
    fn complete(&mut self, ini: usize, l: &Loans) -> Option<()> {
        let mut qs = vec![];
        for (j, n) in l {
            let (pb, ..) = self.w.quote(*j, *n)?;
            let have = self.b[*j][ROUTER];
            if have < pb {
                return None;
            }
            qs.push((*j, pb, have - pb));
            self.quotes.push((*j, *n, pb));
        }
        for (j, pb, profit) in qs {
            self.mv(j, ROUTER, 6 + j, pb)?;
            if profit > 0 {
                self.mv(j, ROUTER, ini, profit)?;
            }
        }
        Some(())
    }
    fn chain(&mut self, ini: usize, l: &Loans, payload: &[RAct]) -> Option<()> {
        self.max_chain = self.max_chain.max(l.len());
        let mut olds = vec![];
        for (j, n) in l {
            if *j >= self.w.nv || self.inflight[*j] {
                return None;
            }
            self.inflight[*j] = true;
            olds.push((*j, self.b[*j][6 + *j], *n));
            self.mv(*j, 6 + *j, ROUTER, *n)?;
        }
        self.run(payload)?;
        self.complete(ini, l)?;
        for (j, old, n) in olds.into_iter().rev() {
            let (_, pf, ff, bf) = self.w.quote(j, n)?;
            let need = old.checked_add(pf)?.checked_add(ff)?.checked_add(bf)?;
            if self.b[j][6 + j] < need {
                return None;
            }
            self.b[j][6 + j] -= bf;
            self.charged[j].0 += pf;
            self.charged[j].1 += bf;
            self.inflight[j] = false;
        }
        Some(())
    }
    fn run(&mut self, acts: &[RAct]) -> Option<()> {
        let nv = self.w.nv;
        for a in acts {
            match a {
                RAct::Fund(j, n) => {
                    if *j >= nv {
                        return None;
                    }
                    self.mv(*j, ADV, ROUTER, *n)?
                }
                RAct::Out(j, d, n) => {
                    if *j >= nv || *d == ROUTER || *d >= 6 + nv {
                        return None;
                    }
                    self.mv(*j, ROUTER, *d, *n)?
                }
                RAct::Fail => return None,
                RAct::Complete(i, l) => {
                    if *i >= 6 + nv {
                        return None;
                    }
                    self.complete(*i, l)?
                }
                RAct::Chain(i, l, p) => {
                    if *i >= 6 + nv {
                        return None;
                    }
                    self.chain(*i, l, p)?
                }
            }
        }
        Some(())
    }
}

/// stray coins attached to a message: (asset selector, amount)
pub type Stray = Option<(usize, u128)>;

/// `+<sel>:<amount>`
pub fn parse_stray(t: &str) -> Option<(usize, u128)> {
    let (a, b) = t.strip_prefix('+')?.split_once(':')?;
    if a.is_empty() || b.is_empty() || !a.bytes().all(|c| c.is_ascii_digit()) || !b.bytes().all(|c| c.is_ascii_digit()) {
        return None;
    }
    let (sel, n): (usize, u128) = (a.parse().ok()?, b.parse().ok()?);
    if n == 0 {
        return None;
    }
    Some((sel, n))
}

#[derive(Default)]
pub struct VaultChain {
    w: Option<World>,
    last: Obs,
    len: u64,
    /// what the generator intended with the op it produced last (reported as `gen_<tag>_<outcome>` counters)
    tags: Vec<String>,
}

fn depth_of(p: &[RAct]) -> usize {
    p.iter().map(|a| if let RAct::Chain(_, l, q) = a { l.len().max(depth_of(q)) } else { 0 }).max().unwrap_or(0)
}

impl VaultChain {
    fn do_init(&mut self, ws: &[&str]) -> Option<()> {
        let mut nv = 0usize;
        let mut kinds: Vec<u8> = vec![];
        let mut fees: Vec<(u128, u128, u128)> = vec![];
        let mut bals: Vec<Vec<u128>> = vec![];
        let mut deps: Vec<Vec<u128>> = vec![];
        let grid = |s: &str| -> Option<Vec<Vec<u128>>> { s.split(',').map(|r| r.split(':').map(|x| x.parse().ok()).collect()).collect() };
        DN.store(0, std::sync::atomic::Ordering::Relaxed);
        for t in &ws[2..] {
            let (k, v) = t.split_once('=')?;
            match k {
                "nv" => nv = v.parse().ok()?,
                "kinds" => kinds = v.split(',').map(|x| x.parse().ok()).collect::<Option<_>>()?,
                "fees" => fees = grid(v)?.into_iter().map(|r| if r.len() == 3 { Some((r[0], r[1], r[2])) } else { None }).collect::<Option<_>>()?,
                "bals" => bals = grid(v)?,
                "deps" => deps = grid(v)?,
                "dn" => DN.store(v.parse().ok()?, std::sync::atomic::Ordering::Relaxed),
                _ => return None,
            }
        }
        if nv == 0 || nv > 4 || kinds.len() != nv || fees.len() != nv || bals.len() != nv || deps.len() != nv {
            return None;
        }
        if bals.iter().any(|r| r.len() != 6) || deps.iter().any(|r| r.len() != 3) || kinds.iter().any(|k| *k > 1) {
            return None;
        }
        if (0..nv).any(|j| (0..3).any(|a| bals[j][a] < deps[j][a])) {
            return None;
        }
        self.w = Some(World::new(&kinds, &fees, &bals, &deps)?);
        self.last = self.w.as_ref().unwrap().observe();
        Some(())
    }

    /// returns (success, what the property expects: the balance matrix and fee charges, None = must fail)
    fn exec_op(&mut self, ws: &[&str], stray: Stray, mon: &mut Monitor) -> Option<bool> {
        let w = self.w.as_mut()?;
        let before = self.last.clone();
        let line = match stray {
            Some((sel, n)) => format!("{} +{sel}:{n}", ws.join(" ")),
            None => ws.join(" "),
        };
        if let Some((sel, _)) = stray {
            if sel > w.nv || !matches!(ws[0], "rloan" | "collect" | "xnext" | "xcomplete") {
                return None;
            }
        }
        let extra = w.stray_coins(stray);
        let idx = |s: &str| -> Option<usize> { s.parse::<usize>().ok() };
        match ws[0] {
            "rloan" => {
                if ws.len() != 4 {
                    return None;
                }
                let who = idx(ws[1])?;
                let l = parse_loans(ws[2])?;
                let pl = parse_racts(ws[3])?;
                if who > 3 {
                    return None;
                }
                // the property's expectation, from the real quotes taken BEFORE the transaction
                // (row nv of the balance matrix: the denom without a vault)
                let mut bm = before.b.clone();
                bm.push(before.junk.clone());
                let mut sim = Sim { w: &*w, b: bm, inflight: vec![false; w.nv], charged: vec![(0, 0); w.nv], quotes: vec![], max_chain: 0 };
                // coins attached to the FlashLoan message are the router's before anything else happens
                // (a cw20 asset has no coin: such a message cannot be funded)
                let arrived = match stray {
                    Some((sel, n)) => {
                        if sel < w.nv && w.kinds[sel] != 0 {
                            None
                        } else {
                            sim.mv(sel, who, ROUTER, n)
                        }
                    }
                    None => Some(()),
                };
                let expect_ok = arrived.and_then(|_| match l.len() {
                    0 => Some(()),
                    1 => sim.chain(who, &l, &pl),
                    _ => None, // more than one asset is refused
                });
                let (exp_b, charged, quotes, max_chain) = (sim.b, sim.charged, sim.quotes, sim.max_chain);
                for (j, n, pb) in &quotes {
                    let f = w.fees[*j];
                    mon.check("C06", "router_chain_quote_is_loan_plus_fees", *pb == n + fee_of(f.0, *n) + fee_of(f.1, *n) + fee_of(f.2, *n), || {
                        format!("vault {j} quotes {pb} for a loan of {n} at fees {f:?}")
                    });
                }
                let msg = rmsg::ExecuteMsg::FlashLoan { assets: l.iter().map(|(j, n)| w.asset(*j, *n)).collect(), msgs: w.racts_to_msgs(&pl) };
                let ok = w.call_router(who, &msg, &extra);
                let after = w.observe();
                let ctx = |what: &str| format!("{what}: op `{line}` before [{}] after [{}]", before.show(), after.show());
                if let Some((sel, n)) = stray {
                    mon.stat(&format!(
                        "stray_rloan_{}_{}",
                        if l.first().map_or(false, |e| e.0 == sel) { "borrowed_asset" } else if sel < w.nv { "other_vault_asset" } else { "no_vault_denom" },
                        if ok { "ok" } else { "err" }
                    ));
                    let _ = n;
                }
                if ok && expect_ok.is_some() {
                    let nv = w.nv;
                    // the denom without a vault moves only as coins attached to a message: to the router, where it stays
                    mon.check("C06", "router_chain_no_vault_denom_stays", after.junk == exp_b[nv], || ctx(&format!("expected balances of the denom without a vault {:?}", exp_b[nv])));
                    if stray.is_some() {
                        // coins attached to the router's FlashLoan are the router's while the transaction runs: of the
                        // borrowed asset they leave with the remaining proceeds to the initiator, no vault receives more
                        // than its quote, of any other asset they stay with the router (also for a call without assets)
                        let all_ok = (0..nv).all(|j| after.b[j] == exp_b[j]);
                        mon.check("C06", "router_chain_attached_coins_not_kept", all_ok, || ctx(&format!("coins attached to the router's FlashLoan: expected balances {exp_b:?}")));
                    }
                }
                if l.len() > 1 {
                    mon.check("C06", "router_chain_multi_asset_refused", !ok, || ctx("router accepted a FlashLoan over several assets"));
                }
                mon.check("C06", "router_chain_succeeds_iff_covered", ok == expect_ok.is_some(), || {
                    ctx(&format!("expected {} (every guard passes and the router covers every quote at CompleteLoan)", if expect_ok.is_some() { "success" } else { "failure" }))
                });
                // all or nothing
                if !ok {
                    mon.check("C06", "router_chain_all_or_nothing", before == after, || ctx("a failed router transaction changed an observable"));
                } else {
                    mon.check(
                        "C06",
                        "router_chain_all_or_nothing",
                        after.v.iter().all(|v| v[3] == 0) && after.sup == before.sup,
                        || ctx("a loan counter is not back to zero / LP supply moved"),
                    );
                }
                if ok && expect_ok.is_some() && !l.is_empty() {
                    let nv = w.nv;
                    // (b) every vault got exactly its quoted payback: own balance and fee ledgers
                    let vault_ok = (0..nv).all(|j| {
                        after.b[j][6 + j] == exp_b[j][6 + j]
                            && after.v[j][0] == before.v[j][0] + charged[j].0
                            && after.v[j][1] == before.v[j][1] + charged[j].0
                            && after.v[j][2] == before.v[j][2] + charged[j].1
                    });
                    mon.check("C06", "router_chain_pays_each_quote", vault_ok, || {
                        ctx(&format!("quotes (vault, loan, payback) {quotes:?}: expected vault balances {:?}", (0..nv).map(|j| exp_b[j][6 + j]).collect::<Vec<_>>()))
                    });
                    // (c) the router keeps nothing of the borrowed asset and nothing it was not given by the payload itself
                    let router_ok = (0..nv).all(|j| after.b[j][ROUTER] == exp_b[j][ROUTER]) && after.b[l[0].0][ROUTER] == 0;
                    mon.check("C06", "router_chain_keeps_nothing", router_ok, || {
                        ctx(&format!("expected router balances {:?}", (0..nv).map(|j| exp_b[j][ROUTER]).collect::<Vec<_>>()))
                    });
                    // (d) the rest goes to the initiator; nobody else (users, contract, collector, OTHER vaults) moves
                    let others_ok = (0..nv).all(|j| (0..6 + nv).all(|a| a == ROUTER || a == 6 + j || after.b[j][a] == exp_b[j][a]));
                    mon.check("C06", "router_chain_rest_to_initiator", others_ok, || ctx(&format!("expected balances {exp_b:?}")));
                    mon.stat(&format!("rloan_ok_chain_of_{max_chain}"));
                    if (0..nv).any(|j| (0..5).any(|a| after.b[j][a] > before.b[j][a] && a != ADV)) {
                        mon.stat("rloan_ok_profit_forwarded");
                    }
                } else if !ok {
                    mon.stat(&format!("rloan_err_chain_of_{}", depth_of(&pl).max(l.len())));
                }
                self.last = after;
                Some(ok)
            }
            "rfund" => {
                if ws.len() != 4 {
                    return None;
                }
                let (who, j, n) = (idx(ws[1])?, idx(ws[2])?, ws[3].parse::<u128>().ok()?);
                if who > 3 {
                    return None;
                }
                let ok = if j >= w.nv {
                    false
                } else {
                    let m = w.pay_msg(j, &w.router.clone(), n);
                    let r = if who < 3 {
                        let a = w.accts[who].clone();
                        guarded(|| w.app.execute(a, m))
                    } else {
                        let run = AdvMsg::Run { msgs: vec![m] };
                        guarded(|| w.app.execute_contract(w.accts[0].clone(), w.adv.clone(), &run, &[]))
                    };
                    matches!(r, Outcome::Ok(_))
                };
                self.last = w.observe();
                Some(ok)
            }
            "collect" => {
                if ws.len() != 2 {
                    return None;
                }
                let j = idx(ws[1])?;
                let ok = if j >= w.nv {
                    false
                } else {
                    let r = guarded(|| w.app.execute_contract(w.accts[1].clone(), w.vaults[j].clone(), &vmsg::ExecuteMsg::CollectProtocolFees {}, &extra));
                    matches!(r, Outcome::Ok(_))
                };
                let after = w.observe();
                if ok {
                    // exactly the pending fees go to the collector; coins attached to the message (by bob) are a
                    // donation to this vault; nothing else moves, no ledger but the pending one changes
                    let nv = w.nv;
                    let mut eb = before.b.clone();
                    eb.push(before.junk.clone());
                    if let Some((sel, n)) = stray {
                        eb[sel][1] = eb[sel][1].wrapping_sub(n);
                        eb[sel][6 + j] += n;
                    }
                    let pend = before.v[j][0];
                    eb[j][6 + j] = eb[j][6 + j].wrapping_sub(pend);
                    eb[j][4] += pend;
                    let mut ev = before.v.clone();
                    ev[j][0] = 0;
                    let same = (0..nv).all(|k| after.b[k] == eb[k]) && after.junk == eb[nv] && after.v == ev && after.sup == before.sup;
                    mon.check("C06", "chain_collect_moves_pending_and_attached_only", same, || {
                        format!("vault {j} collect: op `{line}` before [{}] after [{}] expected balances {eb:?}", before.show(), after.show())
                    });
                } else {
                    mon.check("C06", "router_chain_all_or_nothing", before == after, || {
                        format!("a failed collect changed an observable: op `{line}` before [{}] after [{}]", before.show(), after.show())
                    });
                }
                if let Some((sel, _)) = stray {
                    mon.stat(&format!("stray_collect_{}_{}", if sel == j { "own_asset" } else if sel < w.nv { "other_vault_asset" } else { "no_vault_denom" }, if ok { "ok" } else { "err" }));
                }
                self.last = after;
                Some(ok)
            }
            "xnext" | "xcomplete" => {
                let is_next = ws[0] == "xnext";
                if ws.len() != if is_next { 5 } else { 4 } {
                    return None;
                }
                let (who, i) = (idx(ws[1])?, idx(ws[2])?);
                let l = parse_loans(ws[3])?;
                if who > 3 || i > 4 {
                    return None;
                }
                let msg = if is_next {
                    let pl = parse_racts(ws[4])?;
                    if l.is_empty() {
                        return None;
                    }
                    let all = w.loaned(&l);
                    rmsg::ExecuteMsg::NextLoan {
                        initiator: w.accts[i].clone(),
                        source_vault: all[0].0.clone(),
                        source_vault_asset_info: all[0].1.info.clone(),
                        payload: w.racts_to_msgs(&pl),
                        to_loan: all[1..].to_vec(),
                        loaned_assets: all,
                    }
                } else {
                    rmsg::ExecuteMsg::CompleteLoan { initiator: w.accts[i].clone(), loaned_assets: w.loaned(&l) }
                };
                let ok = w.call_router(who, &msg, &extra);
                let after = w.observe();
                if stray.is_some() {
                    mon.stat(&format!("stray_{}_{}", ws[0], if ok { "ok" } else { "err" }));
                }
                mon.check("C06", "router_chain_callbacks_guarded", !ok && before == after, || {
                    format!("NextLoan / CompleteLoan accepted from a stranger: op `{line}` before [{}] after [{}]", before.show(), after.show())
                });
                self.last = after;
                Some(ok)
            }
            _ => None,
        }
    }
}

impl Engine for VaultChain {
    fn exec(&mut self, line: &str, mon: &mut Monitor) -> String {
        let mut ws: Vec<&str> = line.split_whitespace().collect();
        if ws.is_empty() {
            return "bad-op".into();
        }
        // a trailing `+<sel>:<amount>`: coins attached to the message on top of what it asks for
        let mut stray: Stray = None;
        if ws[0] != "init" && ws.last().map_or(false, |t| t.starts_with('+')) {
            match parse_stray(ws[ws.len() - 1]) {
                Some(x) => stray = Some(x),
                None => return "bad-op".into(),
            }
            ws.pop();
            if ws.is_empty() {
                return "bad-op".into();
            }
        }
        if ws[0] == "init" {
            self.w = None;
            return match self.do_init(&ws) {
                Some(()) => format!("ok {}", self.last.show()),
                None => "bad-op".into(),
            };
        }
        if self.w.is_none() {
            return "bad-op".into();
        }
        match self.exec_op(&ws, stray, mon) {
            None => "bad-op".into(),
            Some(ok) => {
                mon.stat(&format!("{}_{}", ws[0], if ok { "ok" } else { "err" }));
                for t in self.tags.drain(..) {
                    mon.stat(&format!("gen_{t}_{}", if ok { "ok" } else { "err" }));
                }
                format!("{} {}", if ok { "ok" } else { "err" }, self.last.show())
            }
        }
    }

    fn next_op(&mut self, rng: &mut Rng, step: u64) -> Option<String> {
        let line = self.gen_op(rng, step)?;
        if step == 0 || line.contains(" +") {
            return Some(line);
        }
        // any execute message can carry coins it does not ask for
        let t: Vec<&str> = line.split_whitespace().collect();
        let den = match t[0] {
            "rloan" => 8,
            "collect" | "xnext" | "xcomplete" => 6,
            _ => return Some(line),
        };
        if !rng.chance(1, den) {
            return Some(line);
        }
        let w = self.w.as_ref()?;
        let o = &self.last;
        let nv = w.nv;
        let sender: usize = if t[0] == "collect" { 1 } else { t[1].parse().unwrap_or(0) };
        let own: Option<(usize, u128)> = match t[0] {
            "rloan" => parse_loans(t[2]).and_then(|l| l.first().cloned()),
            "collect" => t[1].parse().ok().map(|j| (j, 0)),
            _ => None,
        };
        let (sel, amt) = pick_stray(rng, o, w, sender, own);
        let _ = nv;
        Some(format!("{line} +{sel}:{amt}"))
    }
}

/// coins to attach: mostly of the asset the message is about (`own` = (asset, loan)), otherwise another vault's
/// asset or the denom without a vault; amounts 1 / small / about the fee / above the loan / all / more than held
fn pick_stray(rng: &mut Rng, o: &Obs, w: &World, sender: usize, own: Option<(usize, u128)>) -> (usize, u128) {
    let nv = w.nv;
    let sel = match (rng.below(10), own) {
        (0..=5, Some((j, _))) if j < nv => j,
        (0..=7, _) => rng.below(nv as u64) as usize,
        _ => nv,
    };
    let have = if sel < nv { o.b[sel][sender] } else { o.junk[sender] };
    let (loan, fee) = match own {
        Some((j, n)) if j < nv => {
            let f = w.fees[j];
            (n, fee_of(f.0, n) + fee_of(f.1, n) + fee_of(f.2, n))
        }
        _ => (0, 0),
    };
    let amt = match rng.below(10) {
        0 | 1 => 1,
        2 | 3 => rng.u128() % 1000 + 1,
        4 | 5 => (fee + rng.below(3) as u128).saturating_sub(1).max(1),
        6 | 7 => loan + rng.u128() % 1000 + 1,
        8 => have.max(1),
        _ => have + 1,
    };
    let amt = if rng.chance(9, 10) { amt.min(have.max(1)) } else { amt };
    (sel, amt)
}

impl VaultChain {
    fn gen_op(&mut self, rng: &mut Rng, step: u64) -> Option<String> {
        if step == 0 {
            self.len = rng.range(4, 14);
            let nv = rng.range(3, 4) as usize;
            // native and cw20 mixed: both kinds occur in every world
            let mut kinds: Vec<u64> = (0..nv).map(|_| rng.below(2)).collect();
            if kinds.iter().all(|k| *k == kinds[0]) {
                let p = rng.below(nv as u64) as usize;
                kinds[p] = 1 - kinds[p];
            }
            let big = rng.chance(1, 5);
            let mut fees = vec![];
            let mut bals = vec![];
            let mut deps = vec![];
            for _ in 0..nv {
                let (p, f, b) = if rng.chance(1, 7) { (0, 0, 0) } else { rng.valid_fees() };
                fees.push(format!("{p}:{f}:{b}"));
                let row: Vec<u128> = (0..6)
                    .map(|i| {
                        if i == 4 {
                            0
                        } else if i == ROUTER {
                            if rng.chance(1, 6) { rng.u128() % 5000 + 1 } else { 0 }
                        } else if i == ADV {
                            // the funding contract is rich: every fee can be funded
                            if big { 1u128 << 114 } else { 1u128 << 104 }
                        } else if big {
                            1u128 << 108
                        } else {
                            rng.log_uniform(70) + 5_000_000
                        }
                    })
                    .collect();
                // one to three depositors
                let first = rng.below(3) as usize;
                let d: Vec<u128> = (0..3)
                    .map(|u| {
                        if u == first || rng.chance(1, 2) {
                            let cap = row[u] / 2;
                            (match rng.below(3) {
                                0 => rng.u128() % cap + 1,
                                1 => rng.log_uniform(40).min(cap),
                                _ => cap,
                            })
                            .max(2000)
                        } else {
                            0
                        }
                    })
                    .collect();
                // the first deposit must exceed the locked minimum: order of deposits is 0,1,2
                bals.push(row.iter().map(|x| x.to_string()).collect::<Vec<_>>().join(":"));
                deps.push(d.iter().map(|x| x.to_string()).collect::<Vec<_>>().join(":"));
            }
            let ks: Vec<String> = kinds.iter().map(|k| k.to_string()).collect();
            return Some(format!(
                "init vaultchain nv={nv} kinds={} fees={} bals={} deps={} dn={}",
                ks.join(","),
                fees.join(","),
                bals.join(","),
                deps.join(","),
                rng.below(DENOM_SETS.len() as u64)
            ));
        }
        if step > self.len {
            return None;
        }
        let o = self.last.clone();
        let w = self.w.as_ref()?;
        let nv = w.nv;
        let who = rng.below(4) as usize;
        let small = |rng: &mut Rng, cap: u128| -> u128 {
            if cap == 0 {
                0
            } else {
                match rng.below(4) {
                    0 => rng.u128() % cap + 1,
                    1 => cap,
                    2 => (rng.log_uniform(40)).min(cap),
                    _ => rng.u128() % cap.min(10_000_000) + 1,
                }
            }
        };
        let r = rng.below(100);
        if r < 7 {
            let j = rng.below(nv as u64) as usize;
            let n = match rng.below(8) {
                0 => 0,
                1 => o.b[j][who] + 1,
                2 => small(rng, o.b[j][who]),
                _ => rng.u128() % 3000 + 1,
            };
            return Some(format!("rfund {who} {} {n}", if rng.chance(1, 12) { nv } else { j }));
        }
        if r < 12 {
            let extra = if rng.chance(1, 6) { 1 } else { 0 };
            return Some(format!("collect {}", rng.below(nv as u64 + extra)));
        }
        // a random order of all vaults
        let mut perm: Vec<usize> = (0..nv).collect();
        for i in (1..nv).rev() {
            perm.swap(i, rng.below(i as u64 + 1) as usize);
        }
        let amount = |rng: &mut Rng, j: usize| -> u128 {
            let bal = o.b[j][6 + j];
            match rng.below(24) {
                0 => bal + 1,
                1 => 0,
                2 => bal,
                _ => small(rng, bal),
            }
        };
        if r < 17 {
            // the router's callbacks sent by a stranger, naming real vaults (chained shape included)
            let k = rng.range(1, nv as u64) as usize;
            let l: Loans = perm[..k].iter().map(|j| (*j, small(rng, o.b[*j][6 + *j] / 2 + 1))).collect();
            let i = rng.below(5);
            return Some(if rng.chance(1, 2) {
                let pl = if rng.chance(1, 2) { vec![] } else { vec![RAct::Out(l[0].0, rng.below(3) as usize, 1)] };
                format!("xnext {who} {i} {} {}", show_loans(&l), show_racts(&pl))
            } else {
                format!("xcomplete {who} {i} {}", show_loans(&l))
            });
        }
        let pb = |j: usize, n: u128| -> u128 {
            let f = w.fees[j];
            n + fee_of(f.0, n) + fee_of(f.1, n) + fee_of(f.2, n)
        };
        if r < 25 {
            // FlashLoan{assets} over 0 / 2 / 3 assets sent to the router directly, funded as if it were allowed
            let k = match rng.below(8) {
                0 => 0,
                1..=4 => 2,
                _ => 3,
            };
            let l: Loans = perm[..k].iter().map(|j| (*j, amount(rng, *j))).collect();
            let pl: Vec<RAct> = l.iter().map(|(j, n)| RAct::Fund(*j, (pb(*j, *n) - n).saturating_sub(o.b[*j][ROUTER]) + rng.below(3) as u128)).collect();
            return Some(format!("rloan {who} {} {}", show_loans(&l), show_racts(&pl)));
        }
        if r < 35 {
            // free-form payloads: early CompleteLoan, chains inside chains, the same vault twice, unknown assets
            let j0 = perm[0];
            let n0 = amount(rng, j0);
            let pl = gen_wild(rng, &o, w, &perm, 0);
            let mut pl = pl;
            if rng.chance(3, 4) {
                let need = (pb(j0, n0) - n0).saturating_sub(o.b[j0][ROUTER]);
                pl.push(RAct::Fund(j0, need + rng.below(3) as u128));
            }
            return Some(format!("rloan {who} ({}.{}) {}", if rng.chance(1, 15) { nv } else { j0 }, n0, show_racts(&pl)));
        }
        // ---- the structured multi-asset loan: one vault through FlashLoan, 0..nv-1 more through the chain
        let j0 = perm[0];
        let klen = match rng.below(10) {
            0 => 0,
            1..=3 => 1,
            4..=7 => 2.min(nv - 1),
            _ => nv - 1,
        };
        let mut chain: Loans = perm[1..1 + klen].iter().map(|j| (*j, amount(rng, *j))).collect();
        let n0 = amount(rng, j0);
        if !chain.is_empty() {
            match rng.below(40) {
                0 => {
                    // an asset listed twice
                    self.tags.push("asset_twice".into());
                    let e = chain[rng.below(chain.len() as u64) as usize];
                    let pos = rng.below(chain.len() as u64 + 1) as usize;
                    chain.insert(pos, (e.0, small(rng, e.1.max(1))));
                }
                1 => {
                    // the vault already lending through FlashLoan
                    self.tags.push("outer_vault_again".into());
                    let pos = rng.below(chain.len() as u64 + 1) as usize;
                    chain.insert(pos, (j0, 1));
                }
                2 => {
                    // an asset without a vault
                    self.tags.push("asset_without_vault".into());
                    let pos = rng.below(chain.len() as u64 + 1) as usize;
                    chain.insert(pos, (nv, rng.u128() % 1000 + 1));
                }
                _ => {}
            }
        }
        let ini = if rng.chance(4, 5) { who } else { rng.below(5) as usize };
        // outcome: 0 profit everywhere, 1 exactly even, 2 one unit short for ONE asset, 3 mixed, 4 failing payload
        let mode = match rng.below(20) {
            0..=5 => 0,
            6..=10 => 1,
            11..=15 => 2,
            16..=18 => 3,
            _ => 4,
        };
        self.tags.push(format!("{}_vaults_{}", 1 + chain.len(), ["profit", "exactly_even", "one_unit_short", "mixed", "failing_payload"][mode as usize]));
        if ini != who {
            self.tags.push("initiator_not_sender".into());
        }
        let all: Vec<(usize, u128)> = std::iter::once((j0, n0)).chain(chain.iter().cloned()).filter(|(j, _)| *j < nv).collect();
        let short_one = all[rng.below(all.len() as u64) as usize].0;
        // one in seven of these loans carries coins ATTACHED to the router's FlashLoan; the router holds them while
        // the payload runs, so the fundings below aim at the payback boundary with them counted in
        let mut o = o.clone();
        let mut suffix = String::new();
        if rng.chance(1, 7) {
            let (sel, amt) = pick_stray(rng, &o, w, who, Some((j0, n0)));
            if sel < nv && w.kinds[sel] == 0 && amt <= o.b[sel][who] {
                o.b[sel][who] -= amt;
                o.b[sel][ROUTER] += amt;
            }
            self.tags.push("coins_attached".into());
            suffix = format!(" +{sel}:{amt}");
        }
        let o = o;
        let fund_for = |rng: &mut Rng, j: usize, n: u128| -> Vec<RAct> {
            let need = (pb(j, n) - n).saturating_sub(o.b[j][ROUTER]);
            let want_short = mode == 2 && j == short_one;
            let m = if want_short { 2 } else if mode == 3 { rng.below(2) } else { mode.min(1) };
            match m {
                0 => vec![RAct::Fund(j, need + rng.u128() % 5000 + 1)],
                1 => {
                    if need > 0 || (w.kinds[j] == 1 && rng.chance(1, 2)) {
                        vec![RAct::Fund(j, need)]
                    } else {
                        vec![]
                    }
                }
                _ => {
                    if need > 0 {
                        vec![RAct::Fund(j, need - 1)]
                    } else {
                        // nothing to fund (zero fees or a pre-funded router): the router gives one unit away
                        let have = o.b[j][ROUTER] + n;
                        let excess = have - pb(j, n);
                        vec![RAct::Out(j, rng.below(3) as usize, excess + 1)]
                    }
                }
            }
        };
        let mut inner: Vec<RAct> = vec![];
        for (j, n) in chain.iter().filter(|(j, _)| *j < nv) {
            let f = fund_for(rng, *j, *n);
            let pos = rng.below(inner.len() as u64 + 1) as usize;
            for (k, a) in f.into_iter().enumerate() {
                inner.insert(pos + k, a);
            }
        }
        if rng.chance(1, 6) && !chain.is_empty() && chain[0].0 < nv {
            // the router passes some of the borrowed funds on and is refunded
            self.tags.push("passes_funds_on".into());
            let (j, n) = chain[0];
            let x = small(rng, n.min(1000));
            if x > 0 {
                inner.insert(0, RAct::Out(j, rng.below(5) as usize, x));
                inner.push(RAct::Fund(j, x));
            }
        }
        if mode == 4 {
            let pos = rng.below(inner.len() as u64 + 1) as usize;
            inner.insert(pos, RAct::Fail);
        }
        let mut outer: Vec<RAct> = fund_for(rng, j0, n0);
        if !chain.is_empty() {
            let pos = rng.below(outer.len() as u64 + 1) as usize;
            if rng.chance(1, 14) && !inner.is_empty() {
                // a funding that arrives only after the chain's CompleteLoan
                self.tags.push("funding_too_late".into());
                let a = inner.pop().unwrap();
                outer.push(a);
            }
            outer.insert(pos, RAct::Chain(ini, chain, inner));
        } else if mode == 4 {
            outer.push(RAct::Fail);
        }
        Some(format!("rloan {who} ({j0}.{n0}) {}{suffix}", show_racts(&outer)))
    }
}

/// free-form payloads over the whole alphabet
fn gen_wild(rng: &mut Rng, o: &Obs, w: &World, perm: &[usize], depth: u32) -> Vec<RAct> {
    let nv = w.nv;
    let mut acts = vec![];
    let n_acts = rng.range(1, 3);
    for _ in 0..n_acts {
        let j = rng.below(nv as u64) as usize;
        match rng.below(10) {
            0 | 1 => acts.push(RAct::Fund(j, rng.u128() % 5000)),
            2 => acts.push(RAct::Out(j, rng.below(7 + nv as u64) as usize, rng.u128() % 500)),
            3 => {
                if rng.chance(1, 3) {
                    acts.push(RAct::Fail)
                }
            }
            4 | 5 => {
                // an early CompleteLoan: any list (the vault in flight, twice the same, zero amounts)
                let k = rng.range(0, 2) as usize;
                let l: Loans = (0..k)
                    .map(|_| {
                        let extra = if rng.chance(1, 8) { 1 } else { 0 };
                        (rng.below(nv as u64 + extra) as usize, rng.u128() % 2000)
                    })
                    .collect();
                acts.push(RAct::Complete(rng.below(6 + nv as u64 + 1) as usize, l));
            }
            _ => {
                if depth < 2 {
                    let k = rng.range(1, (nv - 1) as u64) as usize;
                    let start = 1 + rng.below((nv - k) as u64) as usize;
                    let mut l: Loans = perm[start..start + k].iter().map(|x| (*x, rng.u128() % (o.b[*x][6 + *x] / 4 + 1) + rng.below(2) as u128)).collect();
                    if rng.chance(1, 10) {
                        l.push(l[0]);
                    }
                    let f = |j: usize, n: u128| -> u128 {
                        let f = w.fees[j];
                        fee_of(f.0, n) + fee_of(f.1, n) + fee_of(f.2, n)
                    };
                    let mut inner: Vec<RAct> = l.iter().map(|(x, n)| RAct::Fund(*x, f(*x, *n).saturating_sub(o.b[*x][ROUTER]) + rng.below(3) as u128)).collect();
                    if rng.chance(1, 3) {
                        inner.extend(gen_wild(rng, o, w, perm, depth + 1));
                    }
                    acts.push(RAct::Chain(rng.below(6 + nv as u64) as usize, l, inner));
                }
            }
        }
    }
    acts
}
