//! Engine `registry` (C19): the real pool factory, vault factory, incentive factory and swap router
//! (plus pair / trio / vault / incentive / cw20 code) in one cw-multi-test `App`, over a fixed universe
//! of 9 assets (5 native denoms incl. an `ibc/…` and two `factory/…` ones, 4 cw20 tokens).
//!
//! Observation after every op: outcome + the full listing of every registry in the order the contract
//! returns it, each entry followed by what the child contract itself reports. Assets are printed as
//! universe indices, children as creation serials (never addresses).
use crate::common::*;
use cosmwasm_std::testing::MockApi;
use cosmwasm_std::{coin, to_json_binary, Addr, Api, Coin, Decimal, Empty, Uint128};
use cw_multi_test::{App, AppBuilder, BankKeeper, ContractWrapper, Executor};
use std::collections::{BTreeMap, BTreeSet, VecDeque};
use white_whale_std::fee::{Fee, VaultFee};
use white_whale_std::pool_network::asset::{Asset, AssetInfo, PairInfo, PairType, TrioInfo};
use white_whale_std::pool_network::{factory as f, incentive_factory as ifac, pair as p, router as r, trio as t};
use white_whale_std::vault_network::{vault as v, vault_factory as vf};

const N: usize = 9;
const NN: usize = 5; // native denoms come first
const IBC: &str = "ibc/27394FB092D2ECCD56123C74F36E4C1F926001CEADA9CA97EA622B25F41E5EB2";
const FACTA: &str = "factory/migaloo1erul6xyq0gk6ws98ncj7lnq9l4jn4gnnu9we73gdz78yyl2lr7qqrvcgup/ulongsubdenom";
const FACTB: &str = "factory/migaloo1erul6xyq0gk6ws98ncj7lnq9l4jn4gnnu9we73gdz78yyl2lr7qqrvcgup/uabc";
const DENOMS: [&str; NN] = ["uwhale", "uusdc", IBC, FACTA, FACTB];
/// decimals the generator registers for the native denoms in the scenarios that swap
const NOMINAL: [u8; NN] = [6, 6, 8, 6, 18];
const SYMBOLS: [&str; 4] = ["tka", "tkb", "dup", "dup"];
const TOKEN_DEC: [u8; 4] = [6, 8, 18, 6];
const MAX_LIMIT: usize = 30;
const DEFAULT_LIMIT: usize = 10;

fn hex(b: &[u8]) -> String {
    if b.is_empty() {
        return "-".into();
    }
    b.iter().map(|x| format!("{x:02x}")).collect()
}
fn unhex(s: &str) -> Option<Vec<u8>> {
    if s == "-" {
        return Some(vec![]);
    }
    if s.len() % 2 != 0 {
        return None;
    }
    (0..s.len()).step_by(2).map(|i| u8::from_str_radix(&s[i..i + 2], 16).ok()).collect()
}

struct World {
    app: App,
    owner: Addr,
    trader: Addr,
    fac: Addr,
    vfac: Addr,
    ifac: Addr,
    router: Addr,
    assets: Vec<AssetInfo>,
    raw: Vec<Vec<u8>>,
    refb: Vec<Vec<u8>>,
    label: Vec<String>,
    // child serials (creation order per kind) and the LP tokens the children reported at creation
    pair_serial: BTreeMap<String, usize>,
    trio_serial: BTreeMap<String, usize>,
    vault_serial: BTreeMap<String, usize>,
    inc_serial: BTreeMap<String, usize>,
    lp_ids: BTreeMap<String, String>,
    // ghost history, maintained from op outcomes only (independent of the registries)
    live_pairs: BTreeSet<Vec<usize>>,
    live_trios: BTreeSet<Vec<usize>>,
    live_vaults: BTreeSet<usize>,
    live_incs: BTreeSet<usize>,
    made_pairs: BTreeMap<Vec<usize>, String>,
    made_trios: BTreeMap<Vec<usize>, String>,
    made_vaults: BTreeSet<usize>,
    last_body: String,
}

fn fee(n: u64) -> Fee {
    Fee { share: Decimal::permille(n) }
}

fn build_world() -> World {
    let owner = Addr::unchecked("owner");
    let trader = Addr::unchecked("trader");
    let big = 10u128.pow(30);
    let funds: Vec<Coin> = {
        let mut c: Vec<Coin> = DENOMS.iter().map(|d| coin(big, *d)).collect();
        c.sort_by(|a, b| a.denom.cmp(&b.denom));
        c
    };
    let mut app: App = AppBuilder::new().with_bank(BankKeeper::new()).build(|router, _api, storage| {
        router.bank.init_balance(storage, &Addr::unchecked("owner"), funds.clone()).unwrap();
        router.bank.init_balance(storage, &Addr::unchecked("trader"), funds.clone()).unwrap();
    });
    let token_id = app.store_code(Box::new(ContractWrapper::new(
        terraswap_token::contract::execute,
        terraswap_token::contract::instantiate,
        terraswap_token::contract::query,
    )));
    let pair_id = app.store_code(Box::new(
        ContractWrapper::new(terraswap_pair::contract::execute, terraswap_pair::contract::instantiate, terraswap_pair::contract::query)
            .with_reply(terraswap_pair::contract::reply),
    ));
    let trio_id = app.store_code(Box::new(
        ContractWrapper::new(
            stableswap_3pool::contract::execute,
            stableswap_3pool::contract::instantiate,
            stableswap_3pool::contract::query,
        )
        .with_reply(stableswap_3pool::contract::reply),
    ));
    let fac_id = app.store_code(Box::new(
        ContractWrapper::new(
            terraswap_factory::contract::execute,
            terraswap_factory::contract::instantiate,
            terraswap_factory::contract::query,
        )
        .with_reply(terraswap_factory::contract::reply),
    ));
    let router_id = app.store_code(Box::new(ContractWrapper::new(
        terraswap_router::contract::execute,
        terraswap_router::contract::instantiate,
        terraswap_router::contract::query,
    )));
    let vfac_id = app.store_code(Box::new(
        ContractWrapper::new(vault_factory::contract::execute, vault_factory::contract::instantiate, vault_factory::contract::query)
            .with_reply(vault_factory::reply::reply),
    ));
    let vault_id = app.store_code(Box::new(
        ContractWrapper::new(vault::contract::execute, vault::contract::instantiate, vault::contract::query)
            .with_reply(vault::reply::reply),
    ));
    let inc_id = app.store_code(Box::new(ContractWrapper::new(
        incentive::contract::execute,
        incentive::contract::instantiate,
        incentive::contract::query,
    )));
    let ifac_id = app.store_code(Box::new(
        ContractWrapper::new(
            incentive_factory::contract::execute,
            incentive_factory::contract::instantiate,
            incentive_factory::contract::query,
        )
        .with_reply(incentive_factory::contract::reply),
    ));
    let fd_id = app.store_code(Box::new(ContractWrapper::new(
        fee_distributor_mock::contract::execute,
        fee_distributor_mock::contract::instantiate,
        fee_distributor_mock::contract::query,
    )));
    // the four cw20 tokens of the universe come first (contract0..3)
    let mut assets: Vec<AssetInfo> = DENOMS.iter().map(|d| AssetInfo::NativeToken { denom: (*d).into() }).collect();
    for k in 0..4 {
        let a = app
            .instantiate_contract(
                token_id,
                owner.clone(),
                &white_whale_std::pool_network::token::InstantiateMsg {
                    name: format!("token {}", k),
                    symbol: SYMBOLS[k].into(),
                    decimals: TOKEN_DEC[k],
                    initial_balances: vec![
                        cw20::Cw20Coin { address: owner.to_string(), amount: Uint128::new(big) },
                        cw20::Cw20Coin { address: trader.to_string(), amount: Uint128::new(big) },
                    ],
                    mint: None,
                },
                &[],
                "cw20",
                None,
            )
            .unwrap();
        assets.push(AssetInfo::Token { contract_addr: a.to_string() });
    }
    let fd = app
        .instantiate_contract(fd_id, owner.clone(), &fee_distributor_mock::msg::InstantiateMsg {}, &[], "fd", None)
        .unwrap();
    let fac = app
        .instantiate_contract(
            fac_id,
            owner.clone(),
            &f::InstantiateMsg { pair_code_id: pair_id, trio_code_id: trio_id, token_code_id: token_id, fee_collector_addr: "collector".into() },
            &[],
            "fac",
            None,
        )
        .unwrap();
    let vfac = app
        .instantiate_contract(
            vfac_id,
            owner.clone(),
            &vf::InstantiateMsg { owner: owner.to_string(), vault_id, token_id, fee_collector_addr: "collector".into() },
            &[],
            "vfac",
            None,
        )
        .unwrap();
    let ifac_addr = app
        .instantiate_contract(
            ifac_id,
            owner.clone(),
            &ifac::InstantiateMsg {
                fee_collector_addr: "collector".into(),
                fee_distributor_addr: fd.to_string(),
                create_flow_fee: Asset { info: AssetInfo::NativeToken { denom: "uwhale".into() }, amount: Uint128::new(1000) },
                max_concurrent_flows: 5,
                incentive_code_id: inc_id,
                max_flow_epoch_buffer: 10,
                min_unbonding_duration: 86400,
                max_unbonding_duration: 31556926,
            },
            &[],
            "ifac",
            None,
        )
        .unwrap();
    let router = app
        .instantiate_contract(router_id, owner.clone(), &r::InstantiateMsg { terraswap_factory: fac.to_string() }, &[], "router", Some(owner.to_string()))
        .unwrap();
    let api = MockApi::default();
    let raw: Vec<Vec<u8>> = assets
        .iter()
        .map(|a| match a {
            AssetInfo::NativeToken { denom } => denom.as_bytes().to_vec(),
            AssetInfo::Token { contract_addr } => api.addr_canonicalize(contract_addr).unwrap().as_slice().to_vec(),
        })
        .collect();
    let refb: Vec<Vec<u8>> = assets
        .iter()
        .map(|a| match a {
            AssetInfo::NativeToken { denom } => denom.as_bytes().to_vec(),
            AssetInfo::Token { contract_addr } => contract_addr.as_bytes().to_vec(),
        })
        .collect();
    let deps = cosmwasm_std::testing::mock_dependencies();
    let label: Vec<String> = assets
        .iter()
        .enumerate()
        .map(|(i, a)| if i < NN { a.clone().get_label(&deps.as_ref()).unwrap() } else { SYMBOLS[i - NN].to_string() })
        .collect();
    World {
        app,
        owner,
        trader,
        fac,
        vfac,
        ifac: ifac_addr,
        router,
        assets,
        raw,
        refb,
        label,
        pair_serial: BTreeMap::new(),
        trio_serial: BTreeMap::new(),
        vault_serial: BTreeMap::new(),
        inc_serial: BTreeMap::new(),
        lp_ids: BTreeMap::new(),
        live_pairs: BTreeSet::new(),
        live_trios: BTreeSet::new(),
        live_vaults: BTreeSet::new(),
        live_incs: BTreeSet::new(),
        made_pairs: BTreeMap::new(),
        made_trios: BTreeMap::new(),
        made_vaults: BTreeSet::new(),
        last_body: String::new(),
    }
}

fn canon(xs: &[usize]) -> Vec<usize> {
    let mut v = xs.to_vec();
    v.sort();
    v
}

fn ptype_str(pt: &PairType) -> String {
    match pt {
        PairType::ConstantProduct => "cp".into(),
        PairType::StableSwap { amp } => format!("ss{amp}"),
    }
}
fn parse_ptype(s: &str) -> Option<PairType> {
    if s == "cp" {
        Some(PairType::ConstantProduct)
    } else {
        s.strip_prefix("ss").and_then(|a| a.parse::<u64>().ok()).map(|amp| PairType::StableSwap { amp })
    }
}

type Hop = (usize, usize);
fn parse_hops(s: &str) -> Option<Vec<Hop>> {
    if s.is_empty() {
        return Some(vec![]);
    }
    s.split(',')
        .map(|h| {
            let mut it = h.split('-');
            let x = it.next()?.parse::<usize>().ok()?;
            let y = it.next()?.parse::<usize>().ok()?;
            if it.next().is_some() || x >= N || y >= N {
                return None;
            }
            Some((x, y))
        })
        .collect()
}
fn idxs(ws: &[&str]) -> Option<Vec<usize>> {
    ws.iter().map(|w| w.parse::<usize>().ok().filter(|i| *i < N)).collect()
}

impl World {
    fn init_line(&self) -> String {
        let mut s = format!("init registry n={N}");
        for i in 0..N {
            let kind = if i < NN { "n" } else { "c" };
            let dec = if i < NN { 0 } else { TOKEN_DEC[i - NN] };
            s += &format!(" a{}={}:{}:{}:{}:{}", i, kind, hex(&self.raw[i]), hex(&self.refb[i]), hex(self.label[i].as_bytes()), dec);
        }
        s
    }
    fn idx_of(&self, a: &AssetInfo) -> String {
        match self.assets.iter().position(|x| x == a) {
            Some(i) => i.to_string(),
            None => "?".into(),
        }
    }
    fn idx_list(&self, xs: &[AssetInfo]) -> Vec<usize> {
        xs.iter().map(|a| self.assets.iter().position(|x| x == a).unwrap_or(99)).collect()
    }
    fn lp_name(&self, a: &AssetInfo) -> String {
        match a {
            AssetInfo::Token { contract_addr } => {
                if let Some(s) = self.lp_ids.get(contract_addr) {
                    return s.clone();
                }
            }
            _ => {}
        }
        match self.assets.iter().position(|x| x == a) {
            Some(i) => format!("a{i}"),
            None => "x".into(),
        }
    }
    fn arr2(&self, i: usize, j: usize) -> [AssetInfo; 2] {
        [self.assets[i].clone(), self.assets[j].clone()]
    }
    fn arr3(&self, i: usize, j: usize, k: usize) -> [AssetInfo; 3] {
        [self.assets[i].clone(), self.assets[j].clone(), self.assets[k].clone()]
    }
    /// independent replica of the key: sorted raw byte strings, concatenated
    fn key_of(&self, xs: &[usize]) -> Vec<u8> {
        let mut bs: Vec<&Vec<u8>> = xs.iter().map(|i| &self.raw[*i]).collect();
        bs.sort();
        bs.into_iter().flatten().cloned().collect()
    }

    // ---------------------------------------------------------------- raw page queries
    fn q_pairs(&self, cursor: Option<[AssetInfo; 2]>, limit: Option<u32>) -> Vec<PairInfo> {
        let resp: f::PairsResponse = self.app.wrap().query_wasm_smart(&self.fac, &f::QueryMsg::Pairs { start_after: cursor, limit }).unwrap();
        resp.pairs
    }
    fn q_trios(&self, cursor: Option<[AssetInfo; 3]>, limit: Option<u32>) -> Vec<TrioInfo> {
        let resp: f::TriosResponse = self.app.wrap().query_wasm_smart(&self.fac, &f::QueryMsg::Trios { start_after: cursor, limit }).unwrap();
        resp.trios
    }
    fn q_vaults(&self, cursor: Option<Vec<u8>>, limit: Option<u32>) -> Vec<vf::VaultInfo> {
        let resp: vf::VaultsResponse = self.app.wrap().query_wasm_smart(&self.vfac, &vf::QueryMsg::Vaults { start_after: cursor, limit }).unwrap();
        resp.vaults
    }
    fn q_incs(&self, cursor: Option<AssetInfo>, limit: Option<u32>) -> Vec<ifac::IncentivesContract> {
        self.app.wrap().query_wasm_smart(&self.ifac, &ifac::QueryMsg::Incentives { start_after: cursor, limit }).unwrap()
    }
    fn inc_asset(&self, e: &ifac::IncentivesContract) -> Option<usize> {
        self.raw.iter().position(|b| *b == e.lp_reference)
    }

    /// generic page iteration: entries as strings (for pagination ops / monitors), `lim` as given
    /// kinds: 0 pairs, 1 trios, 2 vaults, 3 incentives. Returns the pages (each a list of asset-set labels).
    fn one_page(&self, kind: usize, cursor: &Option<Vec<usize>>, cursor_bytes: &Option<Vec<u8>>, lim: Option<u32>) -> Vec<Vec<usize>> {
        match kind {
            0 => self
                .q_pairs(cursor.as_ref().map(|c| self.arr2(c[0], c[1])), lim)
                .iter()
                .map(|e| self.idx_list(&e.asset_infos))
                .collect(),
            1 => self
                .q_trios(cursor.as_ref().map(|c| self.arr3(c[0], c[1], c[2])), lim)
                .iter()
                .map(|e| self.idx_list(&e.asset_infos))
                .collect(),
            2 => {
                let cur = match (cursor, cursor_bytes) {
                    (_, Some(b)) => Some(b.clone()),
                    (Some(c), None) => Some(self.refb[c[0]].clone()),
                    _ => None,
                };
                self.q_vaults(cur, lim).iter().map(|e| self.idx_list(&[e.asset_info.clone()])).collect()
            }
            _ => self
                .q_incs(cursor.as_ref().map(|c| self.assets[c[0]].clone()), lim)
                .iter()
                .map(|e| vec![self.inc_asset(e).unwrap_or(99)])
                .collect(),
        }
    }
    /// follow the cursor (= last entry of the previous page) until an empty page
    fn iterate_pages(&self, kind: usize, lim: Option<u32>, max_pages: usize) -> Vec<Vec<Vec<usize>>> {
        let mut pages = vec![];
        let mut cursor: Option<Vec<usize>> = None;
        for _ in 0..max_pages {
            let pg = self.one_page(kind, &cursor, &None, lim);
            if pg.is_empty() {
                break;
            }
            cursor = Some(pg.last().unwrap().clone());
            pages.push(pg);
        }
        pages
    }
    fn full(&self, kind: usize) -> Vec<Vec<usize>> {
        self.iterate_pages(kind, Some(30), 8).into_iter().flatten().collect()
    }

    // ---------------------------------------------------------------- observation
    fn build_body(&mut self, mon: &mut Monitor) -> String {
        let mut out = String::new();
        // native decimals allow-list (point queries for every universe asset's string)
        let decs: Vec<String> = (0..N)
            .map(|i| {
                let denom = String::from_utf8(self.refb[i].clone()).unwrap();
                match self.app.wrap().query_wasm_smart::<f::NativeTokenDecimalsResponse>(&self.fac, &f::QueryMsg::NativeTokenDecimals { denom }) {
                    Ok(r) => r.decimals.to_string(),
                    Err(_) => "-".into(),
                }
            })
            .collect();
        out += &format!("decs={}", decs.join("."));

        // ---- pairs
        let mut pairs: Vec<PairInfo> = vec![];
        let mut cur = None;
        for _ in 0..4 {
            let pg = self.q_pairs(cur.clone(), Some(30));
            if pg.is_empty() {
                break;
            }
            cur = Some(pg.last().unwrap().asset_infos.clone());
            pairs.extend(pg);
        }
        let mut seen: BTreeSet<Vec<usize>> = BTreeSet::new();
        let mut strs = vec![];
        let mut registered_pair_addrs = BTreeSet::new();
        for e in &pairs {
            let ix = self.idx_list(&e.asset_infos);
            let fresh = seen.insert(canon(&ix));
            mon.check("C19", "at_most_one_pair", fresh, || format!("two pair entries for the unordered asset set {:?}", canon(&ix)));
            registered_pair_addrs.insert(e.contract_addr.clone());
            let child: Result<PairInfo, _> = self.app.wrap().query_wasm_smart(&e.contract_addr, &p::QueryMsg::Pair {});
            let pool: Result<p::PoolResponse, _> = self.app.wrap().query_wasm_smart(&e.contract_addr, &p::QueryMsg::Pool {});
            let serial = self.pair_serial.get(&e.contract_addr).map(|s| s.to_string()).unwrap_or("?".into());
            let es = format!(
                "{}/{}/{}/c{}/{}",
                ix.iter().map(|i| i.to_string()).collect::<Vec<_>>().join("."),
                e.asset_decimals.iter().map(|d| d.to_string()).collect::<Vec<_>>().join("."),
                ptype_str(&e.pair_type),
                serial,
                self.lp_name(&e.liquidity_token)
            );
            let cs = match (&child, &pool) {
                (Ok(c), Ok(pl)) => {
                    let ok = c.asset_infos == e.asset_infos
                        && c.asset_decimals == e.asset_decimals
                        && c.pair_type == e.pair_type
                        && c.liquidity_token == e.liquidity_token
                        && c.contract_addr == e.contract_addr;
                    mon.check("C19", "pair_entry_eq_child_report", ok, || format!("factory entry {:?} != pair's own report {:?}", e, c));
                    // the LP token the child names is really its own: the pair is its minter
                    let minter_ok = match &c.liquidity_token {
                        AssetInfo::Token { contract_addr } => self
                            .app
                            .wrap()
                            .query_wasm_smart::<cw20::MinterResponse>(contract_addr, &cw20::Cw20QueryMsg::Minter {})
                            .map(|m| m.minter == e.contract_addr)
                            .unwrap_or(false),
                        _ => false,
                    };
                    mon.check("C19", "pair_lp_minter_is_child", minter_ok, || format!("LP token of {:?} is not minted by the pair", e));
                    let funded = pl.assets.iter().all(|a| !a.amount.is_zero());
                    format!(
                        "{}/{}/{}/{}/f{}",
                        self.idx_list(&c.asset_infos).iter().map(|i| i.to_string()).collect::<Vec<_>>().join("."),
                        c.asset_decimals.iter().map(|d| d.to_string()).collect::<Vec<_>>().join("."),
                        ptype_str(&c.pair_type),
                        self.lp_name(&c.liquidity_token),
                        funded as u8
                    )
                }
                _ => {
                    mon.check("C19", "pair_entry_eq_child_report", false, || format!("pair {} does not answer Pair/Pool", e.contract_addr));
                    "noreport".into()
                }
            };
            strs.push(format!("{es}|{cs}"));
        }
        mon.check("C19", "pairs_listing_matches_history", seen == self.live_pairs, || {
            format!("listed pair sets {:?} != created-and-not-removed {:?}", seen, self.live_pairs)
        });
        out += &format!(" pairs={}", if strs.is_empty() { "-".into() } else { strs.join(";") });
        // direct lookups agree with the listing, in both argument orders
        for i in 0..N {
            for j in 0..N {
                if i == j {
                    continue;
                }
                let got: Result<PairInfo, _> = self.app.wrap().query_wasm_smart(&self.fac, &f::QueryMsg::Pair { asset_infos: self.arr2(i, j) });
                let listed = pairs.iter().find(|e| canon(&self.idx_list(&e.asset_infos)) == canon(&[i, j]));
                let ok = match (&got, listed) {
                    (Ok(g), Some(l)) => g == l,
                    (Err(_), None) => true,
                    _ => false,
                };
                mon.check("C19", "pair_lookup_agrees_with_listing", ok, || format!("Pair[{i},{j}] = {:?} but listing has {:?}", got, listed));
            }
        }

        // ---- trios
        let mut trios: Vec<TrioInfo> = vec![];
        let mut cur = None;
        for _ in 0..6 {
            let pg = self.q_trios(cur.clone(), Some(30));
            if pg.is_empty() {
                break;
            }
            cur = Some(pg.last().unwrap().asset_infos.clone());
            trios.extend(pg);
        }
        let mut seen: BTreeSet<Vec<usize>> = BTreeSet::new();
        let mut strs = vec![];
        for e in &trios {
            let ix = self.idx_list(&e.asset_infos);
            let fresh = seen.insert(canon(&ix));
            mon.check("C19", "at_most_one_trio", fresh, || format!("two trio entries for the unordered asset set {:?}", canon(&ix)));
            let child: Result<TrioInfo, _> = self.app.wrap().query_wasm_smart(&e.contract_addr, &t::QueryMsg::Trio {});
            let serial = self.trio_serial.get(&e.contract_addr).map(|s| s.to_string()).unwrap_or("?".into());
            let es = format!(
                "{}/{}/c{}/{}",
                ix.iter().map(|i| i.to_string()).collect::<Vec<_>>().join("."),
                e.asset_decimals.iter().map(|d| d.to_string()).collect::<Vec<_>>().join("."),
                serial,
                self.lp_name(&e.liquidity_token)
            );
            let cs = match &child {
                Ok(c) => {
                    let ok = c.asset_infos == e.asset_infos
                        && c.asset_decimals == e.asset_decimals
                        && c.liquidity_token == e.liquidity_token
                        && c.contract_addr == e.contract_addr;
                    mon.check("C19", "trio_entry_eq_child_report", ok, || format!("factory entry {:?} != trio's own report {:?}", e, c));
                    let minter_ok = match &c.liquidity_token {
                        AssetInfo::Token { contract_addr } => self
                            .app
                            .wrap()
                            .query_wasm_smart::<cw20::MinterResponse>(contract_addr, &cw20::Cw20QueryMsg::Minter {})
                            .map(|m| m.minter == e.contract_addr)
                            .unwrap_or(false),
                        _ => false,
                    };
                    mon.check("C19", "trio_lp_minter_is_child", minter_ok, || format!("LP token of {:?} is not minted by the trio", e));
                    format!(
                        "{}/{}/{}",
                        self.idx_list(&c.asset_infos).iter().map(|i| i.to_string()).collect::<Vec<_>>().join("."),
                        c.asset_decimals.iter().map(|d| d.to_string()).collect::<Vec<_>>().join("."),
                        self.lp_name(&c.liquidity_token)
                    )
                }
                _ => {
                    mon.check("C19", "trio_entry_eq_child_report", false, || format!("trio {} does not answer Trio", e.contract_addr));
                    "noreport".into()
                }
            };
            strs.push(format!("{es}|{cs}"));
            // lookups in all six orders return this very entry
            let c = &ix;
            if c.iter().all(|i| *i < N) {
                for pm in [[0, 1, 2], [0, 2, 1], [1, 0, 2], [1, 2, 0], [2, 0, 1], [2, 1, 0]] {
                    let got: Result<TrioInfo, _> = self
                        .app
                        .wrap()
                        .query_wasm_smart(&self.fac, &f::QueryMsg::Trio { asset_infos: self.arr3(c[pm[0]], c[pm[1]], c[pm[2]]) });
                    mon.check("C19", "trio_lookup_agrees_with_listing", got.as_ref().ok() == Some(e), || {
                        format!("Trio{:?} perm {:?} = {:?} but listing has {:?}", c, pm, got, e)
                    });
                }
            }
        }
        mon.check("C19", "trios_listing_matches_history", seen == self.live_trios, || {
            format!("listed trio sets {:?} != created-and-not-removed {:?}", seen, self.live_trios)
        });
        // unregistered triples are not found
        for i in 0..N {
            for j in (i + 1)..N {
                for k in (j + 1)..N {
                    if !seen.contains(&vec![i, j, k]) {
                        let got: Result<TrioInfo, _> = self.app.wrap().query_wasm_smart(&self.fac, &f::QueryMsg::Trio { asset_infos: self.arr3(k, i, j) });
                        mon.check("C19", "trio_lookup_agrees_with_listing", got.is_err(), || format!("Trio[{k},{i},{j}] found but not listed"));
                    }
                }
            }
        }
        out += &format!(" trios={}", if strs.is_empty() { "-".into() } else { strs.join(";") });

        // ---- vaults
        let vaults = self.q_vaults(None, Some(30));
        let mut seen_v: BTreeSet<usize> = BTreeSet::new();
        let mut strs = vec![];
        for e in &vaults {
            let a = self.assets.iter().position(|x| *x == e.asset_info).unwrap_or(99);
            let fresh = seen_v.insert(a);
            mon.check("C19", "at_most_one_vault", fresh, || format!("two vault entries for asset {a}"));
            let cfg: Result<v::Config, _> = self.app.wrap().query_wasm_smart(&e.vault, &v::QueryMsg::Config {});
            let serial = self.vault_serial.get(&e.vault).map(|s| s.to_string()).unwrap_or("?".into());
            let ok = match &cfg {
                Ok(c) => c.asset_info == e.asset_info && a < N && e.asset_info_reference == self.refb[a],
                Err(_) => false,
            };
            mon.check("C19", "vault_entry_eq_child_report", ok, || format!("vault entry {:?} != vault's own config {:?}", e, cfg));
            let rep = cfg.as_ref().map(|c| self.idx_of(&c.asset_info)).unwrap_or("noreport".into());
            strs.push(format!("{a}/c{serial}|{rep}"));
        }
        mon.check("C19", "vaults_listing_matches_history", seen_v == self.live_vaults, || {
            format!("listed vaults {:?} != created-and-not-removed {:?}", seen_v, self.live_vaults)
        });
        for i in 0..N {
            let got: Option<String> = self.app.wrap().query_wasm_smart(&self.vfac, &vf::QueryMsg::Vault { asset_info: self.assets[i].clone() }).unwrap();
            let listed = vaults.iter().find(|e| e.asset_info == self.assets[i]).map(|e| e.vault.clone());
            mon.check("C19", "vault_lookup_agrees_with_listing", got == listed, || format!("Vault[{i}] = {:?} but listing has {:?}", got, listed));
        }
        out += &format!(" vaults={}", if strs.is_empty() { "-".into() } else { strs.join(";") });

        // ---- incentives
        let incs = self.q_incs(None, Some(30));
        let mut seen_i: BTreeSet<usize> = BTreeSet::new();
        let mut strs = vec![];
        for e in &incs {
            let a = self.inc_asset(e).unwrap_or(99);
            let fresh = seen_i.insert(a);
            mon.check("C19", "at_most_one_incentive", fresh, || format!("two incentive entries for lp asset {a}"));
            let cfg: Result<white_whale_std::pool_network::incentive::Config, _> =
                self.app.wrap().query_wasm_smart(&e.incentive_address, &white_whale_std::pool_network::incentive::QueryMsg::Config {});
            let serial = self.inc_serial.get(e.incentive_address.as_str()).map(|s| s.to_string()).unwrap_or("?".into());
            let ok = match &cfg {
                Ok(c) => a < N && c.lp_asset == self.assets[a] && c.factory_address == self.ifac,
                Err(_) => false,
            };
            mon.check("C19", "incentive_entry_eq_child_report", ok, || format!("incentive entry {:?} != incentive's own config {:?}", e, cfg));
            let rep = cfg.as_ref().map(|c| self.idx_of(&c.lp_asset)).unwrap_or("noreport".into());
            strs.push(format!("{a}/c{serial}|{rep}"));
        }
        mon.check("C19", "incentives_listing_matches_history", seen_i == self.live_incs, || {
            format!("listed incentives {:?} != created {:?}", seen_i, self.live_incs)
        });
        for i in 0..N {
            let got: Option<Addr> = self.app.wrap().query_wasm_smart(&self.ifac, &ifac::QueryMsg::Incentive { lp_asset: self.assets[i].clone() }).unwrap();
            let listed = incs.iter().find(|e| self.inc_asset(e) == Some(i)).map(|e| e.incentive_address.clone());
            mon.check("C19", "incentive_lookup_agrees_with_listing", got == listed, || format!("Incentive[{i}] = {:?} but listing has {:?}", got, listed));
        }
        out += &format!(" incs={}", if strs.is_empty() { "-".into() } else { strs.join(";") });

        // ---- routes
        let routes: Vec<r::SwapRouteResponse> = self.app.wrap().query_wasm_smart(&self.router, &r::QueryMsg::SwapRoutes {}).unwrap();
        let strs: Vec<String> = routes
            .iter()
            .map(|rt| {
                let hops: Vec<String> = rt
                    .swap_route
                    .iter()
                    .map(|op| match op {
                        r::SwapOperation::TerraSwap { offer_asset_info, ask_asset_info } => {
                            format!("{}-{}", self.idx_of(offer_asset_info), self.idx_of(ask_asset_info))
                        }
                    })
                    .collect();
                format!("{}>{}:{}", hex(rt.offer_asset.as_bytes()), hex(rt.ask_asset.as_bytes()), hops.join(","))
            })
            .collect();
        out += &format!(" routes={}", if strs.is_empty() { "-".into() } else { strs.join(";") });
        let _ = registered_pair_addrs;
        out
    }

    /// provide liquidity: 1000 whole tokens a side, by the decimals the entry records
    fn fund_pair(&mut self, e: &PairInfo, mon: &mut Monitor) -> &'static str {
        let owner = self.owner.clone();
        let pair = Addr::unchecked(e.contract_addr.clone());
        let mut funds = vec![];
        let mut assets = vec![];
        let mut ok = true;
        for k in 0..2 {
            let amt = 1000u128 * 10u128.pow((e.asset_decimals[k] as u32).min(24));
            assets.push(Asset { info: e.asset_infos[k].clone(), amount: Uint128::new(amt) });
            match &e.asset_infos[k] {
                AssetInfo::NativeToken { denom } => funds.push(coin(amt, denom.clone())),
                AssetInfo::Token { contract_addr } => {
                    let r = self.app.execute_contract(
                        owner.clone(),
                        Addr::unchecked(contract_addr.clone()),
                        &cw20::Cw20ExecuteMsg::IncreaseAllowance { spender: pair.to_string(), amount: Uint128::new(amt), expires: None },
                        &[],
                    );
                    ok &= r.is_ok();
                }
            }
        }
        funds.sort_by(|a, b| a.denom.cmp(&b.denom));
        let msg = p::ExecuteMsg::ProvideLiquidity { assets: [assets[0].clone(), assets[1].clone()], slippage_tolerance: None, receiver: None };
        let o = guarded(|| self.app.execute_contract(owner, pair, &msg, &funds));
        if let Outcome::Err(e) = &o {
            mon.stat(&format!("fund_err:{}", &e[..e.len().min(60)]));
        }
        if ok {
            show(&o)
        } else {
            "err"
        }
    }

    fn registered_pair_addrs(&self) -> BTreeSet<String> {
        self.q_pairs(None, Some(30)).into_iter().map(|e| e.contract_addr).collect()
    }

    fn stored_route_keys(&self) -> Vec<String> {
        let routes: Vec<r::SwapRouteResponse> = self.app.wrap().query_wasm_smart(&self.router, &r::QueryMsg::SwapRoutes {}).unwrap();
        routes.iter().map(|x| format!("{:?}", x)).collect()
    }

    fn hops_msg(&self, hops: &[Hop]) -> Vec<r::SwapOperation> {
        hops.iter()
            .map(|(x, y)| r::SwapOperation::TerraSwap { offer_asset_info: self.assets[*x].clone(), ask_asset_info: self.assets[*y].clone() })
            .collect()
    }

    /// the trader offers one whole token of the first hop's offer asset through the router
    fn do_swap(&mut self, hops: &[Hop], mon: &mut Monitor) -> Outcome<()> {
        let ops = self.hops_msg(hops);
        let registered_before = self.registered_pair_addrs();
        let all_live = hops.iter().all(|(x, y)| self.live_pairs.contains(&canon(&[*x, *y])));
        let first = hops.first().map(|h| h.0).unwrap_or(0);
        // amount: 10^decimals of the offered asset as recorded by some registered pair, else 10^6
        let dec = self
            .q_pairs(None, Some(30))
            .iter()
            .find_map(|e| e.asset_infos.iter().position(|a| *a == self.assets[first]).map(|k| e.asset_decimals[k]))
            .unwrap_or(6);
        let amount = 10u128.pow(dec.min(24) as u32);
        let (trader, router) = (self.trader.clone(), self.router.clone());
        let res = match self.assets[first].clone() {
            AssetInfo::NativeToken { denom } => {
                let msg = r::ExecuteMsg::ExecuteSwapOperations { operations: ops, minimum_receive: None, to: None, max_spread: Some(Decimal::percent(50)) };
                guarded(|| self.app.execute_contract(trader, router, &msg, &[coin(amount, denom)]))
            }
            AssetInfo::Token { contract_addr } => {
                let hook = r::Cw20HookMsg::ExecuteSwapOperations { operations: ops, minimum_receive: None, to: None, max_spread: Some(Decimal::percent(50)) };
                let msg = cw20::Cw20ExecuteMsg::Send { contract: router.to_string(), amount: Uint128::new(amount), msg: to_json_binary(&hook).unwrap() };
                guarded(|| self.app.execute_contract(trader, Addr::unchecked(contract_addr), &msg, &[]))
            }
        };
        match res {
            Outcome::Ok(resp) => {
                // every swap was executed by a contract that the factory lists as a pair
                let swappers: Vec<String> = resp
                    .events
                    .iter()
                    .filter(|e| e.ty == "wasm" && e.attributes.iter().any(|a| a.key == "action" && a.value == "swap"))
                    .filter_map(|e| e.attributes.iter().find(|a| a.key == "_contract_addr").map(|a| a.value.clone()))
                    .collect();
                mon.check("C19", "hop_through_registered_only", swappers.iter().all(|s| registered_before.contains(s)) && swappers.len() == hops.len(), || {
                    format!("swap {:?} executed by {:?}, registered pairs {:?}", hops, swappers, registered_before)
                });
                mon.check("C19", "swap_needs_every_hop_registered", all_live, || format!("swap {:?} succeeded although a hop's pair is not registered", hops));
                mon.stat("swap_executed");
                mon.stat(&format!("swap_ok_hops_{}", hops.len()));
                Outcome::Ok(())
            }
            Outcome::Err(e) => {
                if !all_live {
                    mon.stat("swap_rejected_unregistered_hop");
                }
                Outcome::Err(e)
            }
            Outcome::Panic => Outcome::Panic,
        }
    }
}

#[derive(Default)]
pub struct Registry {
    w: Option<World>,
    queue: VecDeque<String>,
    case_kind: u64,
    ncase: u64,
}

fn show<T>(o: &Outcome<T>) -> &'static str {
    match o {
        Outcome::Ok(_) => "ok",
        Outcome::Err(_) => "err",
        Outcome::Panic => "panic",
    }
}

fn lim_of(s: &str) -> Option<Option<u32>> {
    if s == "none" {
        Some(None)
    } else {
        s.parse::<u32>().ok().map(Some)
    }
}
fn eff_limit(l: Option<u32>) -> usize {
    (l.map(|x| x as usize).unwrap_or(DEFAULT_LIMIT)).min(MAX_LIMIT)
}
fn show_sets(pg: &[Vec<usize>]) -> String {
    if pg.is_empty() {
        return "-".into();
    }
    pg.iter().map(|e| e.iter().map(|i| i.to_string()).collect::<Vec<_>>().join(".")).collect::<Vec<_>>().join(",")
}

impl Registry {
    /// pagination monitors for one registry kind: every limit, every cursor
    fn pagination_sweep(w: &World, kind: usize, mon: &mut Monitor) {
        let name = ["pairs", "trios", "vaults", "incentives"][kind];
        let full = w.full(kind);
        let n = full.len();
        // keys of the listed entries (independent replica) and the cursor-gap precondition
        let keys: Vec<Vec<u8>> = full
            .iter()
            .map(|e| match kind {
                0 | 1 => w.key_of(e),
                2 => w.refb[e[0]].clone(),
                _ => w.raw[e[0]].clone(),
            })
            .collect();
        let sorted = keys.windows(2).all(|x| x[0] < x[1]);
        mon.check("C19", &format!("{name}_listing_sorted_by_key"), sorted, || format!("{name} listing not in key order"));
        let nogap = keys.iter().all(|k| {
            let mut b = k.clone();
            b.push(1);
            !keys.iter().any(|k2| k2 > k && *k2 <= b)
        });
        if !nogap {
            mon.stat("pagination_precondition_nogap_false");
            return;
        }
        let limits: Vec<Option<u32>> = std::iter::once(None).chain((1..=32).map(Some)).chain([Some(100), Some(u32::MAX)]).collect();
        for l in limits {
            let pages = w.iterate_pages(kind, l, n + 3);
            let cat: Vec<Vec<usize>> = pages.iter().flatten().cloned().collect();
            let e = eff_limit(l);
            let sizes_ok = pages.iter().enumerate().all(|(i, pg)| if i + 1 < pages.len() { pg.len() == e } else { pg.len() <= e && !pg.is_empty() });
            mon.check("C19", &format!("{name}_pagination_exactly_once"), cat == full && sizes_ok, || {
                format!("{name} limit {:?}: pages {:?} vs full listing {:?}", l, pages, full)
            });
        }
        let zero = w.one_page(kind, &None, &None, Some(0));
        mon.check("C19", &format!("{name}_limit_zero_empty"), zero.is_empty(), || format!("{name} limit 0 returned {:?}", zero));
        // every registered entry as cursor (in every argument order), limits 1, 3, 30, default
        for (pos, e) in full.iter().enumerate() {
            let perms: Vec<Vec<usize>> = match e.len() {
                2 => vec![vec![e[0], e[1]], vec![e[1], e[0]]],
                3 => vec![
                    vec![e[0], e[1], e[2]],
                    vec![e[0], e[2], e[1]],
                    vec![e[1], e[0], e[2]],
                    vec![e[1], e[2], e[0]],
                    vec![e[2], e[0], e[1]],
                    vec![e[2], e[1], e[0]],
                ],
                _ => vec![e.clone()],
            };
            for c in perms {
                for l in [Some(1), Some(3), Some(30), None] {
                    let pg = w.one_page(kind, &Some(c.clone()), &None, l);
                    let want: Vec<Vec<usize>> = full.iter().skip(pos + 1).take(eff_limit(l)).cloned().collect();
                    mon.check("C19", &format!("{name}_page_after_cursor"), pg == want, || {
                        format!("{name} start_after {:?} limit {:?}: got {:?}, want {:?}", c, l, pg, want)
                    });
                }
            }
        }
        mon.stat(&format!("sweep_{name}_n_{}", if n == 0 { "0".into() } else if n <= 10 { "1-10".to_string() } else if n <= 30 { "11-30".into() } else { ">30".to_string() }));
    }

    fn run_op(&mut self, ws: &[&str], mon: &mut Monitor) -> Option<String> {
        let w = self.w.as_mut()?;
        let owner = w.owner.clone();
        let pool_fees = p::PoolFee { protocol_fee: fee(1), swap_fee: fee(2), burn_fee: fee(0) };
        let trio_fees = t::PoolFee { protocol_fee: fee(1), swap_fee: fee(2), burn_fee: fee(0) };
        let outcome: &'static str = match ws[0] {
            "add_dec" => {
                if ws.len() != 3 {
                    return None;
                }
                let i = idxs(&ws[1..2])?[0];
                let d = ws[2].parse::<u8>().ok()?;
                let denom = String::from_utf8(w.refb[i].clone()).unwrap();
                let fac = w.fac.clone();
                let o = guarded(|| w.app.execute_contract(owner, fac, &f::ExecuteMsg::AddNativeTokenDecimals { denom, decimals: d }, &[]));
                show(&o)
            }
            "create_pair" => {
                if ws.len() != 4 {
                    return None;
                }
                let ix = idxs(&ws[1..3])?;
                let pt = parse_ptype(ws[3])?;
                let set = canon(&ix);
                let was_live = w.live_pairs.contains(&set);
                let fac = w.fac.clone();
                let msg = f::ExecuteMsg::CreatePair { asset_infos: w.arr2(ix[0], ix[1]), pool_fees, pair_type: pt, token_factory_lp: false };
                let o = guarded(|| w.app.execute_contract(owner, fac, &msg, &[]));
                if was_live {
                    mon.check("C19", "duplicate_pair_rejected", !matches!(o, Outcome::Ok(_)), || {
                        format!("create_pair {:?} succeeded while the unordered set {:?} is registered", ix, set)
                    });
                    mon.stat("dup_pair_attempt");
                    if ix != w.idx_list(&w.q_pairs(None, Some(30)).iter().find(|e| canon(&w.idx_list(&e.asset_infos)) == set).map(|e| e.asset_infos.to_vec()).unwrap_or_default()) {
                        mon.stat("dup_pair_attempt_other_order");
                    }
                } else if let Some(prev) = w.made_pairs.get(&set) {
                    // removed earlier; same parameters as the creation that succeeded
                    if prev == ws[3] {
                        mon.check("C19", "removed_pair_recreatable", matches!(o, Outcome::Ok(_)), || {
                            format!("re-create of removed pair {:?} ({}) failed: {}", ix, ws[3], show(&o))
                        });
                        mon.stat("recreate_pair");
                    }
                }
                if let Outcome::Ok(_) = &o {
                    w.live_pairs.insert(set.clone());
                    w.made_pairs.insert(set, ws[3].to_string());
                    if let Ok(e) = w.app.wrap().query_wasm_smart::<PairInfo>(&w.fac, &f::QueryMsg::Pair { asset_infos: w.arr2(ix[0], ix[1]) }) {
                        if !w.pair_serial.contains_key(&e.contract_addr) {
                            let s = w.pair_serial.len();
                            w.pair_serial.insert(e.contract_addr.clone(), s);
                            // the LP token id is taken from the child's own report
                            if let Ok(c) = w.app.wrap().query_wasm_smart::<PairInfo>(&e.contract_addr, &p::QueryMsg::Pair {}) {
                                if let AssetInfo::Token { contract_addr } = c.liquidity_token {
                                    w.lp_ids.insert(contract_addr, format!("p{s}"));
                                }
                            }
                        }
                    }
                    mon.stat(&format!("pair_created_{}", if ws[3] == "cp" { "cp" } else { "ss" }));
                    // engine convention (mirrored by the model): a StableSwap pair gets its liquidity in the
                    // creating op, because a simulation on an empty StableSwap pool errs or not depending on the amount
                    if ws[3] != "cp" {
                        if let Ok(e) = w.app.wrap().query_wasm_smart::<PairInfo>(&w.fac, &f::QueryMsg::Pair { asset_infos: w.arr2(ix[0], ix[1]) }) {
                            if w.fund_pair(&e, mon) != "ok" {
                                mon.stat("ss_pair_funding_failed");
                            }
                        }
                    }
                }
                show(&o)
            }
            "create_trio" => {
                if ws.len() != 5 {
                    return None;
                }
                let ix = idxs(&ws[1..4])?;
                let amp = ws[4].parse::<u64>().ok()?;
                let set = canon(&ix);
                let was_live = w.live_trios.contains(&set);
                let fac = w.fac.clone();
                let msg = f::ExecuteMsg::CreateTrio { asset_infos: w.arr3(ix[0], ix[1], ix[2]), pool_fees: trio_fees, amp_factor: amp, token_factory_lp: false };
                let o = guarded(|| w.app.execute_contract(owner, fac, &msg, &[]));
                if was_live {
                    mon.check("C19", "duplicate_trio_rejected", !matches!(o, Outcome::Ok(_)), || {
                        format!("create_trio {:?} succeeded while the unordered set {:?} is registered", ix, set)
                    });
                    mon.stat("dup_trio_attempt");
                } else if let Some(prev) = w.made_trios.get(&set) {
                    if prev == ws[4] {
                        mon.check("C19", "removed_trio_recreatable", matches!(o, Outcome::Ok(_)), || {
                            format!("re-create of removed trio {:?} failed: {}", ix, show(&o))
                        });
                        mon.stat("recreate_trio");
                    }
                }
                if let Outcome::Ok(_) = &o {
                    w.live_trios.insert(set.clone());
                    w.made_trios.insert(set, ws[4].to_string());
                    if let Ok(e) = w.app.wrap().query_wasm_smart::<TrioInfo>(&w.fac, &f::QueryMsg::Trio { asset_infos: w.arr3(ix[0], ix[1], ix[2]) }) {
                        if !w.trio_serial.contains_key(&e.contract_addr) {
                            let s = w.trio_serial.len();
                            w.trio_serial.insert(e.contract_addr.clone(), s);
                            if let Ok(c) = w.app.wrap().query_wasm_smart::<TrioInfo>(&e.contract_addr, &t::QueryMsg::Trio {}) {
                                if let AssetInfo::Token { contract_addr } = c.liquidity_token {
                                    w.lp_ids.insert(contract_addr, format!("t{s}"));
                                }
                            }
                        }
                    }
                    mon.stat("trio_created");
                }
                show(&o)
            }
            "remove_pair" => {
                if ws.len() != 3 {
                    return None;
                }
                let ix = idxs(&ws[1..3])?;
                let set = canon(&ix);
                let fac = w.fac.clone();
                let msg = f::ExecuteMsg::RemovePair { asset_infos: w.arr2(ix[0], ix[1]) };
                let o = guarded(|| w.app.execute_contract(owner, fac, &msg, &[]));
                // the key is the unordered set: a registered pair can be removed whatever order the
                // assets are named in
                if w.live_pairs.contains(&set) {
                    mon.check("C19", "remove_registered_any_order", matches!(o, Outcome::Ok(_)), || format!("remove_pair {:?} of a registered pair was refused", ix));
                }
                if let Outcome::Ok(_) = &o {
                    mon.check("C19", "remove_only_registered", w.live_pairs.contains(&set), || format!("remove_pair {:?} succeeded but the set was not registered", ix));
                    w.live_pairs.remove(&set);
                    let gone = w.app.wrap().query_wasm_smart::<PairInfo>(&w.fac, &f::QueryMsg::Pair { asset_infos: w.arr2(ix[1], ix[0]) }).is_err();
                    mon.check("C19", "removed_pair_absent", gone, || format!("pair {:?} still found after remove", ix));
                    mon.stat("pair_removed");
                }
                show(&o)
            }
            "remove_trio" => {
                if ws.len() != 4 {
                    return None;
                }
                let ix = idxs(&ws[1..4])?;
                let set = canon(&ix);
                let fac = w.fac.clone();
                let msg = f::ExecuteMsg::RemoveTrio { asset_infos: w.arr3(ix[0], ix[1], ix[2]) };
                let o = guarded(|| w.app.execute_contract(owner, fac, &msg, &[]));
                if w.live_trios.contains(&set) {
                    mon.check("C19", "remove_registered_any_order", matches!(o, Outcome::Ok(_)), || format!("remove_trio {:?} of a registered trio was refused", ix));
                }
                if let Outcome::Ok(_) = &o {
                    mon.check("C19", "remove_only_registered", w.live_trios.contains(&set), || format!("remove_trio {:?} succeeded but the set was not registered", ix));
                    w.live_trios.remove(&set);
                    let gone = w.app.wrap().query_wasm_smart::<TrioInfo>(&w.fac, &f::QueryMsg::Trio { asset_infos: w.arr3(ix[2], ix[0], ix[1]) }).is_err();
                    mon.check("C19", "removed_trio_absent", gone, || format!("trio {:?} still found after remove", ix));
                    mon.stat("trio_removed");
                }
                show(&o)
            }
            "fund" => {
                // provide liquidity (1000 whole tokens a side, by the decimals the entry records) to the registered pair
                if ws.len() != 3 {
                    return None;
                }
                let ix = idxs(&ws[1..3])?;
                let e: Result<PairInfo, _> = w.app.wrap().query_wasm_smart(&w.fac, &f::QueryMsg::Pair { asset_infos: w.arr2(ix[0], ix[1]) });
                match e {
                    Err(_) => "err",
                    Ok(e) => w.fund_pair(&e, mon),
                }
            }
            "create_vault" => {
                if ws.len() != 2 {
                    return None;
                }
                let i = idxs(&ws[1..2])?[0];
                let was_live = w.live_vaults.contains(&i);
                let vfac = w.vfac.clone();
                let msg = vf::ExecuteMsg::CreateVault {
                    asset_info: w.assets[i].clone(),
                    fees: VaultFee { protocol_fee: fee(1), flash_loan_fee: fee(1), burn_fee: fee(0) },
                    token_factory_lp: false,
                };
                let o = guarded(|| w.app.execute_contract(owner, vfac, &msg, &[]));
                if was_live {
                    mon.check("C19", "duplicate_vault_rejected", !matches!(o, Outcome::Ok(_)), || format!("create_vault {i} succeeded while registered"));
                    mon.stat("dup_vault_attempt");
                } else if w.made_vaults.contains(&i) {
                    mon.check("C19", "removed_vault_recreatable", matches!(o, Outcome::Ok(_)), || format!("re-create of removed vault {i} failed"));
                    mon.stat("recreate_vault");
                }
                if let Outcome::Ok(_) = &o {
                    w.live_vaults.insert(i);
                    w.made_vaults.insert(i);
                    if let Ok(Some(addr)) = w.app.wrap().query_wasm_smart::<Option<String>>(&w.vfac, &vf::QueryMsg::Vault { asset_info: w.assets[i].clone() }) {
                        if !w.vault_serial.contains_key(&addr) {
                            let s = w.vault_serial.len();
                            w.vault_serial.insert(addr, s);
                        }
                    }
                    mon.stat("vault_created");
                }
                show(&o)
            }
            "remove_vault" => {
                if ws.len() != 2 {
                    return None;
                }
                let i = idxs(&ws[1..2])?[0];
                let vfac = w.vfac.clone();
                let msg = vf::ExecuteMsg::RemoveVault { asset_info: w.assets[i].clone() };
                let o = guarded(|| w.app.execute_contract(owner, vfac, &msg, &[]));
                if let Outcome::Ok(_) = &o {
                    mon.check("C19", "remove_only_registered", w.live_vaults.contains(&i), || format!("remove_vault {i} succeeded but was not registered"));
                    w.live_vaults.remove(&i);
                    let got: Option<String> = w.app.wrap().query_wasm_smart(&w.vfac, &vf::QueryMsg::Vault { asset_info: w.assets[i].clone() }).unwrap();
                    mon.check("C19", "removed_vault_absent", got.is_none(), || format!("vault {i} still found after remove"));
                    mon.stat("vault_removed");
                }
                show(&o)
            }
            "create_incentive" => {
                if ws.len() != 2 {
                    return None;
                }
                let i = idxs(&ws[1..2])?[0];
                let was_live = w.live_incs.contains(&i);
                let ifa = w.ifac.clone();
                let msg = ifac::ExecuteMsg::CreateIncentive { lp_asset: w.assets[i].clone() };
                let o = guarded(|| w.app.execute_contract(owner, ifa, &msg, &[]));
                if was_live {
                    mon.check("C19", "duplicate_incentive_rejected", !matches!(o, Outcome::Ok(_)), || format!("create_incentive {i} succeeded while registered"));
                    mon.stat("dup_incentive_attempt");
                }
                if let Outcome::Ok(_) = &o {
                    w.live_incs.insert(i);
                    if let Ok(Some(addr)) = w.app.wrap().query_wasm_smart::<Option<Addr>>(&w.ifac, &ifac::QueryMsg::Incentive { lp_asset: w.assets[i].clone() }) {
                        if !w.inc_serial.contains_key(addr.as_str()) {
                            let s = w.inc_serial.len();
                            w.inc_serial.insert(addr.to_string(), s);
                        }
                    }
                    mon.stat("incentive_created");
                }
                show(&o)
            }
            "add_routes" => {
                // add_routes o:a:x-y,x-y  o:a:...
                let mut routes = vec![];
                let mut all_hops: Vec<Vec<Hop>> = vec![];
                for tkn in &ws[1..] {
                    let parts: Vec<&str> = tkn.split(':').collect();
                    if parts.len() != 3 {
                        return None;
                    }
                    let oa = idxs(&parts[0..2])?;
                    let hops = parse_hops(parts[2])?;
                    routes.push(r::SwapRoute {
                        offer_asset_info: w.assets[oa[0]].clone(),
                        ask_asset_info: w.assets[oa[1]].clone(),
                        swap_operations: w.hops_msg(&hops),
                    });
                    all_hops.push(hops);
                }
                let before = w.stored_route_keys();
                let every_hop_registered = all_hops.iter().all(|hs| !hs.is_empty() && hs.iter().all(|(x, y)| w.live_pairs.contains(&canon(&[*x, *y]))));
                let router = w.router.clone();
                let o = guarded(|| w.app.execute_contract(owner, router, &r::ExecuteMsg::AddSwapRoutes { swap_routes: routes }, &[]));
                match &o {
                    Outcome::Ok(_) => {
                        mon.check("C19", "routes_registered_only", every_hop_registered, || {
                            format!("add_routes {:?} accepted although a hop is not a registered pair (live {:?})", all_hops, w.live_pairs)
                        });
                        // and what is now stored under the touched keys has registered hops only
                        let stored: Vec<r::SwapRouteResponse> = w.app.wrap().query_wasm_smart(&w.router, &r::QueryMsg::SwapRoutes {}).unwrap();
                        let touched: BTreeSet<(String, String)> = ws[1..]
                            .iter()
                            .map(|tkn| {
                                let parts: Vec<&str> = tkn.split(':').collect();
                                (w.label[parts[0].parse::<usize>().unwrap()].clone(), w.label[parts[1].parse::<usize>().unwrap()].clone())
                            })
                            .collect();
                        for s in stored.iter().filter(|s| touched.contains(&(s.offer_asset.clone(), s.ask_asset.clone()))) {
                            let ok = s.swap_route.iter().all(|op| match op {
                                r::SwapOperation::TerraSwap { offer_asset_info, ask_asset_info } => {
                                    let ix = w.idx_list(&[offer_asset_info.clone(), ask_asset_info.clone()]);
                                    w.live_pairs.contains(&canon(&ix))
                                }
                            });
                            mon.check("C19", "routes_registered_only", ok, || format!("stored route {:?} has an unregistered hop", s));
                        }
                        mon.stat("routes_added");
                    }
                    _ => {
                        if !every_hop_registered {
                            mon.stat("route_with_unregistered_hop_rejected");
                        } else {
                            mon.stat("route_rejected_other");
                        }
                        let after = w.stored_route_keys();
                        mon.check("C19", "rejected_routes_not_stored", before == after, || format!("failed add_routes changed the table: {:?} -> {:?}", before, after));
                    }
                }
                show(&o)
            }
            "remove_routes" => {
                let mut routes = vec![];
                for tkn in &ws[1..] {
                    let parts: Vec<&str> = tkn.split(':').collect();
                    if parts.len() != 2 {
                        return None;
                    }
                    let oa = idxs(&parts[0..2])?;
                    routes.push(r::SwapRoute { offer_asset_info: w.assets[oa[0]].clone(), ask_asset_info: w.assets[oa[1]].clone(), swap_operations: vec![] });
                }
                let router = w.router.clone();
                let o = guarded(|| w.app.execute_contract(owner, router, &r::ExecuteMsg::RemoveSwapRoutes { swap_routes: routes }, &[]));
                if let Outcome::Ok(_) = &o {
                    mon.stat("routes_removed");
                }
                show(&o)
            }
            "swap" => {
                if ws.len() > 2 {
                    return None;
                }
                let hops = parse_hops(ws.get(1).copied().unwrap_or(""))?;
                let o = w.do_swap(&hops, mon);
                show(&o)
            }
            "swap_route" => {
                if ws.len() != 3 {
                    return None;
                }
                let oa = idxs(&ws[1..3])?;
                let q: Result<Vec<r::SwapOperation>, _> = w.app.wrap().query_wasm_smart(
                    &w.router,
                    &r::QueryMsg::SwapRoute { offer_asset_info: w.assets[oa[0]].clone(), ask_asset_info: w.assets[oa[1]].clone() },
                );
                match q {
                    Err(_) => "err",
                    Ok(ops) => {
                        let hops: Vec<Hop> = ops
                            .iter()
                            .map(|op| match op {
                                r::SwapOperation::TerraSwap { offer_asset_info, ask_asset_info } => {
                                    let ix = w.idx_list(&[offer_asset_info.clone(), ask_asset_info.clone()]);
                                    (ix[0], ix[1])
                                }
                            })
                            .collect();
                        if hops.iter().any(|(x, y)| !w.live_pairs.contains(&canon(&[*x, *y]))) {
                            mon.stat("swap_route_with_removed_pair");
                        }
                        let o = w.do_swap(&hops, mon);
                        show(&o)
                    }
                }
            }
            "pages" | "page" => {
                // pages <reg> <limit|none>            : follow cursors from the start
                // page <reg> <limit|none> <cursor>    : one page; cursor = i.j[.k] asset indices, or x<hex> raw bytes (vaults)
                let kind = match ws.get(1).copied()? {
                    "pairs" => 0,
                    "trios" => 1,
                    "vaults" => 2,
                    "incs" => 3,
                    _ => return None,
                };
                let lim = lim_of(ws.get(2).copied()?)?;
                if ws[0] == "pages" {
                    if ws.len() != 3 {
                        return None;
                    }
                    let n = w.full(kind).len();
                    let pages = w.iterate_pages(kind, lim, n + 3);
                    Self::pagination_sweep(w, kind, mon);
                    let body = w.build_body(mon);
                    let ps = if pages.is_empty() { "-".into() } else { pages.iter().map(|pg| show_sets(pg)).collect::<Vec<_>>().join("|") };
                    mon.stat(&format!("pages_limit_{}", match lim { None => "none".into(), Some(0) => "0".to_string(), Some(l) if l <= 30 => "1-30".into(), _ => ">30".to_string() }));
                    return Some(format!("ok p={ps} {body}"));
                } else {
                    if ws.len() != 4 {
                        return None;
                    }
                    let arity = [2, 3, 1, 1][kind];
                    let (cur, curb) = if let Some(h) = ws[3].strip_prefix('x') {
                        if kind != 2 {
                            return None;
                        }
                        (None, Some(unhex(h)?))
                    } else {
                        let c: Vec<&str> = ws[3].split('.').collect();
                        let c = idxs(&c)?;
                        if c.len() != arity {
                            return None;
                        }
                        (Some(c), None)
                    };
                    let pg = w.one_page(kind, &cur, &curb, lim);
                    // monitor: exactly the entries strictly after the cursor's bound, in order
                    let full = w.full(kind);
                    let bound: Vec<u8> = {
                        let mut b = match (&cur, &curb) {
                            (_, Some(b)) => b.clone(),
                            (Some(c), _) => match kind {
                                0 | 1 => w.key_of(c),
                                2 => w.refb[c[0]].clone(),
                                _ => w.raw[c[0]].clone(),
                            },
                            _ => vec![],
                        };
                        b.push(1);
                        b
                    };
                    let want: Vec<Vec<usize>> = full
                        .iter()
                        .filter(|e| {
                            let k = match kind {
                                0 | 1 => w.key_of(e),
                                2 => w.refb[e[0]].clone(),
                                _ => w.raw[e[0]].clone(),
                            };
                            k > bound
                        })
                        .take(eff_limit(lim))
                        .cloned()
                        .collect();
                    mon.check("C19", "page_is_entries_after_cursor", pg == want, || format!("page {:?}: got {:?} want {:?}", ws, pg, want));
                    let body = w.build_body(mon);
                    return Some(format!("ok p={} {body}", show_sets(&pg)));
                }
            }
            _ => return None,
        };
        let body = w.build_body(mon);
        if outcome != "ok" {
            let same = body == w.last_body;
            mon.check("C19", "failed_op_leaves_registries_unchanged", same, || format!("{:?} failed but observables changed", ws));
        }
        w.last_body = body.clone();
        mon.stat(&format!("{}_{}", ws[0], outcome));
        Some(format!("{outcome} {body}"))
    }
}

fn perms3(v: &[usize]) -> Vec<Vec<usize>> {
    vec![
        vec![v[0], v[1], v[2]],
        vec![v[0], v[2], v[1]],
        vec![v[1], v[0], v[2]],
        vec![v[1], v[2], v[0]],
        vec![v[2], v[0], v[1]],
        vec![v[2], v[1], v[0]],
    ]
}

impl Registry {
    fn distinct(rng: &mut Rng, k: usize) -> Vec<usize> {
        let mut v: Vec<usize> = vec![];
        while v.len() < k {
            let x = rng.below(N as u64) as usize;
            if !v.contains(&x) {
                v.push(x);
            }
        }
        v
    }
    fn ptype(rng: &mut Rng) -> String {
        match rng.below(10) {
            0..=4 => "cp".into(),
            5 => "ss1".into(),
            6 => "ss100".into(),
            7 => "ss1000000".into(),
            8 => "ss1000001".into(),
            _ => "ss0".into(),
        }
    }
    fn amp(rng: &mut Rng) -> u64 {
        *rng.pick(&[1u64, 100, 100, 85, 1_000_000, 1_000_001, 0])
    }
    fn lim(rng: &mut Rng) -> String {
        match rng.below(12) {
            0 => "none".into(),
            1 => "0".into(),
            2 => "31".into(),
            3 => "4294967295".into(),
            4 => "30".into(),
            _ => rng.range(1, 30).to_string(),
        }
    }
    fn dec(rng: &mut Rng) -> u8 {
        *rng.pick(&[6u8, 6, 6, 8, 18])
    }

    /// one random-soup line; hops avoid registered StableSwap pairs (see the note in the router scenario)
    fn soup_line(&self, rng: &mut Rng) -> String {
        let ss_live = |a: usize, b: usize| -> bool {
            match &self.w {
                Some(w) => w.live_pairs.contains(&canon(&[a, b])) && w.made_pairs.get(&canon(&[a, b])).map(|t| t != "cp").unwrap_or(false),
                None => false,
            }
        };
        loop {
            let s = Self::distinct(rng, 3);
            let line = match rng.below(20) {
                0..=3 => format!("create_pair {} {} {}", s[0], s[1], Self::ptype(rng)),
                4 => format!("create_pair {} {} cp", s[0], s[0]),
                5..=6 => format!("create_trio {} {} {} {}", s[0], s[1], s[2], Self::amp(rng)),
                7 => format!("create_trio {} {} {} 100", s[0], s[1], s[0]),
                8 => format!("remove_pair {} {}", s[0], s[1]),
                9 => format!("remove_trio {} {} {}", s[0], s[1], s[2]),
                10 => format!("create_vault {}", s[0]),
                11 => format!("remove_vault {}", s[0]),
                12 => format!("create_incentive {}", s[0]),
                13 => {
                    let i = rng.below(N as u64) as usize;
                    format!("add_dec {} {}", i, if i < NN { NOMINAL[i] } else { 6 })
                }
                14 => format!("fund {} {}", s[0], s[1]),
                15 => {
                    if ss_live(s[0], s[1]) {
                        continue;
                    }
                    format!("add_routes {}:{}:{}-{}", s[0], s[1], s[0], s[1])
                }
                16 => {
                    if ss_live(s[0], s[1]) || ss_live(s[1], s[2]) {
                        continue;
                    }
                    format!("add_routes {}:{}:{}-{},{}-{}", s[0], s[2], s[0], s[1], s[1], s[2])
                }
                17 => {
                    if ss_live(s[0], s[1]) {
                        continue;
                    }
                    format!("swap {}-{}", s[0], s[1])
                }
                18 => {
                    // only routes whose hops are not StableSwap pairs now
                    let o = s[0];
                    let a = s[rng.range(1, 2) as usize];
                    let stale_ss = match &self.w {
                        Some(w) => {
                            let q: Result<Vec<r::SwapOperation>, _> = w.app.wrap().query_wasm_smart(
                                &w.router,
                                &r::QueryMsg::SwapRoute { offer_asset_info: w.assets[o].clone(), ask_asset_info: w.assets[a].clone() },
                            );
                            match q {
                                Ok(ops) => ops.iter().any(|op| match op {
                                    r::SwapOperation::TerraSwap { offer_asset_info, ask_asset_info } => {
                                        let ix = w.idx_list(&[offer_asset_info.clone(), ask_asset_info.clone()]);
                                        ss_live(ix[0], ix[1])
                                    }
                                }),
                                Err(_) => false,
                            }
                        }
                        None => false,
                    };
                    if stale_ss {
                        continue;
                    }
                    format!("swap_route {} {}", o, a)
                }
                _ => format!("pages {} {}", rng.pick(&["pairs", "trios", "vaults", "incs"]), Self::lim(rng)),
            };
            return line;
        }
    }

    /// fills the per-case op queue (after the init line)
    fn plan(&mut self, rng: &mut Rng) {
        let q = &mut self.queue;
        let kind = self.case_kind % 4;
        // native decimals: mostly all registered up front, sometimes some missing / added late
        let mut late: Vec<usize> = vec![];
        for i in 0..NN {
            if rng.chance(9, 10) {
                q.push_back(format!("add_dec {} {}", i, if kind >= 2 { NOMINAL[i] } else { Self::dec(rng) }));
            } else {
                late.push(i);
            }
        }
        match kind {
            0 => {
                // permutation sweep: pairs and trios, duplicates in every other order, remove, re-create
                for _ in 0..3 {
                    let s = Self::distinct(rng, 2);
                    let pt = Self::ptype(rng);
                    q.push_back(format!("create_pair {} {} {}", s[0], s[1], pt));
                    q.push_back(format!("create_pair {} {} {}", s[1], s[0], Self::ptype(rng)));
                    q.push_back(format!("create_pair {} {} {}", s[0], s[1], pt));
                    if rng.chance(1, 2) {
                        q.push_back(format!("pages pairs {}", Self::lim(rng)));
                    }
                    if rng.chance(1, 2) {
                        q.push_back(format!("remove_pair {} {}", s[1], s[0]));
                    } else {
                        q.push_back(format!("remove_pair {} {}", s[0], s[1]));
                    }
                    q.push_back(format!("remove_pair {} {}", s[0], s[1]));
                    if rng.chance(1, 2) {
                        q.push_back(format!("create_pair {} {} {}", s[1], s[0], pt));
                    } else {
                        q.push_back(format!("create_pair {} {} {}", s[0], s[1], pt));
                    }
                }
                for _ in 0..2 {
                    let s = Self::distinct(rng, 3);
                    let ps = perms3(&s);
                    let first = rng.below(6) as usize;
                    let amp = Self::amp(rng);
                    q.push_back(format!("create_trio {} {} {} {}", ps[first][0], ps[first][1], ps[first][2], amp));
                    for (k, pm) in ps.iter().enumerate() {
                        if k != first {
                            q.push_back(format!("create_trio {} {} {} {}", pm[0], pm[1], pm[2], Self::amp(rng)));
                        }
                    }
                    let rm = rng.below(6) as usize;
                    q.push_back(format!("remove_trio {} {} {}", ps[rm][0], ps[rm][1], ps[rm][2]));
                    let rc = rng.below(6) as usize;
                    q.push_back(format!("create_trio {} {} {} {}", ps[rc][0], ps[rc][1], ps[rc][2], amp));
                    q.push_back(format!("pages trios {}", Self::lim(rng)));
                }
                for i in late.drain(..) {
                    q.push_back(format!("add_dec {} {}", i, Self::dec(rng)));
                }
                for _ in 0..3 {
                    let i = rng.below(N as u64);
                    q.push_back(format!("create_vault {i}"));
                    q.push_back(format!("create_vault {i}"));
                    q.push_back(format!("remove_vault {i}"));
                    q.push_back(format!("remove_vault {i}"));
                    q.push_back(format!("create_vault {i}"));
                    q.push_back(format!("create_incentive {i}"));
                    q.push_back(format!("create_incentive {i}"));
                }
            }
            1 => {
                // many entries, then pagination with every limit / cursor
                let np = rng.range(5, 150);
                for _ in 0..np {
                    let s = Self::distinct(rng, 2);
                    q.push_back(format!("create_pair {} {} {}", s[0], s[1], if rng.chance(2, 3) { "cp".to_string() } else { "ss100".to_string() }));
                }
                let nt = rng.range(3, 90);
                for _ in 0..nt {
                    let s = Self::distinct(rng, 3);
                    q.push_back(format!("create_trio {} {} {} 100", s[0], s[1], s[2]));
                }
                for i in 0..N {
                    if rng.chance(4, 5) {
                        q.push_back(format!("create_vault {i}"));
                    }
                    if rng.chance(4, 5) {
                        q.push_back(format!("create_incentive {i}"));
                    }
                }
                for _ in 0..3 {
                    let s = Self::distinct(rng, 3);
                    q.push_back(format!("remove_pair {} {}", s[0], s[1]));
                    q.push_back(format!("remove_trio {} {} {}", s[0], s[1], s[2]));
                    q.push_back(format!("remove_vault {}", s[2]));
                }
                for reg in ["pairs", "trios", "vaults", "incs"] {
                    for _ in 0..2 {
                        q.push_back(format!("pages {} {}", reg, Self::lim(rng)));
                    }
                }
                for _ in 0..8 {
                    match rng.below(4) {
                        0 => {
                            let s = Self::distinct(rng, 2);
                            q.push_back(format!("page pairs {} {}.{}", Self::lim(rng), s[0], s[1]));
                        }
                        1 => {
                            let s = Self::distinct(rng, 3);
                            q.push_back(format!("page trios {} {}.{}.{}", Self::lim(rng), s[0], s[1], s[2]));
                        }
                        2 => {
                            if rng.chance(1, 2) {
                                q.push_back(format!("page vaults {} {}", Self::lim(rng), rng.below(N as u64)));
                            } else {
                                // arbitrary byte cursors around a key: prefix, key+0, key+1, key+2, empty
                                let base: Vec<u8> = match rng.below(3) {
                                    0 => b"uusdc".to_vec(),
                                    1 => b"contract1".to_vec(),
                                    _ => b"uwhale".to_vec(),
                                };
                                let c: Vec<u8> = match rng.below(6) {
                                    0 => base[..base.len() - 1].to_vec(),
                                    1 => [base.clone(), vec![0]].concat(),
                                    2 => [base.clone(), vec![1]].concat(),
                                    3 => [base.clone(), vec![2]].concat(),
                                    4 => vec![],
                                    _ => vec![0xff],
                                };
                                q.push_back(format!("page vaults {} x{}", Self::lim(rng), hex(&c)));
                            }
                        }
                        _ => q.push_back(format!("page incs {} {}", Self::lim(rng), rng.below(N as u64))),
                    }
                }
            }
            2 => {
                // router: a chain of funded pairs, routes valid / invalid, swaps, removal, re-creation
                let plen = rng.range(3, 5) as usize;
                let path = Self::distinct(rng, plen);
                let mut hops: Vec<Hop> = vec![];
                for wnd in path.windows(2) {
                    let (a, b) = if rng.chance(1, 2) { (wnd[0], wnd[1]) } else { (wnd[1], wnd[0]) };
                    // routes and swaps go through ConstantProduct pairs only: whether a StableSwap simulation / swap of a
                    // tiny amount succeeds depends on the stableswap arithmetic, which this model does not carry
                    q.push_back(format!("create_pair {} {} cp", a, b));
                    if rng.chance(9, 10) {
                        q.push_back(format!("fund {} {}", wnd[0], wnd[1]));
                    }
                    hops.push((wnd[0], wnd[1]));
                }
                let hs = |h: &[Hop]| h.iter().map(|(x, y)| format!("{x}-{y}")).collect::<Vec<_>>().join(",");
                let (o, a) = (path[0], *path.last().unwrap());
                q.push_back(format!("add_routes {}:{}:{}", o, a, hs(&hops)));
                q.push_back(format!("swap {}", hs(&hops)));
                q.push_back(format!("swap_route {} {}", o, a));
                // a route with an unregistered hop
                let mut bad = hops.clone();
                let z = (0..N).find(|z| !path.contains(z)).unwrap();
                bad.push((a, z));
                q.push_back(format!("add_routes {}:{}:{}", o, z, hs(&bad)));
                q.push_back(format!("add_routes {}:{}:{} {}:{}:{}", a, o, hs(&hops.iter().rev().map(|(x, y)| (*y, *x)).collect::<Vec<_>>()), o, z, hs(&bad)));
                q.push_back(format!("add_routes {}:{}:", o, a));
                // mislabelled route (key assets differ from the hops): accepted by the real code
                q.push_back(format!("add_routes {}:{}:{}", z, o, hs(&hops[..1])));
                // remove one pair of the chain; the stored route must stop executing
                let k = rng.below(hops.len() as u64) as usize;
                q.push_back(format!("remove_pair {} {}", hops[k].1, hops[k].0));
                q.push_back(format!("swap_route {} {}", o, a));
                q.push_back(format!("swap {}", hs(&hops)));
                q.push_back(format!("add_routes {}:{}:{}", o, a, hs(&hops)));
                q.push_back(format!("create_pair {} {} cp", hops[k].0, hops[k].1));
                if rng.chance(1, 3) {
                    q.push_back(format!("swap_route {} {}", o, a));
                    q.push_back(format!("add_routes {}:{}:{}", o, a, hs(&hops)));
                }
                q.push_back(format!("fund {} {}", hops[k].1, hops[k].0));
                q.push_back(format!("swap_route {} {}", o, a));
                q.push_back(format!("remove_routes {}:{}", o, a));
                q.push_back(format!("remove_routes {}:{}", o, a));
                q.push_back(format!("swap_route {} {}", o, a));
                q.push_back(format!("swap {}", hs(&hops.iter().rev().map(|(x, y)| (*y, *x)).collect::<Vec<_>>())));
                // discontinuous / looping hop lists
                if hops[0].0 < NN {
                    // (a zero cw20 `Send` reaches the pair, whose outcome on a zero offer is arithmetic-dependent)
                    q.push_back(format!("swap {}", hs(&[hops[0], hops[0]])));
                }
                q.push_back(format!("swap {}", hs(&[hops[0], (hops[0].1, hops[0].0)])));
                q.push_back("swap".to_string());
                // label collision: tokens 6 and 7 share the symbol "dup"
                q.push_back(format!("add_routes 6:{}:{} 7:{}:{}", a, hs(&hops[..1]), a, hs(&hops)));
                q.push_back(format!("remove_routes 7:{}", a));
            }
            _ => {
                // random soup: lines are generated one at a time in `next_op`, looking at the ghost history
                let n = rng.range(25, 60);
                for _ in 0..n {
                    q.push_back("SOUP".to_string());
                }
            }
        }
        for i in late {
            q.push_back(format!("add_dec {} {}", i, if kind >= 2 { NOMINAL[i] } else { Self::dec(rng) }));
        }
    }
}

impl Engine for Registry {
    fn exec(&mut self, line: &str, mon: &mut Monitor) -> String {
        let ws: Vec<&str> = line.split_whitespace().collect();
        if ws.is_empty() {
            return "bad-op".into();
        }
        if ws[0] == "init" {
            if ws.get(1) != Some(&"registry") {
                return "bad-op".into();
            }
            let mut w = build_world();
            if w.init_line() != line.trim() {
                return "bad-op".into();
            }
            let body = w.build_body(mon);
            w.last_body = body.clone();
            self.w = Some(w);
            return format!("ok {body}");
        }
        match self.run_op(&ws, mon) {
            Some(s) => s,
            None => "bad-op".into(),
        }
    }

    fn next_op(&mut self, rng: &mut Rng, step: u64) -> Option<String> {
        if step == 0 {
            self.case_kind = self.ncase;
            self.ncase += 1;
            self.queue.clear();
            self.plan(rng);
            return Some(build_world().init_line());
        }
        match self.queue.pop_front() {
            Some(l) if l == "SOUP" => Some(self.soup_line(rng)),
            other => other,
        }
    }
}

#[allow(dead_code)]
fn _unused(_: Empty) {}
