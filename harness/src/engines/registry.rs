//! Engine `registry` (C19): the real pool factory, vault factory, incentive factory and swap router
//! (plus pair / trio / vault / incentive / cw20 code) in one cw-multi-test `App`, over a fixed universe
//! of 45 assets: a CORE of 10 (6 native denoms incl. an `ibc/…`, two `factory/…` ones and `contract0`, which
//! spells the address of the first cw20 token; 4 cw20 tokens)
//! that the pools, routes and the exhaustive point lookups use, and 35 more (29 native denoms of several
//! shapes — plain, prefix / extension / case variant of a core denom, `ibc/…`, `factory/…`, with digits —
//! and 6 cw20 tokens) so that the vault and incentive registries, which hold one entry per asset, grow
//! beyond the factories' default and maximum page sizes (the page sizes are the constants regenerated
//! from the contract sources into `lean/WW/Gen/Constants.lean`).
//!
//! Observation after every op: outcome + the full listing of every registry in the order the contract
//! returns it (walked page by page to the end), each entry followed by what the child contract itself
//! reports, + `kids=` the number of pair / trio / vault / incentive / cw20 contract instances that exist
//! in the chain. Assets are printed as universe indices, children as instantiation serials per code
//! (read from the chain's contract table, never addresses).
use crate::common::*;
use cosmwasm_std::testing::MockApi;
use cosmwasm_std::{coin, to_json_binary, Addr, Api, Coin, Decimal, Empty, Uint128};
use cw_multi_test::{App, AppBuilder, BankKeeper, ContractWrapper, Executor};
use std::collections::{BTreeMap, BTreeSet, VecDeque};
use white_whale_std::fee::{Fee, VaultFee};
use white_whale_std::pool_network::asset::{Asset, AssetInfo, PairInfo, PairType, TrioInfo};
use white_whale_std::pool_network::{factory as f, incentive_factory as ifac, pair as p, router as r, trio as t};
use white_whale_std::vault_network::{vault as v, vault_factory as vf};

const N: usize = 10;
const NN: usize = 6; // native denoms come first
const IBC: &str = "ibc/27394FB092D2ECCD56123C74F36E4C1F926001CEADA9CA97EA622B25F41E5EB2";
const FACTA: &str = "factory/migaloo1erul6xyq0gk6ws98ncj7lnq9l4jn4gnnu9we73gdz78yyl2lr7qqrvcgup/ulongsubdenom";
/// the second token-factory denom of the core differs from the first ONLY IN LETTER CASE (denoms are case-sensitive:
/// two assets; seed C19-R: a pair key built by a case-insensitive sort depends on the order the assets are named in)
const FACTB: &str = "factory/migaloo1erul6xyq0gk6ws98ncj7lnq9l4jn4gnnu9we73gdz78yyl2lr7qqrvcgup/uLONGSUBDENOM";
/// the last core denom spells the ADDRESS of the first core cw20 token (`contract0`): same text, other kind
const DENOMS: [&str; NN] = ["uwhale", "uusdc", IBC, FACTA, FACTB, "contract0"];
/// decimals the generator registers for the native denoms in the scenarios that swap
const NOMINAL: [u8; NN] = [6, 6, 8, 6, 18, 6];
const SYMBOLS: [&str; 4 + XT] = ["tka", "tkb", "dup", "dup", "tkc", "tkd", "tke", "tkf", "tkg", "dup"];
const TOKEN_DEC: [u8; 4 + XT] = [6, 8, 18, 6, 6, 6, 8, 18, 6, 6];
/// the extended universe (indices `N..NT`): natives first, then cw20 tokens. Used by the vault and the
/// incentive registry (one entry per asset). Letters-only denoms give a valid vault LP symbol.
const XN: usize = 31;
const XT: usize = 6;
const NT: usize = N + XN + XT;
const XDENOMS: [&str; XN] = [
    "uatom", "uosmo", "ujuno", "uluna", "ukuji", "uinj", "usei", "uakt", "ustars", "uscrt", "uhuahua", "ucmdx", "uxprt",
    "uregen", "ubtsg", "uumee", "uiris", "uevmos", "ustrd", "uixo", "ubld", "uflix",
    // prefix, extension and case variant of the core denom `uwhale`
    "uwhal", "uwhalex", "uWHALE",
    "ibc/0471F1C4E7AFD3F07702BEF6DC365268D64570F7C1FDC98EA6098DD6DE59817B",
    "ibc/b3504e092456ba618cc28ac671a71fb08c6ca0fd0be7c8a5b5a3e2dd933cc9e4",
    "factory/migaloo1erul6xyq0gk6ws98ncj7lnq9l4jn4gnnu9we73gdz78yyl2lr7qqrvcgup/uLP",
    "peggy0xdAC17F958D2ee523a2206206994597C13D831ec7",
    // core denoms with a trailing / a leading blank: distinct denoms for the mock bank and for every registry
    // key (a real chain would not mint them; a registry that trims its keys would merge them with the core ones)
    "uwhale ", " uusdc",
];
/// Address spellings: universe indices `NT..NU` name a cw20 token of the universe by its address in
/// UPPER case. `addr_canonicalize` is case-insensitive (as for bech32), so the pool and the incentive
/// factory compute the SAME storage key for it (the vault factory keys by the address string, so there it
/// is a key of its own); no contract answers at that spelling and `addr_validate` refuses it. A registered
/// key named through such a spelling must be found, refused on create and removed on remove like any other.
const NA: usize = 2;
const NU: usize = NT + NA;
/// the first core cw20 (pools use it) and the last extra cw20
const ALIAS_OF: [usize; NA] = [NN, NT - 1];
/// the asset an index stands for (itself, or the token an address spelling names)
fn base(i: usize) -> usize {
    if (NT..NU).contains(&i) {
        ALIAS_OF[i - NT]
    } else {
        i
    }
}
/// every way of naming an asset list that the pool / incentive factories map to one key: every order of
/// the assets, each asset under each of its spellings
fn spellings(set: &[usize]) -> Vec<Vec<usize>> {
    let orders: Vec<Vec<usize>> = match set.len() {
        2 => vec![vec![set[0], set[1]], vec![set[1], set[0]]],
        3 => perms3(set),
        _ => vec![set.to_vec()],
    };
    let mut out: Vec<Vec<usize>> = vec![];
    for o in orders {
        let mut acc: Vec<Vec<usize>> = vec![vec![]];
        for x in o {
            let mut names = vec![x];
            names.extend((0..NA).filter(|a| ALIAS_OF[*a] == x).map(|a| NT + a));
            acc = acc.iter().flat_map(|pre| names.iter().map(move |n| [pre.clone(), vec![*n]].concat())).collect();
        }
        out.extend(acc);
    }
    out
}
/// registry kinds: 0 pairs, 1 trios, 2 vaults, 3 incentives
const KIND: [&str; 4] = ["pairs", "trios", "vaults", "incs"];
const KNAME: [&str; 4] = ["pair", "trio", "vault", "incentive"];

fn is_native(i: usize) -> bool {
    i < NN || (N..N + XN).contains(&i)
}
/// number of the cw20 token behind a non-native universe index
fn token_no(i: usize) -> usize {
    if i < N {
        i - NN
    } else {
        4 + (i - N - XN)
    }
}
/// `(DEFAULT_LIMIT, MAX_LIMIT)` of the factory serving a registry kind
fn page_limits(kind: usize) -> (usize, usize) {
    let (d, m) = match kind {
        0 | 1 => ("POOL_FACTORY_DEFAULT_LIMIT", "POOL_FACTORY_MAX_LIMIT"),
        2 => ("VAULT_FACTORY_DEFAULT_LIMIT", "VAULT_FACTORY_MAX_LIMIT"),
        _ => ("INCENTIVE_FACTORY_DEFAULT_LIMIT", "INCENTIVE_FACTORY_MAX_LIMIT"),
    };
    (gen_const(d) as usize, gen_const(m) as usize)
}
fn size_bucket(n: usize, lim: (usize, usize)) -> &'static str {
    if n == 0 {
        "0"
    } else if n <= lim.0 {
        "le_default"
    } else if n <= lim.1 {
        "gt_default"
    } else {
        "gt_max"
    }
}

fn hex(b: &[u8]) -> String {
    if b.is_empty() {
        return "-".into();
    }
    b.iter().map(|x| format!("{x:02x}")).collect()
}
fn unhex(s: &str) -> Option<Vec<u8>> {
    if s == "-" {
        return Some(vec![]);
    }
    if s.len() % 2 != 0 {
        return None;
    }
    (0..s.len()).step_by(2).map(|i| u8::from_str_radix(&s[i..i + 2], 16).ok()).collect()
}

struct World {
    app: App,
    owner: Addr,
    trader: Addr,
    fac: Addr,
    vfac: Addr,
    ifac: Addr,
    router: Addr,
    assets: Vec<AssetInfo>,
    raw: Vec<Vec<u8>>,
    refb: Vec<Vec<u8>>,
    label: Vec<String>,
    // child serials (creation order per kind) and the LP tokens the children reported at creation
    pair_serial: BTreeMap<String, usize>,
    trio_serial: BTreeMap<String, usize>,
    vault_serial: BTreeMap<String, usize>,
    inc_serial: BTreeMap<String, usize>,
    lp_ids: BTreeMap<String, String>,
    // ghost history, maintained from op outcomes only (independent of the registries)
    live_pairs: BTreeSet<Vec<usize>>,
    live_trios: BTreeSet<Vec<usize>>,
    live_vaults: BTreeSet<usize>,
    live_incs: BTreeSet<usize>,
    made_pairs: BTreeMap<Vec<usize>, String>,
    made_trios: BTreeMap<Vec<usize>, String>,
    made_vaults: BTreeSet<usize>,
    last_body: String,
    /// code ids of the child contracts (pair, trio, vault, incentive, cw20)
    codes: [u64; 5],
    /// the chain's contract table as far as it has been read: (address, code id), instantiation order
    insts: Vec<(String, u64)>,
    /// `(DEFAULT_LIMIT, MAX_LIMIT)` per registry kind
    lims: [(usize, usize); 4],
    /// ghost: the child that the successful creation of a (then unregistered) key instantiated; forgotten
    /// when the key is removed. Keys: sorted universe indices.
    orig: [BTreeMap<Vec<usize>, String>; 4],
    /// ghost: how many times a key was created while unregistered (= children that may exist for it)
    born: [BTreeMap<Vec<usize>, usize>; 4],
}

fn fee(n: u64) -> Fee {
    Fee { share: Decimal::permille(n) }
}

fn build_world() -> World {
    let owner = Addr::unchecked("owner");
    let trader = Addr::unchecked("trader");
    let big = 10u128.pow(30);
    let funds: Vec<Coin> = {
        let mut c: Vec<Coin> = DENOMS.iter().map(|d| coin(big, *d)).collect();
        c.sort_by(|a, b| a.denom.cmp(&b.denom));
        c
    };
    let mut app: App = AppBuilder::new().with_bank(BankKeeper::new()).build(|router, _api, storage| {
        router.bank.init_balance(storage, &Addr::unchecked("owner"), funds.clone()).unwrap();
        router.bank.init_balance(storage, &Addr::unchecked("trader"), funds.clone()).unwrap();
    });
    let token_id = app.store_code(Box::new(ContractWrapper::new(
        terraswap_token::contract::execute,
        terraswap_token::contract::instantiate,
        terraswap_token::contract::query,
    )));
    let pair_id = app.store_code(Box::new(
        ContractWrapper::new(terraswap_pair::contract::execute, terraswap_pair::contract::instantiate, terraswap_pair::contract::query)
            .with_reply(terraswap_pair::contract::reply),
    ));
    let trio_id = app.store_code(Box::new(
        ContractWrapper::new(
            stableswap_3pool::contract::execute,
            stableswap_3pool::contract::instantiate,
            stableswap_3pool::contract::query,
        )
        .with_reply(stableswap_3pool::contract::reply),
    ));
    let fac_id = app.store_code(Box::new(
        ContractWrapper::new(
            terraswap_factory::contract::execute,
            terraswap_factory::contract::instantiate,
            terraswap_factory::contract::query,
        )
        .with_reply(terraswap_factory::contract::reply),
    ));
    let router_id = app.store_code(Box::new(ContractWrapper::new(
        terraswap_router::contract::execute,
        terraswap_router::contract::instantiate,
        terraswap_router::contract::query,
    )));
    let vfac_id = app.store_code(Box::new(
        ContractWrapper::new(vault_factory::contract::execute, vault_factory::contract::instantiate, vault_factory::contract::query)
            .with_reply(vault_factory::reply::reply),
    ));
    let vault_id = app.store_code(Box::new(
        ContractWrapper::new(vault::contract::execute, vault::contract::instantiate, vault::contract::query)
            .with_reply(vault::reply::reply),
    ));
    let inc_id = app.store_code(Box::new(ContractWrapper::new(
        incentive::contract::execute,
        incentive::contract::instantiate,
        incentive::contract::query,
    )));
    let ifac_id = app.store_code(Box::new(
        ContractWrapper::new(
            incentive_factory::contract::execute,
            incentive_factory::contract::instantiate,
            incentive_factory::contract::query,
        )
        .with_reply(incentive_factory::contract::reply),
    ));
    let fd_id = app.store_code(Box::new(ContractWrapper::new(
        fee_distributor_mock::contract::execute,
        fee_distributor_mock::contract::instantiate,
        fee_distributor_mock::contract::query,
    )));
    // the four cw20 tokens of the universe come first (contract0..3)
    let mut assets: Vec<AssetInfo> = DENOMS.iter().map(|d| AssetInfo::NativeToken { denom: (*d).into() }).collect();
    let mut xtokens: Vec<AssetInfo> = vec![];
    for k in 0..4 + XT {
        let a = app
            .instantiate_contract(
                token_id,
                owner.clone(),
                &white_whale_std::pool_network::token::InstantiateMsg {
                    name: format!("token {}", k),
                    symbol: SYMBOLS[k].into(),
                    decimals: TOKEN_DEC[k],
                    initial_balances: vec![
                        cw20::Cw20Coin { address: owner.to_string(), amount: Uint128::new(big) },
                        cw20::Cw20Coin { address: trader.to_string(), amount: Uint128::new(big) },
                    ],
                    mint: None,
                },
                &[],
                "cw20",
                None,
            )
            .unwrap();
        if k < 4 {
            assets.push(AssetInfo::Token { contract_addr: a.to_string() });
        } else {
            xtokens.push(AssetInfo::Token { contract_addr: a.to_string() });
        }
    }
    assets.extend(XDENOMS.iter().map(|d| AssetInfo::NativeToken { denom: (*d).into() }));
    assets.extend(xtokens);
    assert_eq!(assets.len(), NT);
    for a in 0..NA {
        let AssetInfo::Token { contract_addr } = &assets[ALIAS_OF[a]] else { panic!("address spellings are for cw20 tokens") };
        assets.push(AssetInfo::Token { contract_addr: contract_addr.to_uppercase() });
    }
    let fd = app
        .instantiate_contract(fd_id, owner.clone(), &fee_distributor_mock::msg::InstantiateMsg {}, &[], "fd", None)
        .unwrap();
    let fac = app
        .instantiate_contract(
            fac_id,
            owner.clone(),
            &f::InstantiateMsg { pair_code_id: pair_id, trio_code_id: trio_id, token_code_id: token_id, fee_collector_addr: "collector".into() },
            &[],
            "fac",
            None,
        )
        .unwrap();
    let vfac = app
        .instantiate_contract(
            vfac_id,
            owner.clone(),
            &vf::InstantiateMsg { owner: owner.to_string(), vault_id, token_id, fee_collector_addr: "collector".into() },
            &[],
            "vfac",
            None,
        )
        .unwrap();
    let ifac_addr = app
        .instantiate_contract(
            ifac_id,
            owner.clone(),
            &ifac::InstantiateMsg {
                fee_collector_addr: "collector".into(),
                fee_distributor_addr: fd.to_string(),
                create_flow_fee: Asset { info: AssetInfo::NativeToken { denom: "uwhale".into() }, amount: Uint128::new(1000) },
                max_concurrent_flows: 5,
                incentive_code_id: inc_id,
                max_flow_epoch_buffer: 10,
                min_unbonding_duration: 86400,
                max_unbonding_duration: 31556926,
            },
            &[],
            "ifac",
            None,
        )
        .unwrap();
    let router = app
        .instantiate_contract(router_id, owner.clone(), &r::InstantiateMsg { terraswap_factory: fac.to_string() }, &[], "router", Some(owner.to_string()))
        .unwrap();
    let api = MockApi::default();
    let raw: Vec<Vec<u8>> = assets
        .iter()
        .map(|a| match a {
            AssetInfo::NativeToken { denom } => denom.as_bytes().to_vec(),
            AssetInfo::Token { contract_addr } => api.addr_canonicalize(contract_addr).unwrap().as_slice().to_vec(),
        })
        .collect();
    let refb: Vec<Vec<u8>> = assets
        .iter()
        .map(|a| match a {
            AssetInfo::NativeToken { denom } => denom.as_bytes().to_vec(),
            AssetInfo::Token { contract_addr } => contract_addr.as_bytes().to_vec(),
        })
        .collect();
    let deps = cosmwasm_std::testing::mock_dependencies();
    let label: Vec<String> = assets
        .iter()
        .enumerate()
        .map(|(i, a)| {
            if is_native(i) {
                a.clone().get_label(&deps.as_ref()).unwrap()
            } else if i >= NT {
                String::new() // no contract answers at this spelling
            } else {
                SYMBOLS[token_no(i)].to_string()
            }
        })
        .collect();
    for a in 0..NA {
        assert_eq!(raw[NT + a], raw[ALIAS_OF[a]], "addr_canonicalize is expected to be case-insensitive");
        assert_ne!(refb[NT + a], refb[ALIAS_OF[a]]);
    }
    World {
        app,
        owner,
        trader,
        fac,
        vfac,
        ifac: ifac_addr,
        router,
        assets,
        raw,
        refb,
        label,
        pair_serial: BTreeMap::new(),
        trio_serial: BTreeMap::new(),
        vault_serial: BTreeMap::new(),
        inc_serial: BTreeMap::new(),
        lp_ids: BTreeMap::new(),
        live_pairs: BTreeSet::new(),
        live_trios: BTreeSet::new(),
        live_vaults: BTreeSet::new(),
        live_incs: BTreeSet::new(),
        made_pairs: BTreeMap::new(),
        made_trios: BTreeMap::new(),
        made_vaults: BTreeSet::new(),
        last_body: String::new(),
        codes: [pair_id, trio_id, vault_id, inc_id, token_id],
        insts: vec![],
        lims: [page_limits(0), page_limits(1), page_limits(2), page_limits(3)],
        orig: Default::default(),
        born: Default::default(),
    }
}

/// the ghost's name of a key: the assets the indices stand for, sorted
fn canon(xs: &[usize]) -> Vec<usize> {
    let mut v: Vec<usize> = xs.iter().map(|i| base(*i)).collect();
    v.sort();
    v
}

fn ptype_str(pt: &PairType) -> String {
    match pt {
        PairType::ConstantProduct => "cp".into(),
        PairType::StableSwap { amp } => format!("ss{amp}"),
    }
}
fn parse_ptype(s: &str) -> Option<PairType> {
    if s == "cp" {
        Some(PairType::ConstantProduct)
    } else {
        s.strip_prefix("ss").and_then(|a| a.parse::<u64>().ok()).map(|amp| PairType::StableSwap { amp })
    }
}

type Hop = (usize, usize);
fn parse_hops(s: &str) -> Option<Vec<Hop>> {
    if s.is_empty() {
        return Some(vec![]);
    }
    s.split(',')
        .map(|h| {
            let mut it = h.split('-');
            let x = it.next()?.parse::<usize>().ok()?;
            let y = it.next()?.parse::<usize>().ok()?;
            if it.next().is_some() || x >= NU || y >= NU {
                return None;
            }
            Some((x, y))
        })
        .collect()
}
fn idxs(ws: &[&str]) -> Option<Vec<usize>> {
    ws.iter().map(|w| w.parse::<usize>().ok().filter(|i| *i < NU)).collect()
}

impl World {
    fn init_line(&self) -> String {
        let mut s = format!("init registry n={NU}");
        for i in 0..NU {
            let kind = if is_native(i) { "n" } else if i >= NT { "a" } else { "c" };
            let dec = if is_native(i) || i >= NT { 0 } else { TOKEN_DEC[token_no(i)] };
            s += &format!(" a{}={}:{}:{}:{}:{}", i, kind, hex(&self.raw[i]), hex(&self.refb[i]), hex(self.label[i].as_bytes()), dec);
        }
        s
    }
    fn idx_of(&self, a: &AssetInfo) -> String {
        match self.assets.iter().position(|x| x == a) {
            Some(i) => i.to_string(),
            None => "?".into(),
        }
    }
    fn idx_list(&self, xs: &[AssetInfo]) -> Vec<usize> {
        xs.iter().map(|a| self.assets.iter().position(|x| x == a).unwrap_or(99)).collect()
    }
    fn lp_name(&self, a: &AssetInfo) -> String {
        match a {
            AssetInfo::Token { contract_addr } => {
                if let Some(s) = self.lp_ids.get(contract_addr) {
                    return s.clone();
                }
            }
            _ => {}
        }
        match self.assets.iter().position(|x| x == a) {
            Some(i) => format!("a{i}"),
            None => "x".into(),
        }
    }
    fn arr2(&self, i: usize, j: usize) -> [AssetInfo; 2] {
        [self.assets[i].clone(), self.assets[j].clone()]
    }
    fn arr3(&self, i: usize, j: usize, k: usize) -> [AssetInfo; 3] {
        [self.assets[i].clone(), self.assets[j].clone(), self.assets[k].clone()]
    }
    /// independent replica of the key: sorted raw byte strings, concatenated
    fn key_of(&self, xs: &[usize]) -> Vec<u8> {
        let mut bs: Vec<&Vec<u8>> = xs.iter().map(|i| &self.raw[*i]).collect();
        bs.sort();
        bs.into_iter().flatten().cloned().collect()
    }

    // ---------------------------------------------------------------- raw page queries
    fn q_pairs(&self, cursor: Option<[AssetInfo; 2]>, limit: Option<u32>) -> Vec<PairInfo> {
        let resp: f::PairsResponse = self.app.wrap().query_wasm_smart(&self.fac, &f::QueryMsg::Pairs { start_after: cursor, limit }).unwrap();
        resp.pairs
    }
    fn q_trios(&self, cursor: Option<[AssetInfo; 3]>, limit: Option<u32>) -> Vec<TrioInfo> {
        let resp: f::TriosResponse = self.app.wrap().query_wasm_smart(&self.fac, &f::QueryMsg::Trios { start_after: cursor, limit }).unwrap();
        resp.trios
    }
    fn q_vaults(&self, cursor: Option<Vec<u8>>, limit: Option<u32>) -> Vec<vf::VaultInfo> {
        let resp: vf::VaultsResponse = self.app.wrap().query_wasm_smart(&self.vfac, &vf::QueryMsg::Vaults { start_after: cursor, limit }).unwrap();
        resp.vaults
    }
    fn q_incs(&self, cursor: Option<AssetInfo>, limit: Option<u32>) -> Vec<ifac::IncentivesContract> {
        self.app.wrap().query_wasm_smart(&self.ifac, &ifac::QueryMsg::Incentives { start_after: cursor, limit }).unwrap()
    }
    fn inc_asset(&self, e: &ifac::IncentivesContract) -> Option<usize> {
        self.raw.iter().position(|b| *b == e.lp_reference)
    }

    /// generic page iteration: entries as strings (for pagination ops / monitors), `lim` as given
    /// kinds: 0 pairs, 1 trios, 2 vaults, 3 incentives. Returns the pages (each a list of asset-set labels).
    fn one_page(&self, kind: usize, cursor: &Option<Vec<usize>>, cursor_bytes: &Option<Vec<u8>>, lim: Option<u32>) -> Vec<Vec<usize>> {
        match kind {
            0 => self
                .q_pairs(cursor.as_ref().map(|c| self.arr2(c[0], c[1])), lim)
                .iter()
                .map(|e| self.idx_list(&e.asset_infos))
                .collect(),
            1 => self
                .q_trios(cursor.as_ref().map(|c| self.arr3(c[0], c[1], c[2])), lim)
                .iter()
                .map(|e| self.idx_list(&e.asset_infos))
                .collect(),
            2 => {
                let cur = match (cursor, cursor_bytes) {
                    (_, Some(b)) => Some(b.clone()),
                    (Some(c), None) => Some(self.refb[c[0]].clone()),
                    _ => None,
                };
                self.q_vaults(cur, lim).iter().map(|e| self.idx_list(&[e.asset_info.clone()])).collect()
            }
            _ => self
                .q_incs(cursor.as_ref().map(|c| self.assets[c[0]].clone()), lim)
                .iter()
                .map(|e| vec![self.inc_asset(e).unwrap_or(99)])
                .collect(),
        }
    }
    /// follow the cursor (= last entry of the previous page) until an empty page
    fn iterate_pages(&self, kind: usize, lim: Option<u32>, max_pages: usize) -> Vec<Vec<Vec<usize>>> {
        let mut pages = vec![];
        let mut cursor: Option<Vec<usize>> = None;
        for _ in 0..max_pages {
            let pg = self.one_page(kind, &cursor, &None, lim);
            if pg.is_empty() {
                break;
            }
            cursor = Some(pg.last().unwrap().clone());
            pages.push(pg);
        }
        pages
    }
    /// the whole listing: pages of the factory's maximum size, cursor = last entry, until an empty page
    fn full(&self, kind: usize) -> Vec<Vec<usize>> {
        self.iterate_pages(kind, Some(self.lims[kind].1 as u32), 64).into_iter().flatten().collect()
    }
    fn eff_limit(&self, kind: usize, l: Option<u32>) -> usize {
        (l.map(|x| x as usize).unwrap_or(self.lims[kind].0)).min(self.lims[kind].1)
    }

    // ---------------------------------------------------------------- the chain's contract table
    /// reads the contract table on from where the last read stopped (cw-multi-test numbers contracts
    /// `contract<k>` in instantiation order; a reverted transaction leaves no contract behind) and gives
    /// every new child its serial: its rank among the instances of its code
    fn scan(&mut self) {
        loop {
            let addr = format!("contract{}", self.insts.len());
            let code = match self.app.contract_data(&Addr::unchecked(addr.clone())) {
                Ok(d) => d.code_id as u64,
                Err(_) => break,
            };
            if code == self.codes[0] {
                let s = self.pair_serial.len();
                self.pair_serial.insert(addr.clone(), s);
                // the LP token id is taken from the child's own report
                if let Ok(c) = self.app.wrap().query_wasm_smart::<PairInfo>(&addr, &p::QueryMsg::Pair {}) {
                    if let AssetInfo::Token { contract_addr } = c.liquidity_token {
                        self.lp_ids.insert(contract_addr, format!("p{s}"));
                    }
                }
            } else if code == self.codes[1] {
                let s = self.trio_serial.len();
                self.trio_serial.insert(addr.clone(), s);
                if let Ok(c) = self.app.wrap().query_wasm_smart::<TrioInfo>(&addr, &t::QueryMsg::Trio {}) {
                    if let AssetInfo::Token { contract_addr } = c.liquidity_token {
                        self.lp_ids.insert(contract_addr, format!("t{s}"));
                    }
                }
            } else if code == self.codes[2] {
                let s = self.vault_serial.len();
                self.vault_serial.insert(addr.clone(), s);
            } else if code == self.codes[3] {
                let s = self.inc_serial.len();
                self.inc_serial.insert(addr.clone(), s);
            }
            self.insts.push((addr, code));
        }
    }
    /// instances of the pair / trio / vault / incentive / cw20 code
    fn counts(&mut self) -> [usize; 5] {
        self.scan();
        let mut c = [0usize; 5];
        for (_, code) in &self.insts {
            if let Some(k) = self.codes.iter().position(|x| x == code) {
                c[k] += 1;
            }
        }
        c
    }
    /// the asset set every instance of a child code reports about itself, counted per set
    fn children_by_key(&mut self, kind: usize) -> BTreeMap<Vec<usize>, usize> {
        self.scan();
        let mut m: BTreeMap<Vec<usize>, usize> = BTreeMap::new();
        for (addr, code) in &self.insts {
            if *code != self.codes[kind] {
                continue;
            }
            let key: Vec<usize> = match kind {
                0 => self.app.wrap().query_wasm_smart::<PairInfo>(addr, &p::QueryMsg::Pair {}).map(|c| self.idx_list(&c.asset_infos)).unwrap_or(vec![99]),
                1 => self.app.wrap().query_wasm_smart::<TrioInfo>(addr, &t::QueryMsg::Trio {}).map(|c| self.idx_list(&c.asset_infos)).unwrap_or(vec![99]),
                2 => self.app.wrap().query_wasm_smart::<v::Config>(addr, &v::QueryMsg::Config {}).map(|c| self.idx_list(&[c.asset_info])).unwrap_or(vec![99]),
                _ => self
                    .app
                    .wrap()
                    .query_wasm_smart::<white_whale_std::pool_network::incentive::Config>(addr, &white_whale_std::pool_network::incentive::QueryMsg::Config {})
                    .map(|c| self.idx_list(&[c.lp_asset]))
                    .unwrap_or(vec![99]),
            };
            *m.entry(canon(&key)).or_insert(0) += 1;
        }
        m
    }
    /// the newest instance of a child code
    fn newest(&self, kind: usize) -> Option<String> {
        self.insts.iter().rev().find(|(_, c)| *c == self.codes[kind]).map(|(a, _)| a.clone())
    }
    fn live_has(&self, kind: usize, set: &Vec<usize>) -> bool {
        match kind {
            0 => self.live_pairs.contains(set),
            1 => self.live_trios.contains(set),
            2 => self.live_vaults.contains(&set[0]),
            _ => self.live_incs.contains(&set[0]),
        }
    }
    fn live_len(&self, kind: usize) -> usize {
        match kind {
            0 => self.live_pairs.len(),
            1 => self.live_trios.len(),
            2 => self.live_vaults.len(),
            _ => self.live_incs.len(),
        }
    }
    /// where in the listing a registered key sits, as statistics labels (listing in key order, as returned)
    fn position_labels(&self, kind: usize, set: &Vec<usize>) -> Vec<&'static str> {
        let full = self.full(kind);
        let (d, m) = self.lims[kind];
        let n = full.len();
        let mut out = vec![];
        if let Some(p) = full.iter().position(|e| canon(e) == *set) {
            if p == 0 {
                out.push("first");
            }
            if p + 1 == n {
                out.push("last");
            }
            if p + 1 == d {
                out.push("default_page_last");
            }
            if p == d {
                out.push("default_page_next");
            }
            if p + 1 == m {
                out.push("max_page_last");
            }
            if p == m {
                out.push("max_page_next");
            }
            out.push(if p < d { "within_default_page" } else if p < m { "within_max_page" } else { "beyond_max_page" });
        } else {
            out.push("unlisted");
        }
        out
    }

    // ---------------------------------------------------------------- observation
    fn build_body(&mut self, mon: &mut Monitor) -> String {
        let mut out = String::new();
        self.scan();
        // native decimals allow-list (point queries for every universe asset's string)
        let decs: Vec<String> = (0..NU)
            .map(|i| {
                let denom = String::from_utf8(self.refb[i].clone()).unwrap();
                match self.app.wrap().query_wasm_smart::<f::NativeTokenDecimalsResponse>(&self.fac, &f::QueryMsg::NativeTokenDecimals { denom }) {
                    Ok(r) => r.decimals.to_string(),
                    Err(_) => "-".into(),
                }
            })
            .collect();
        out += &format!("decs={}", decs.join("."));

        // ---- pairs
        let mut pairs: Vec<PairInfo> = vec![];
        let mut cur = None;
        for _ in 0..64 {
            let pg = self.q_pairs(cur.clone(), Some(self.lims[0].1 as u32));
            if pg.is_empty() {
                break;
            }
            cur = Some(pg.last().unwrap().asset_infos.clone());
            pairs.extend(pg);
        }
        let mut seen: BTreeSet<Vec<usize>> = BTreeSet::new();
        let mut strs = vec![];
        let mut registered_pair_addrs = BTreeSet::new();
        for e in &pairs {
            let ix = self.idx_list(&e.asset_infos);
            let fresh = seen.insert(canon(&ix));
            mon.check("C19", "at_most_one_pair", fresh, || format!("two pair entries for the unordered asset set {:?}", canon(&ix)));
            if let Some(o) = self.orig[0].get(&canon(&ix)) {
                mon.check("C19", "pair_entry_points_to_original_child", *o == e.contract_addr, || {
                    format!("pair entry {:?} names child {} but the creation of this key instantiated {}", ix, e.contract_addr, o)
                });
            }
            registered_pair_addrs.insert(e.contract_addr.clone());
            let child: Result<PairInfo, _> = self.app.wrap().query_wasm_smart(&e.contract_addr, &p::QueryMsg::Pair {});
            let pool: Result<p::PoolResponse, _> = self.app.wrap().query_wasm_smart(&e.contract_addr, &p::QueryMsg::Pool {});
            let serial = self.pair_serial.get(&e.contract_addr).map(|s| s.to_string()).unwrap_or("?".into());
            let es = format!(
                "{}/{}/{}/c{}/{}",
                ix.iter().map(|i| i.to_string()).collect::<Vec<_>>().join("."),
                e.asset_decimals.iter().map(|d| d.to_string()).collect::<Vec<_>>().join("."),
                ptype_str(&e.pair_type),
                serial,
                self.lp_name(&e.liquidity_token)
            );
            let cs = match (&child, &pool) {
                (Ok(c), Ok(pl)) => {
                    let ok = c.asset_infos == e.asset_infos
                        && c.asset_decimals == e.asset_decimals
                        && c.pair_type == e.pair_type
                        && c.liquidity_token == e.liquidity_token
                        && c.contract_addr == e.contract_addr;
                    mon.check("C19", "pair_entry_eq_child_report", ok, || format!("factory entry {:?} != pair's own report {:?}", e, c));
                    // the LP token the child names is really its own: the pair is its minter
                    let minter_ok = match &c.liquidity_token {
                        AssetInfo::Token { contract_addr } => self
                            .app
                            .wrap()
                            .query_wasm_smart::<cw20::MinterResponse>(contract_addr, &cw20::Cw20QueryMsg::Minter {})
                            .map(|m| m.minter == e.contract_addr)
                            .unwrap_or(false),
                        _ => false,
                    };
                    mon.check("C19", "pair_lp_minter_is_child", minter_ok, || format!("LP token of {:?} is not minted by the pair", e));
                    let funded = pl.assets.iter().all(|a| !a.amount.is_zero());
                    format!(
                        "{}/{}/{}/{}/f{}",
                        self.idx_list(&c.asset_infos).iter().map(|i| i.to_string()).collect::<Vec<_>>().join("."),
                        c.asset_decimals.iter().map(|d| d.to_string()).collect::<Vec<_>>().join("."),
                        ptype_str(&c.pair_type),
                        self.lp_name(&c.liquidity_token),
                        funded as u8
                    )
                }
                _ => {
                    mon.check("C19", "pair_entry_eq_child_report", false, || format!("pair {} does not answer Pair/Pool", e.contract_addr));
                    "noreport".into()
                }
            };
            strs.push(format!("{es}|{cs}"));
        }
        mon.check("C19", "pairs_listing_matches_history", seen == self.live_pairs, || {
            format!("listed pair sets {:?} != created-and-not-removed {:?}", seen, self.live_pairs)
        });
        out += &format!(" pairs={}", if strs.is_empty() { "-".into() } else { strs.join(";") });
        // direct lookups agree with the listing, in both argument orders: every listed entry is what the
        // keyed query returns; every unlisted pair of core assets is not found
        for e in &pairs {
            let ix = self.idx_list(&e.asset_infos);
            if ix.iter().all(|i| *i < NT) {
                for sp in spellings(&ix) {
                    let (i, j) = (sp[0], sp[1]);
                    let got: Result<PairInfo, _> = self.app.wrap().query_wasm_smart(&self.fac, &f::QueryMsg::Pair { asset_infos: self.arr2(i, j) });
                    mon.check("C19", "pair_lookup_agrees_with_listing", got.as_ref().ok() == Some(e), || format!("Pair[{i},{j}] = {:?} but listing has {:?}", got, e));
                }
            }
        }
        for i in 0..N {
            for j in 0..N {
                if i == j || seen.contains(&canon(&[i, j])) {
                    continue;
                }
                let got: Result<PairInfo, _> = self.app.wrap().query_wasm_smart(&self.fac, &f::QueryMsg::Pair { asset_infos: self.arr2(i, j) });
                mon.check("C19", "pair_lookup_agrees_with_listing", got.is_err(), || format!("Pair[{i},{j}] = {:?} but the listing has no such entry", got));
            }
        }

        // ---- trios
        let mut trios: Vec<TrioInfo> = vec![];
        let mut cur = None;
        for _ in 0..64 {
            let pg = self.q_trios(cur.clone(), Some(self.lims[1].1 as u32));
            if pg.is_empty() {
                break;
            }
            cur = Some(pg.last().unwrap().asset_infos.clone());
            trios.extend(pg);
        }
        let mut seen: BTreeSet<Vec<usize>> = BTreeSet::new();
        let mut strs = vec![];
        for e in &trios {
            let ix = self.idx_list(&e.asset_infos);
            let fresh = seen.insert(canon(&ix));
            mon.check("C19", "at_most_one_trio", fresh, || format!("two trio entries for the unordered asset set {:?}", canon(&ix)));
            if let Some(o) = self.orig[1].get(&canon(&ix)) {
                mon.check("C19", "trio_entry_points_to_original_child", *o == e.contract_addr, || {
                    format!("trio entry {:?} names child {} but the creation of this key instantiated {}", ix, e.contract_addr, o)
                });
            }
            let child: Result<TrioInfo, _> = self.app.wrap().query_wasm_smart(&e.contract_addr, &t::QueryMsg::Trio {});
            let serial = self.trio_serial.get(&e.contract_addr).map(|s| s.to_string()).unwrap_or("?".into());
            let es = format!(
                "{}/{}/c{}/{}",
                ix.iter().map(|i| i.to_string()).collect::<Vec<_>>().join("."),
                e.asset_decimals.iter().map(|d| d.to_string()).collect::<Vec<_>>().join("."),
                serial,
                self.lp_name(&e.liquidity_token)
            );
            let cs = match &child {
                Ok(c) => {
                    let ok = c.asset_infos == e.asset_infos
                        && c.asset_decimals == e.asset_decimals
                        && c.liquidity_token == e.liquidity_token
                        && c.contract_addr == e.contract_addr;
                    mon.check("C19", "trio_entry_eq_child_report", ok, || format!("factory entry {:?} != trio's own report {:?}", e, c));
                    let minter_ok = match &c.liquidity_token {
                        AssetInfo::Token { contract_addr } => self
                            .app
                            .wrap()
                            .query_wasm_smart::<cw20::MinterResponse>(contract_addr, &cw20::Cw20QueryMsg::Minter {})
                            .map(|m| m.minter == e.contract_addr)
                            .unwrap_or(false),
                        _ => false,
                    };
                    mon.check("C19", "trio_lp_minter_is_child", minter_ok, || format!("LP token of {:?} is not minted by the trio", e));
                    format!(
                        "{}/{}/{}",
                        self.idx_list(&c.asset_infos).iter().map(|i| i.to_string()).collect::<Vec<_>>().join("."),
                        c.asset_decimals.iter().map(|d| d.to_string()).collect::<Vec<_>>().join("."),
                        self.lp_name(&c.liquidity_token)
                    )
                }
                _ => {
                    mon.check("C19", "trio_entry_eq_child_report", false, || format!("trio {} does not answer Trio", e.contract_addr));
                    "noreport".into()
                }
            };
            strs.push(format!("{es}|{cs}"));
            // lookups in all six orders return this very entry
            let c = &ix;
            if c.iter().all(|i| *i < NT) {
                for pm in spellings(c) {
                    let got: Result<TrioInfo, _> = self.app.wrap().query_wasm_smart(&self.fac, &f::QueryMsg::Trio { asset_infos: self.arr3(pm[0], pm[1], pm[2]) });
                    mon.check("C19", "trio_lookup_agrees_with_listing", got.as_ref().ok() == Some(e), || {
                        format!("Trio{:?} named {:?} = {:?} but listing has {:?}", c, pm, got, e)
                    });
                }
            }
        }
        mon.check("C19", "trios_listing_matches_history", seen == self.live_trios, || {
            format!("listed trio sets {:?} != created-and-not-removed {:?}", seen, self.live_trios)
        });
        // unregistered triples are not found
        for i in 0..N {
            for j in (i + 1)..N {
                for k in (j + 1)..N {
                    if !seen.contains(&vec![i, j, k]) {
                        let got: Result<TrioInfo, _> = self.app.wrap().query_wasm_smart(&self.fac, &f::QueryMsg::Trio { asset_infos: self.arr3(k, i, j) });
                        mon.check("C19", "trio_lookup_agrees_with_listing", got.is_err(), || format!("Trio[{k},{i},{j}] found but not listed"));
                    }
                }
            }
        }
        out += &format!(" trios={}", if strs.is_empty() { "-".into() } else { strs.join(";") });

        // ---- vaults
        let mut vaults: Vec<vf::VaultInfo> = vec![];
        let mut cur: Option<Vec<u8>> = None;
        for _ in 0..64 {
            let pg = self.q_vaults(cur.clone(), Some(self.lims[2].1 as u32));
            if pg.is_empty() {
                break;
            }
            cur = Some(pg.last().unwrap().asset_info_reference.clone());
            vaults.extend(pg);
        }
        let mut seen_v: BTreeSet<usize> = BTreeSet::new();
        let mut strs = vec![];
        for e in &vaults {
            let a = self.assets.iter().position(|x| *x == e.asset_info).unwrap_or(99);
            let fresh = seen_v.insert(a);
            mon.check("C19", "at_most_one_vault", fresh, || format!("two vault entries for asset {a}"));
            if let Some(o) = self.orig[2].get(&vec![a]) {
                mon.check("C19", "vault_entry_points_to_original_child", *o == e.vault, || {
                    format!("vault entry {a} names child {} but the creation of this key instantiated {}", e.vault, o)
                });
            }
            let cfg: Result<v::Config, _> = self.app.wrap().query_wasm_smart(&e.vault, &v::QueryMsg::Config {});
            let serial = self.vault_serial.get(&e.vault).map(|s| s.to_string()).unwrap_or("?".into());
            let ok = match &cfg {
                Ok(c) => c.asset_info == e.asset_info && a < NT && e.asset_info_reference == self.refb[a],
                Err(_) => false,
            };
            mon.check("C19", "vault_entry_eq_child_report", ok, || format!("vault entry {:?} != vault's own config {:?}", e, cfg));
            let rep = cfg.as_ref().map(|c| self.idx_of(&c.asset_info)).unwrap_or("noreport".into());
            strs.push(format!("{a}/c{serial}|{rep}"));
        }
        mon.check("C19", "vaults_listing_matches_history", seen_v == self.live_vaults, || {
            format!("listed vaults {:?} != created-and-not-removed {:?}", seen_v, self.live_vaults)
        });
        for i in 0..NU {
            if i == NN - 1 {
                // the look-alike native denom: the vault factory answers with the cw20 token's vault (same key
                // bytes) — an observation, see `next_op`
                continue;
            }
            let got: Option<String> = self.app.wrap().query_wasm_smart(&self.vfac, &vf::QueryMsg::Vault { asset_info: self.assets[i].clone() }).unwrap();
            let listed = vaults.iter().find(|e| e.asset_info == self.assets[i]).map(|e| e.vault.clone());
            mon.check("C19", "vault_lookup_agrees_with_listing", got == listed, || format!("Vault[{i}] = {:?} but listing has {:?}", got, listed));
        }
        out += &format!(" vaults={}", if strs.is_empty() { "-".into() } else { strs.join(";") });

        // ---- incentives
        let mut incs: Vec<ifac::IncentivesContract> = vec![];
        let mut cur: Option<AssetInfo> = None;
        for _ in 0..64 {
            let pg = self.q_incs(cur.clone(), Some(self.lims[3].1 as u32));
            if pg.is_empty() {
                break;
            }
            // the cursor is an asset: the one whose raw bytes the last entry carries
            cur = match self.inc_asset(pg.last().unwrap()) {
                Some(i) => Some(self.assets[i].clone()),
                None => {
                    incs.extend(pg);
                    break;
                }
            };
            incs.extend(pg);
        }
        let mut seen_i: BTreeSet<usize> = BTreeSet::new();
        let mut strs = vec![];
        for e in &incs {
            let a = self.inc_asset(e).unwrap_or(99);
            let fresh = seen_i.insert(a);
            mon.check("C19", "at_most_one_incentive", fresh, || format!("two incentive entries for lp asset {a}"));
            if let Some(o) = self.orig[3].get(&vec![a]) {
                mon.check("C19", "incentive_entry_points_to_original_child", *o == e.incentive_address.as_str(), || {
                    format!("incentive entry {a} names child {} but the creation of this key instantiated {}", e.incentive_address, o)
                });
            }
            let cfg: Result<white_whale_std::pool_network::incentive::Config, _> =
                self.app.wrap().query_wasm_smart(&e.incentive_address, &white_whale_std::pool_network::incentive::QueryMsg::Config {});
            let serial = self.inc_serial.get(e.incentive_address.as_str()).map(|s| s.to_string()).unwrap_or("?".into());
            let ok = match &cfg {
                Ok(c) => a < NT && c.lp_asset == self.assets[a] && c.factory_address == self.ifac,
                Err(_) => false,
            };
            mon.check("C19", "incentive_entry_eq_child_report", ok, || format!("incentive entry {:?} != incentive's own config {:?}", e, cfg));
            let rep = cfg.as_ref().map(|c| self.idx_of(&c.lp_asset)).unwrap_or("noreport".into());
            strs.push(format!("{a}/c{serial}|{rep}"));
        }
        mon.check("C19", "incentives_listing_matches_history", seen_i == self.live_incs, || {
            format!("listed incentives {:?} != created {:?}", seen_i, self.live_incs)
        });
        for i in 0..NU {
            // (an address spelling of a token names the token's entry)
            let got: Option<Addr> = self.app.wrap().query_wasm_smart(&self.ifac, &ifac::QueryMsg::Incentive { lp_asset: self.assets[i].clone() }).unwrap();
            let listed = incs.iter().find(|e| self.inc_asset(e) == Some(base(i))).map(|e| e.incentive_address.clone());
            mon.check("C19", "incentive_lookup_agrees_with_listing", got == listed, || format!("Incentive[{i}] = {:?} but listing has {:?}", got, listed));
        }
        out += &format!(" incs={}", if strs.is_empty() { "-".into() } else { strs.join(";") });

        // ---- routes
        let routes: Vec<r::SwapRouteResponse> = self.app.wrap().query_wasm_smart(&self.router, &r::QueryMsg::SwapRoutes {}).unwrap();
        let strs: Vec<String> = routes
            .iter()
            .map(|rt| {
                let hops: Vec<String> = rt
                    .swap_route
                    .iter()
                    .map(|op| match op {
                        r::SwapOperation::TerraSwap { offer_asset_info, ask_asset_info } => {
                            format!("{}-{}", self.idx_of(offer_asset_info), self.idx_of(ask_asset_info))
                        }
                    })
                    .collect();
                format!("{}>{}:{}", hex(rt.offer_asset.as_bytes()), hex(rt.ask_asset.as_bytes()), hops.join(","))
            })
            .collect();
        out += &format!(" routes={}", if strs.is_empty() { "-".into() } else { strs.join(";") });
        let _ = registered_pair_addrs;
        // ---- contract instances per child code (pair, trio, vault, incentive, cw20), from the chain's table
        let k = self.counts();
        out += &format!(" kids={}", k.iter().map(|x| x.to_string()).collect::<Vec<_>>().join("."));
        // registry sizes this observation was made at, relative to the factories' page sizes
        for (kind, n) in [pairs.len(), trios.len(), vaults.len(), incs.len()].into_iter().enumerate() {
            mon.stat(&format!("obs_with_{}_size_{}", KIND[kind], size_bucket(n, self.lims[kind])));
        }
        out
    }

    /// provide liquidity: 1000 whole tokens a side, by the decimals the entry records
    fn fund_pair(&mut self, e: &PairInfo, mon: &mut Monitor) -> &'static str {
        let owner = self.owner.clone();
        let pair = Addr::unchecked(e.contract_addr.clone());
        let mut funds = vec![];
        let mut assets = vec![];
        let mut ok = true;
        for k in 0..2 {
            let amt = 1000u128 * 10u128.pow((e.asset_decimals[k] as u32).min(24));
            assets.push(Asset { info: e.asset_infos[k].clone(), amount: Uint128::new(amt) });
            match &e.asset_infos[k] {
                AssetInfo::NativeToken { denom } => funds.push(coin(amt, denom.clone())),
                AssetInfo::Token { contract_addr } => {
                    let r = self.app.execute_contract(
                        owner.clone(),
                        Addr::unchecked(contract_addr.clone()),
                        &cw20::Cw20ExecuteMsg::IncreaseAllowance { spender: pair.to_string(), amount: Uint128::new(amt), expires: None },
                        &[],
                    );
                    ok &= r.is_ok();
                }
            }
        }
        funds.sort_by(|a, b| a.denom.cmp(&b.denom));
        let msg = p::ExecuteMsg::ProvideLiquidity { assets: [assets[0].clone(), assets[1].clone()], slippage_tolerance: None, receiver: None };
        let o = guarded(|| self.app.execute_contract(owner, pair, &msg, &funds));
        if let Outcome::Err(e) = &o {
            mon.stat(&format!("fund_err:{}", &e[..e.len().min(60)]));
        }
        if ok {
            show(&o)
        } else {
            "err"
        }
    }

    /// the whole `Pairs` listing (pages of the maximum size, to the end)
    fn all_pairs(&self) -> Vec<PairInfo> {
        let mut pairs: Vec<PairInfo> = vec![];
        let mut cur = None;
        for _ in 0..64 {
            let pg = self.q_pairs(cur.clone(), Some(self.lims[0].1 as u32));
            if pg.is_empty() {
                break;
            }
            cur = Some(pg.last().unwrap().asset_infos.clone());
            pairs.extend(pg);
        }
        pairs
    }
    fn registered_pair_addrs(&self) -> BTreeSet<String> {
        self.all_pairs().into_iter().map(|e| e.contract_addr).collect()
    }

    fn stored_route_keys(&self) -> Vec<String> {
        let routes: Vec<r::SwapRouteResponse> = self.app.wrap().query_wasm_smart(&self.router, &r::QueryMsg::SwapRoutes {}).unwrap();
        routes.iter().map(|x| format!("{:?}", x)).collect()
    }

    fn hops_msg(&self, hops: &[Hop]) -> Vec<r::SwapOperation> {
        hops.iter()
            .map(|(x, y)| r::SwapOperation::TerraSwap { offer_asset_info: self.assets[*x].clone(), ask_asset_info: self.assets[*y].clone() })
            .collect()
    }

    /// the trader offers one whole token of the first hop's offer asset through the router
    fn do_swap(&mut self, hops: &[Hop], mon: &mut Monitor) -> Outcome<()> {
        let ops = self.hops_msg(hops);
        let registered_before = self.registered_pair_addrs();
        let all_live = hops.iter().all(|(x, y)| self.live_pairs.contains(&canon(&[*x, *y])));
        let first = hops.first().map(|h| h.0).unwrap_or(0);
        // amount: 10^decimals of the offered asset as recorded by some registered pair, else 10^6
        let dec = self
            .all_pairs()
            .iter()
            .find_map(|e| e.asset_infos.iter().position(|a| *a == self.assets[first]).map(|k| e.asset_decimals[k]))
            .unwrap_or(6);
        let amount = 10u128.pow(dec.min(24) as u32);
        let (trader, router) = (self.trader.clone(), self.router.clone());
        let res = match self.assets[first].clone() {
            AssetInfo::NativeToken { denom } => {
                let msg = r::ExecuteMsg::ExecuteSwapOperations { operations: ops, minimum_receive: None, to: None, max_spread: Some(Decimal::percent(50)) };
                guarded(|| self.app.execute_contract(trader, router, &msg, &[coin(amount, denom)]))
            }
            AssetInfo::Token { contract_addr } => {
                let hook = r::Cw20HookMsg::ExecuteSwapOperations { operations: ops, minimum_receive: None, to: None, max_spread: Some(Decimal::percent(50)) };
                let msg = cw20::Cw20ExecuteMsg::Send { contract: router.to_string(), amount: Uint128::new(amount), msg: to_json_binary(&hook).unwrap() };
                guarded(|| self.app.execute_contract(trader, Addr::unchecked(contract_addr), &msg, &[]))
            }
        };
        match res {
            Outcome::Ok(resp) => {
                // every swap was executed by a contract that the factory lists as a pair
                let swappers: Vec<String> = resp
                    .events
                    .iter()
                    .filter(|e| e.ty == "wasm" && e.attributes.iter().any(|a| a.key == "action" && a.value == "swap"))
                    .filter_map(|e| e.attributes.iter().find(|a| a.key == "_contract_addr").map(|a| a.value.clone()))
                    .collect();
                mon.check("C19", "hop_through_registered_only", swappers.iter().all(|s| registered_before.contains(s)) && swappers.len() == hops.len(), || {
                    format!("swap {:?} executed by {:?}, registered pairs {:?}", hops, swappers, registered_before)
                });
                mon.check("C19", "swap_needs_every_hop_registered", all_live, || format!("swap {:?} succeeded although a hop's pair is not registered", hops));
                mon.stat("swap_executed");
                mon.stat(&format!("swap_ok_hops_{}", hops.len()));
                Outcome::Ok(())
            }
            Outcome::Err(e) => {
                if !all_live {
                    mon.stat("swap_rejected_unregistered_hop");
                }
                Outcome::Err(e)
            }
            Outcome::Panic => Outcome::Panic,
        }
    }
}

#[derive(Default)]
pub struct Registry {
    w: Option<World>,
    queue: VecDeque<String>,
    case_kind: u64,
    ncase: u64,
    /// keys a `GROW` placeholder has already tried in this case (a vault creation may fail for good)
    grow_tried: BTreeSet<(usize, Vec<usize>)>,
    /// the entry the last `RMPOS` placeholder removed: (kind, sorted key, creation parameter)
    last_removed: Option<(usize, Vec<usize>, String)>,
    /// where this run starts in the rotation of (registry kind, size class) of the grow-and-duplicate
    /// scenario (drawn once per run, so that shards of a few dozen cases together cover every combination)
    rot: Option<u64>,
}

fn show<T>(o: &Outcome<T>) -> &'static str {
    match o {
        Outcome::Ok(_) => "ok",
        Outcome::Err(_) => "err",
        Outcome::Panic => "panic",
    }
}

fn lim_of(s: &str) -> Option<Option<u32>> {
    if s == "none" {
        Some(None)
    } else {
        s.parse::<u32>().ok().map(Some)
    }
}
fn show_sets(pg: &[Vec<usize>]) -> String {
    if pg.is_empty() {
        return "-".into();
    }
    pg.iter().map(|e| e.iter().map(|i| i.to_string()).collect::<Vec<_>>().join(".")).collect::<Vec<_>>().join(",")
}

impl Registry {
    /// pagination monitors for one registry kind: every limit, every cursor
    fn pagination_sweep(w: &World, kind: usize, mon: &mut Monitor) {
        let name = ["pairs", "trios", "vaults", "incentives"][kind];
        let full = w.full(kind);
        let n = full.len();
        // keys of the listed entries (independent replica) and the cursor-gap precondition
        let keys: Vec<Vec<u8>> = full
            .iter()
            .map(|e| match kind {
                0 | 1 => w.key_of(e),
                2 => w.refb[e[0]].clone(),
                _ => w.raw[e[0]].clone(),
            })
            .collect();
        let sorted = keys.windows(2).all(|x| x[0] < x[1]);
        mon.check("C19", &format!("{name}_listing_sorted_by_key"), sorted, || format!("{name} listing not in key order"));
        let nogap = keys.iter().all(|k| {
            let mut b = k.clone();
            b.push(1);
            !keys.iter().any(|k2| k2 > k && *k2 <= b)
        });
        if !nogap {
            mon.stat("pagination_precondition_nogap_false");
            return;
        }
        let (dflt, max) = w.lims[kind];
        let limits: Vec<Option<u32>> = std::iter::once(None).chain((1..=(max as u32 + 2)).map(Some)).chain([Some(100), Some(u32::MAX)]).collect();
        for l in limits {
            let pages = w.iterate_pages(kind, l, n + 3);
            let cat: Vec<Vec<usize>> = pages.iter().flatten().cloned().collect();
            let e = w.eff_limit(kind, l);
            let sizes_ok = pages.iter().enumerate().all(|(i, pg)| if i + 1 < pages.len() { pg.len() == e } else { pg.len() <= e && !pg.is_empty() });
            mon.check("C19", &format!("{name}_pagination_exactly_once"), cat == full && sizes_ok, || {
                format!("{name} limit {:?}: pages {:?} vs full listing {:?}", l, pages, full)
            });
        }
        let zero = w.one_page(kind, &None, &None, Some(0));
        mon.check("C19", &format!("{name}_limit_zero_empty"), zero.is_empty(), || format!("{name} limit 0 returned {:?}", zero));
        // every registered entry as cursor (in every argument order), limits 1, 3, 30, default
        for (pos, e) in full.iter().enumerate() {
            // (the vault factory keys by the address string: there a spelling is a key of its own)
            let perms: Vec<Vec<usize>> = if kind == 2 { vec![e.clone()] } else { spellings(e) };
            for c in perms {
                for l in [Some(1), Some(3), Some(max as u32), None] {
                    let pg = w.one_page(kind, &Some(c.clone()), &None, l);
                    let want: Vec<Vec<usize>> = full.iter().skip(pos + 1).take(w.eff_limit(kind, l)).cloned().collect();
                    mon.check("C19", &format!("{name}_page_after_cursor"), pg == want, || {
                        format!("{name} start_after {:?} limit {:?}: got {:?}, want {:?}", c, l, pg, want)
                    });
                }
            }
        }
        mon.stat(&format!("sweep_{name}_size_{}", size_bucket(n, (dflt, max))));
    }

    /// what a create op may do to the chain's contract table, whatever the registry: a successful create
    /// instantiates exactly one child (and its LP token), a create naming a registered key none at all;
    /// the ghost remembers the child a fresh key got. `pre` = (instance counts, position labels of the key
    /// in the listing, registry size) before the op.
    fn after_create(w: &mut World, kind: usize, set: &Vec<usize>, was_live: bool, pre: &([usize; 5], Vec<&'static str>, usize), ok: bool, mon: &mut Monitor) {
        let (before, pos, size_before) = pre;
        let after = w.counts();
        let kn = KNAME[kind];
        if ok {
            let mut want = *before;
            want[kind] += 1;
            if kind < 3 {
                want[4] += 1; // the child's LP token (cw20: `token_factory_lp` is false)
            }
            mon.check("C19", "create_instantiates_exactly_one_child", after == want, || {
                format!("successful create_{kn} {:?}: contract instances [pair,trio,vault,incentive,cw20] {:?} -> {:?}", set, before, after)
            });
        }
        if was_live {
            mon.check("C19", &format!("duplicate_{kn}_no_new_child"), after == *before, || {
                format!("create_{kn} {:?} names a registered key; contract instances [pair,trio,vault,incentive,cw20] {:?} -> {:?}", set, before, after)
            });
            let by_key = w.children_by_key(kind);
            mon.check("C19", &format!("{kn}_children_match_creations"), by_key == w.born[kind], || {
                format!("{kn} contracts per reported key {:?} != creations of unregistered keys {:?}", by_key, w.born[kind])
            });
            for l in pos {
                mon.stat(&format!("dup_{kn}_attempt_at_{l}"));
            }
            mon.stat(&format!("dup_{kn}_attempt_size_{}", size_bucket(*size_before, w.lims[kind])));
        } else if ok {
            if let Some(a) = w.newest(kind) {
                w.orig[kind].insert(set.clone(), a);
            }
            *w.born[kind].entry(set.clone()).or_insert(0) += 1;
        }
    }
    fn before_create(w: &mut World, kind: usize, set: &Vec<usize>, was_live: bool) -> ([usize; 5], Vec<&'static str>, usize) {
        (w.counts(), if was_live { w.position_labels(kind, set) } else { vec![] }, w.live_len(kind))
    }

    fn run_op(&mut self, ws: &[&str], mon: &mut Monitor) -> Option<String> {
        let w = self.w.as_mut()?;
        let owner = w.owner.clone();
        let c0 = w.counts();
        let pool_fees = p::PoolFee { protocol_fee: fee(1), swap_fee: fee(2), burn_fee: fee(0) };
        let trio_fees = t::PoolFee { protocol_fee: fee(1), swap_fee: fee(2), burn_fee: fee(0) };
        let outcome: &'static str = match ws[0] {
            "add_dec" => {
                if ws.len() != 3 {
                    return None;
                }
                let i = idxs(&ws[1..2])?[0];
                let d = ws[2].parse::<u8>().ok()?;
                let denom = String::from_utf8(w.refb[i].clone()).unwrap();
                let fac = w.fac.clone();
                let o = guarded(|| w.app.execute_contract(owner, fac, &f::ExecuteMsg::AddNativeTokenDecimals { denom, decimals: d }, &[]));
                show(&o)
            }
            "create_pair" => {
                if ws.len() != 4 {
                    return None;
                }
                let ix = idxs(&ws[1..3])?;
                let pt = parse_ptype(ws[3])?;
                let set = canon(&ix);
                let was_live = w.live_pairs.contains(&set);
                let fac = w.fac.clone();
                let msg = f::ExecuteMsg::CreatePair { asset_infos: w.arr2(ix[0], ix[1]), pool_fees, pair_type: pt, token_factory_lp: false };
                let pre = Self::before_create(w, 0, &set, was_live);
                let o = guarded(|| w.app.execute_contract(owner, fac, &msg, &[]));
                Self::after_create(w, 0, &set, was_live, &pre, matches!(o, Outcome::Ok(_)), mon);
                if was_live {
                    mon.check("C19", "duplicate_pair_rejected", !matches!(o, Outcome::Ok(_)), || {
                        format!("create_pair {:?} succeeded while the unordered set {:?} is registered", ix, set)
                    });
                    mon.stat("dup_pair_attempt");
                    if ix.iter().any(|i| *i >= NT) {
                        mon.stat("dup_pair_attempt_address_spelling");
                    }
                    if ix != w.idx_list(&w.all_pairs().iter().find(|e| canon(&w.idx_list(&e.asset_infos)) == set).map(|e| e.asset_infos.to_vec()).unwrap_or_default()) {
                        mon.stat("dup_pair_attempt_other_order");
                    }
                } else if let Some(prev) = w.made_pairs.get(&set) {
                    // removed earlier; same parameters as the creation that succeeded (and every asset named by
                    // an address a contract answers at)
                    if prev == ws[3] && ix.iter().all(|i| *i < NT) {
                        mon.check("C19", "removed_pair_recreatable", matches!(o, Outcome::Ok(_)), || {
                            format!("re-create of removed pair {:?} ({}) failed: {}", ix, ws[3], show(&o))
                        });
                        mon.stat("recreate_pair");
                    }
                }
                if let Outcome::Ok(_) = &o {
                    w.live_pairs.insert(set.clone());
                    w.made_pairs.insert(set, ws[3].to_string());
                    mon.stat(&format!("pair_created_{}", if ws[3] == "cp" { "cp" } else { "ss" }));
                    // engine convention (mirrored by the model): a StableSwap pair gets its liquidity in the
                    // creating op, because a simulation on an empty StableSwap pool errs or not depending on the amount
                    if ws[3] != "cp" {
                        if let Ok(e) = w.app.wrap().query_wasm_smart::<PairInfo>(&w.fac, &f::QueryMsg::Pair { asset_infos: w.arr2(ix[0], ix[1]) }) {
                            if w.fund_pair(&e, mon) != "ok" {
                                mon.stat("ss_pair_funding_failed");
                            }
                        }
                    }
                }
                show(&o)
            }
            "create_trio" => {
                if ws.len() != 5 {
                    return None;
                }
                let ix = idxs(&ws[1..4])?;
                let amp = ws[4].parse::<u64>().ok()?;
                let set = canon(&ix);
                let was_live = w.live_trios.contains(&set);
                let fac = w.fac.clone();
                let msg = f::ExecuteMsg::CreateTrio { asset_infos: w.arr3(ix[0], ix[1], ix[2]), pool_fees: trio_fees, amp_factor: amp, token_factory_lp: false };
                let pre = Self::before_create(w, 1, &set, was_live);
                let o = guarded(|| w.app.execute_contract(owner, fac, &msg, &[]));
                Self::after_create(w, 1, &set, was_live, &pre, matches!(o, Outcome::Ok(_)), mon);
                if was_live {
                    mon.check("C19", "duplicate_trio_rejected", !matches!(o, Outcome::Ok(_)), || {
                        format!("create_trio {:?} succeeded while the unordered set {:?} is registered", ix, set)
                    });
                    mon.stat("dup_trio_attempt");
                    if ix.iter().any(|i| *i >= NT) {
                        mon.stat("dup_trio_attempt_address_spelling");
                    }
                } else if let Some(prev) = w.made_trios.get(&set) {
                    if prev == ws[4] && ix.iter().all(|i| *i < NT) {
                        mon.check("C19", "removed_trio_recreatable", matches!(o, Outcome::Ok(_)), || {
                            format!("re-create of removed trio {:?} failed: {}", ix, show(&o))
                        });
                        mon.stat("recreate_trio");
                    }
                }
                if let Outcome::Ok(_) = &o {
                    w.live_trios.insert(set.clone());
                    w.made_trios.insert(set, ws[4].to_string());
                    mon.stat("trio_created");
                }
                show(&o)
            }
            "remove_pair" => {
                if ws.len() != 3 {
                    return None;
                }
                let ix = idxs(&ws[1..3])?;
                let set = canon(&ix);
                let fac = w.fac.clone();
                let msg = f::ExecuteMsg::RemovePair { asset_infos: w.arr2(ix[0], ix[1]) };
                let o = guarded(|| w.app.execute_contract(owner, fac, &msg, &[]));
                // the key is the unordered set: a registered pair can be removed whatever order the
                // assets are named in
                if w.live_pairs.contains(&set) {
                    mon.check("C19", "remove_registered_any_order", matches!(o, Outcome::Ok(_)), || format!("remove_pair {:?} of a registered pair was refused", ix));
                }
                if let Outcome::Ok(_) = &o {
                    mon.check("C19", "remove_only_registered", w.live_pairs.contains(&set), || format!("remove_pair {:?} succeeded but the set was not registered", ix));
                    w.live_pairs.remove(&set);
                    w.orig[0].remove(&set);
                    if ix.iter().any(|i| *i >= NT) {
                        mon.stat("pair_removed_by_address_spelling");
                    }
                    let gone = w.app.wrap().query_wasm_smart::<PairInfo>(&w.fac, &f::QueryMsg::Pair { asset_infos: w.arr2(ix[1], ix[0]) }).is_err();
                    mon.check("C19", "removed_pair_absent", gone, || format!("pair {:?} still found after remove", ix));
                    mon.stat("pair_removed");
                }
                show(&o)
            }
            "remove_trio" => {
                if ws.len() != 4 {
                    return None;
                }
                let ix = idxs(&ws[1..4])?;
                let set = canon(&ix);
                let fac = w.fac.clone();
                let msg = f::ExecuteMsg::RemoveTrio { asset_infos: w.arr3(ix[0], ix[1], ix[2]) };
                let o = guarded(|| w.app.execute_contract(owner, fac, &msg, &[]));
                if w.live_trios.contains(&set) {
                    mon.check("C19", "remove_registered_any_order", matches!(o, Outcome::Ok(_)), || format!("remove_trio {:?} of a registered trio was refused", ix));
                }
                if let Outcome::Ok(_) = &o {
                    mon.check("C19", "remove_only_registered", w.live_trios.contains(&set), || format!("remove_trio {:?} succeeded but the set was not registered", ix));
                    w.live_trios.remove(&set);
                    w.orig[1].remove(&set);
                    if ix.iter().any(|i| *i >= NT) {
                        mon.stat("trio_removed_by_address_spelling");
                    }
                    let gone = w.app.wrap().query_wasm_smart::<TrioInfo>(&w.fac, &f::QueryMsg::Trio { asset_infos: w.arr3(ix[2], ix[0], ix[1]) }).is_err();
                    mon.check("C19", "removed_trio_absent", gone, || format!("trio {:?} still found after remove", ix));
                    mon.stat("trio_removed");
                }
                show(&o)
            }
            "fund" => {
                // provide liquidity (1000 whole tokens a side, by the decimals the entry records) to the registered pair
                if ws.len() != 3 {
                    return None;
                }
                let ix = idxs(&ws[1..3])?;
                let e: Result<PairInfo, _> = w.app.wrap().query_wasm_smart(&w.fac, &f::QueryMsg::Pair { asset_infos: w.arr2(ix[0], ix[1]) });
                match e {
                    Err(_) => "err",
                    Ok(e) => w.fund_pair(&e, mon),
                }
            }
            "create_vault" => {
                if ws.len() != 2 {
                    return None;
                }
                let i = idxs(&ws[1..2])?[0];
                let was_live = w.live_vaults.contains(&i);
                let vfac = w.vfac.clone();
                let msg = vf::ExecuteMsg::CreateVault {
                    asset_info: w.assets[i].clone(),
                    fees: VaultFee { protocol_fee: fee(1), flash_loan_fee: fee(1), burn_fee: fee(0) },
                    token_factory_lp: false,
                };
                let pre = Self::before_create(w, 2, &vec![i], was_live);
                let o = guarded(|| w.app.execute_contract(owner, vfac, &msg, &[]));
                Self::after_create(w, 2, &vec![i], was_live, &pre, matches!(o, Outcome::Ok(_)), mon);
                if was_live {
                    mon.check("C19", "duplicate_vault_rejected", !matches!(o, Outcome::Ok(_)), || format!("create_vault {i} succeeded while registered"));
                    mon.stat("dup_vault_attempt");
                } else if w.made_vaults.contains(&i) {
                    mon.check("C19", "removed_vault_recreatable", matches!(o, Outcome::Ok(_)), || format!("re-create of removed vault {i} failed"));
                    mon.stat("recreate_vault");
                }
                if let Outcome::Ok(_) = &o {
                    w.live_vaults.insert(i);
                    w.made_vaults.insert(i);
                    mon.stat("vault_created");
                }
                show(&o)
            }
            "remove_vault" => {
                if ws.len() != 2 {
                    return None;
                }
                let i = idxs(&ws[1..2])?[0];
                let vfac = w.vfac.clone();
                let msg = vf::ExecuteMsg::RemoveVault { asset_info: w.assets[i].clone() };
                let o = guarded(|| w.app.execute_contract(owner, vfac, &msg, &[]));
                if let Outcome::Ok(_) = &o {
                    mon.check("C19", "remove_only_registered", w.live_vaults.contains(&i), || format!("remove_vault {i} succeeded but was not registered"));
                    w.live_vaults.remove(&i);
                    w.orig[2].remove(&vec![i]);
                    let got: Option<String> = w.app.wrap().query_wasm_smart(&w.vfac, &vf::QueryMsg::Vault { asset_info: w.assets[i].clone() }).unwrap();
                    mon.check("C19", "removed_vault_absent", got.is_none(), || format!("vault {i} still found after remove"));
                    mon.stat("vault_removed");
                }
                show(&o)
            }
            "create_incentive" => {
                if ws.len() != 2 {
                    return None;
                }
                let i = idxs(&ws[1..2])?[0];
                let was_live = w.live_incs.contains(&base(i));
                let ifa = w.ifac.clone();
                let msg = ifac::ExecuteMsg::CreateIncentive { lp_asset: w.assets[i].clone() };
                let pre = Self::before_create(w, 3, &vec![base(i)], was_live);
                let o = guarded(|| w.app.execute_contract(owner, ifa, &msg, &[]));
                Self::after_create(w, 3, &vec![base(i)], was_live, &pre, matches!(o, Outcome::Ok(_)), mon);
                if was_live {
                    mon.check("C19", "duplicate_incentive_rejected", !matches!(o, Outcome::Ok(_)), || format!("create_incentive {i} succeeded while registered"));
                    mon.stat("dup_incentive_attempt");
                    if i >= NT {
                        mon.stat("dup_incentive_attempt_address_spelling");
                    }
                }
                if let Outcome::Ok(_) = &o {
                    w.live_incs.insert(base(i));
                    mon.stat("incentive_created");
                }
                show(&o)
            }
            "add_routes" => {
                // add_routes o:a:x-y,x-y  o:a:...
                let mut routes = vec![];
                let mut all_hops: Vec<Vec<Hop>> = vec![];
                for tkn in &ws[1..] {
                    let parts: Vec<&str> = tkn.split(':').collect();
                    if parts.len() != 3 {
                        return None;
                    }
                    let oa = idxs(&parts[0..2])?;
                    let hops = parse_hops(parts[2])?;
                    routes.push(r::SwapRoute {
                        offer_asset_info: w.assets[oa[0]].clone(),
                        ask_asset_info: w.assets[oa[1]].clone(),
                        swap_operations: w.hops_msg(&hops),
                    });
                    all_hops.push(hops);
                }
                let before = w.stored_route_keys();
                let every_hop_registered = all_hops.iter().all(|hs| !hs.is_empty() && hs.iter().all(|(x, y)| w.live_pairs.contains(&canon(&[*x, *y]))));
                let router = w.router.clone();
                let o = guarded(|| w.app.execute_contract(owner, router, &r::ExecuteMsg::AddSwapRoutes { swap_routes: routes }, &[]));
                match &o {
                    Outcome::Ok(_) => {
                        mon.check("C19", "routes_registered_only", every_hop_registered, || {
                            format!("add_routes {:?} accepted although a hop is not a registered pair (live {:?})", all_hops, w.live_pairs)
                        });
                        // and what is now stored under the touched keys has registered hops only
                        let stored: Vec<r::SwapRouteResponse> = w.app.wrap().query_wasm_smart(&w.router, &r::QueryMsg::SwapRoutes {}).unwrap();
                        let touched: BTreeSet<(String, String)> = ws[1..]
                            .iter()
                            .map(|tkn| {
                                let parts: Vec<&str> = tkn.split(':').collect();
                                (w.label[parts[0].parse::<usize>().unwrap()].clone(), w.label[parts[1].parse::<usize>().unwrap()].clone())
                            })
                            .collect();
                        for s in stored.iter().filter(|s| touched.contains(&(s.offer_asset.clone(), s.ask_asset.clone()))) {
                            let ok = s.swap_route.iter().all(|op| match op {
                                r::SwapOperation::TerraSwap { offer_asset_info, ask_asset_info } => {
                                    let ix = w.idx_list(&[offer_asset_info.clone(), ask_asset_info.clone()]);
                                    w.live_pairs.contains(&canon(&ix))
                                }
                            });
                            mon.check("C19", "routes_registered_only", ok, || format!("stored route {:?} has an unregistered hop", s));
                        }
                        mon.stat("routes_added");
                    }
                    _ => {
                        if !every_hop_registered {
                            mon.stat("route_with_unregistered_hop_rejected");
                        } else {
                            mon.stat("route_rejected_other");
                        }
                        let after = w.stored_route_keys();
                        mon.check("C19", "rejected_routes_not_stored", before == after, || format!("failed add_routes changed the table: {:?} -> {:?}", before, after));
                    }
                }
                show(&o)
            }
            "remove_routes" => {
                let mut routes = vec![];
                for tkn in &ws[1..] {
                    let parts: Vec<&str> = tkn.split(':').collect();
                    if parts.len() != 2 {
                        return None;
                    }
                    let oa = idxs(&parts[0..2])?;
                    routes.push(r::SwapRoute { offer_asset_info: w.assets[oa[0]].clone(), ask_asset_info: w.assets[oa[1]].clone(), swap_operations: vec![] });
                }
                let router = w.router.clone();
                let o = guarded(|| w.app.execute_contract(owner, router, &r::ExecuteMsg::RemoveSwapRoutes { swap_routes: routes }, &[]));
                if let Outcome::Ok(_) = &o {
                    mon.stat("routes_removed");
                }
                show(&o)
            }
            "swap" => {
                if ws.len() > 2 {
                    return None;
                }
                let hops = parse_hops(ws.get(1).copied().unwrap_or(""))?;
                let o = w.do_swap(&hops, mon);
                show(&o)
            }
            "swap_route" => {
                if ws.len() != 3 {
                    return None;
                }
                let oa = idxs(&ws[1..3])?;
                let q: Result<Vec<r::SwapOperation>, _> = w.app.wrap().query_wasm_smart(
                    &w.router,
                    &r::QueryMsg::SwapRoute { offer_asset_info: w.assets[oa[0]].clone(), ask_asset_info: w.assets[oa[1]].clone() },
                );
                match q {
                    Err(_) => "err",
                    Ok(ops) => {
                        let hops: Vec<Hop> = ops
                            .iter()
                            .map(|op| match op {
                                r::SwapOperation::TerraSwap { offer_asset_info, ask_asset_info } => {
                                    let ix = w.idx_list(&[offer_asset_info.clone(), ask_asset_info.clone()]);
                                    (ix[0], ix[1])
                                }
                            })
                            .collect();
                        if hops.iter().any(|(x, y)| !w.live_pairs.contains(&canon(&[*x, *y]))) {
                            mon.stat("swap_route_with_removed_pair");
                        }
                        let o = w.do_swap(&hops, mon);
                        show(&o)
                    }
                }
            }
            "pages" | "page" => {
                // pages <reg> <limit|none>            : follow cursors from the start
                // page <reg> <limit|none> <cursor>    : one page; cursor = i.j[.k] asset indices, or x<hex> raw bytes (vaults)
                let kind = match ws.get(1).copied()? {
                    "pairs" => 0,
                    "trios" => 1,
                    "vaults" => 2,
                    "incs" => 3,
                    _ => return None,
                };
                let lim = lim_of(ws.get(2).copied()?)?;
                if ws[0] == "pages" {
                    if ws.len() != 3 {
                        return None;
                    }
                    let n = w.full(kind).len();
                    let pages = w.iterate_pages(kind, lim, n + 3);
                    Self::pagination_sweep(w, kind, mon);
                    let body = w.build_body(mon);
                    let ps = if pages.is_empty() { "-".into() } else { pages.iter().map(|pg| show_sets(pg)).collect::<Vec<_>>().join("|") };
                    mon.stat(&format!("pages_limit_{}", match lim { None => "none".into(), Some(0) => "0".to_string(), Some(l) if l <= 30 => "1-30".into(), _ => ">30".to_string() }));
                    return Some(format!("ok p={ps} {body}"));
                } else {
                    if ws.len() != 4 {
                        return None;
                    }
                    let arity = [2, 3, 1, 1][kind];
                    let (cur, curb) = if let Some(h) = ws[3].strip_prefix('x') {
                        if kind != 2 {
                            return None;
                        }
                        (None, Some(unhex(h)?))
                    } else {
                        let c: Vec<&str> = ws[3].split('.').collect();
                        let c = idxs(&c)?;
                        if c.len() != arity {
                            return None;
                        }
                        (Some(c), None)
                    };
                    let pg = w.one_page(kind, &cur, &curb, lim);
                    // monitor: exactly the entries strictly after the cursor's bound, in order
                    let full = w.full(kind);
                    let bound: Vec<u8> = {
                        let mut b = match (&cur, &curb) {
                            (_, Some(b)) => b.clone(),
                            (Some(c), _) => match kind {
                                0 | 1 => w.key_of(c),
                                2 => w.refb[c[0]].clone(),
                                _ => w.raw[c[0]].clone(),
                            },
                            _ => vec![],
                        };
                        b.push(1);
                        b
                    };
                    let want: Vec<Vec<usize>> = full
                        .iter()
                        .filter(|e| {
                            let k = match kind {
                                0 | 1 => w.key_of(e),
                                2 => w.refb[e[0]].clone(),
                                _ => w.raw[e[0]].clone(),
                            };
                            k > bound
                        })
                        .take(w.eff_limit(kind, lim))
                        .cloned()
                        .collect();
                    mon.check("C19", "page_is_entries_after_cursor", pg == want, || format!("page {:?}: got {:?} want {:?}", ws, pg, want));
                    let body = w.build_body(mon);
                    return Some(format!("ok p={} {body}", show_sets(&pg)));
                }
            }
            _ => return None,
        };
        let body = w.build_body(mon);
        let c1 = w.counts();
        if outcome != "ok" {
            let same = body == w.last_body;
            mon.check("C19", "failed_op_leaves_registries_unchanged", same, || format!("{:?} failed but observables changed", ws));
            mon.check("C19", "failed_op_instantiates_nothing", c0 == c1, || format!("{:?} failed but contract instances went {:?} -> {:?}", ws, c0, c1));
        } else if !ws[0].starts_with("create_") {
            mon.check("C19", "only_create_instantiates", c0 == c1, || format!("{:?}: contract instances went {:?} -> {:?}", ws, c0, c1));
        }
        w.last_body = body.clone();
        mon.stat(&format!("{}_{}", ws[0], outcome));
        Some(format!("{outcome} {body}"))
    }
}

fn perms3(v: &[usize]) -> Vec<Vec<usize>> {
    vec![
        vec![v[0], v[1], v[2]],
        vec![v[0], v[2], v[1]],
        vec![v[1], v[0], v[2]],
        vec![v[1], v[2], v[0]],
        vec![v[2], v[0], v[1]],
        vec![v[2], v[1], v[0]],
    ]
}

impl Registry {
    fn distinct(rng: &mut Rng, k: usize) -> Vec<usize> {
        let mut v: Vec<usize> = vec![];
        while v.len() < k {
            let x = rng.below(N as u64) as usize;
            if !v.contains(&x) {
                v.push(x);
            }
        }
        v
    }
    fn ptype(rng: &mut Rng) -> String {
        match rng.below(10) {
            0..=4 => "cp".into(),
            5 => "ss1".into(),
            6 => "ss100".into(),
            7 => "ss1000000".into(),
            8 => "ss1000001".into(),
            _ => "ss0".into(),
        }
    }
    fn amp(rng: &mut Rng) -> u64 {
        *rng.pick(&[1u64, 100, 100, 85, 1_000_000, 1_000_001, 0])
    }
    fn lim(rng: &mut Rng) -> String {
        let (d, m) = page_limits(0);
        match rng.below(14) {
            0 => "none".into(),
            1 => "0".into(),
            2 => (m + 1).to_string(),
            3 => "4294967295".into(),
            4 => m.to_string(),
            5 => d.to_string(),
            6 => (d + 1).to_string(),
            _ => rng.range(1, m as u64).to_string(),
        }
    }
    /// an asset for the one-entry-per-asset registries: the core half of the time, else anywhere
    fn any_asset(rng: &mut Rng) -> usize {
        if rng.chance(1, 2) {
            rng.below(N as u64) as usize
        } else {
            rng.below(NU as u64) as usize
        }
    }
    fn dec(rng: &mut Rng) -> u8 {
        *rng.pick(&[6u8, 6, 6, 8, 18])
    }

    /// one random-soup line; hops avoid registered StableSwap pairs (see the note in the router scenario)
    fn soup_line(&self, rng: &mut Rng) -> String {
        let ss_live = |a: usize, b: usize| -> bool {
            match &self.w {
                Some(w) => w.live_pairs.contains(&canon(&[a, b])) && w.made_pairs.get(&canon(&[a, b])).map(|t| t != "cp").unwrap_or(false),
                None => false,
            }
        };
        loop {
            let s = Self::distinct(rng, 3);
            let line = match rng.below(20) {
                0..=3 => format!("create_pair {} {} {}", s[0], s[1], Self::ptype(rng)),
                4 => format!("create_pair {} {} cp", s[0], s[0]),
                5..=6 => format!("create_trio {} {} {} {}", s[0], s[1], s[2], Self::amp(rng)),
                7 => format!("create_trio {} {} {} 100", s[0], s[1], s[0]),
                8 => format!("remove_pair {} {}", s[0], s[1]),
                9 => format!("remove_trio {} {} {}", s[0], s[1], s[2]),
                10 => format!("create_vault {}", Self::any_asset(rng)),
                11 => format!("remove_vault {}", Self::any_asset(rng)),
                12 => format!("create_incentive {}", Self::any_asset(rng)),
                13 => {
                    let i = if rng.chance(1, 8) { rng.below(NT as u64) as usize } else { rng.below(N as u64) as usize };
                    format!("add_dec {} {}", i, if i < NN { NOMINAL[i] } else { 6 })
                }
                14 => format!("fund {} {}", s[0], s[1]),
                15 => {
                    if ss_live(s[0], s[1]) {
                        continue;
                    }
                    format!("add_routes {}:{}:{}-{}", s[0], s[1], s[0], s[1])
                }
                16 => {
                    if ss_live(s[0], s[1]) || ss_live(s[1], s[2]) {
                        continue;
                    }
                    format!("add_routes {}:{}:{}-{},{}-{}", s[0], s[2], s[0], s[1], s[1], s[2])
                }
                17 => {
                    if ss_live(s[0], s[1]) {
                        continue;
                    }
                    format!("swap {}-{}", s[0], s[1])
                }
                18 => {
                    // only routes whose hops are not StableSwap pairs now
                    let o = s[0];
                    let a = s[rng.range(1, 2) as usize];
                    let stale_ss = match &self.w {
                        Some(w) => {
                            let q: Result<Vec<r::SwapOperation>, _> = w.app.wrap().query_wasm_smart(
                                &w.router,
                                &r::QueryMsg::SwapRoute { offer_asset_info: w.assets[o].clone(), ask_asset_info: w.assets[a].clone() },
                            );
                            match q {
                                Ok(ops) => ops.iter().any(|op| match op {
                                    r::SwapOperation::TerraSwap { offer_asset_info, ask_asset_info } => {
                                        let ix = w.idx_list(&[offer_asset_info.clone(), ask_asset_info.clone()]);
                                        ss_live(ix[0], ix[1])
                                    }
                                }),
                                Err(_) => false,
                            }
                        }
                        None => false,
                    };
                    if stale_ss {
                        continue;
                    }
                    format!("swap_route {} {}", o, a)
                }
                _ => format!("pages {} {}", rng.pick(&["pairs", "trios", "vaults", "incs"]), Self::lim(rng)),
            };
            return line;
        }
    }

    /// a create line for a key in a random (or the `sp`-th) order of its assets
    /// the ways of naming a key of registry kind `k` (the vault factory keys by the address string, so an
    /// address spelling is no name of a vault's key); `addr` = address spellings included
    fn names(k: usize, set: &[usize], addr: bool) -> Vec<Vec<usize>> {
        if k == 2 {
            return vec![set.to_vec()];
        }
        spellings(set).into_iter().filter(|v| addr || v.iter().all(|i| *i < NT)).collect()
    }
    fn create_line(k: usize, set: &[usize], sp: Option<usize>, param: &str, rng: &mut Rng) -> String {
        let perms = Self::names(k, set, true);
        Self::create_named(k, &perms[sp.unwrap_or(rng.below(perms.len() as u64) as usize) % perms.len()], param)
    }
    fn create_named(k: usize, pm: &[usize], param: &str) -> String {
        match k {
            0 => format!("create_pair {} {} {}", pm[0], pm[1], param),
            1 => format!("create_trio {} {} {} {}", pm[0], pm[1], pm[2], param),
            2 => format!("create_vault {}", pm[0]),
            _ => format!("create_incentive {}", pm[0]),
        }
    }
    /// index into a listing of `n` entries named by a position word (page sizes of registry kind `k`)
    fn pos_index(k: usize, pos: &str, n: usize, rng: &mut Rng) -> Option<usize> {
        let (d, m) = page_limits(k);
        if n == 0 {
            return None;
        }
        let i = match pos {
            "first" => 0,
            "dl" => d.checked_sub(1)?,
            "dn" => d,
            "ml" => m.checked_sub(1)?,
            "mn" => m,
            "last" => n - 1,
            _ => rng.below(n as u64) as usize,
        };
        if i < n {
            Some(i)
        } else {
            None
        }
    }

    /// turns a queued line into an op line. Placeholders look at the real registries as they are now;
    /// `None` = nothing to do for this placeholder, take the next queued line.
    fn resolve(&mut self, l: &str, rng: &mut Rng) -> Option<String> {
        let ws: Vec<&str> = l.split_whitespace().collect();
        match ws[0] {
            "SOUP" => Some(self.soup_line(rng)),
            "SOUPG" => {
                let k = rng.below(4) as usize;
                let pos = *rng.pick(&["first", "dl", "dn", "ml", "mn", "last", "rnd", "rnd", "rnd", "addr"]);
                let ph = match rng.below(10) {
                    0..=3 => format!("DUP {k} {pos} r"),
                    4 => format!("RMPOS {k} {pos}"),
                    5 => "RECREATE".to_string(),
                    6 => "DUPLAST".to_string(),
                    _ => "SOUP".to_string(),
                };
                match self.resolve(&ph, rng) {
                    Some(x) => Some(x),
                    None => Some(self.soup_line(rng)),
                }
            }
            "GROW" => {
                let k: usize = ws[1].parse().ok()?;
                let target: usize = ws[2].parse().ok()?;
                let w = self.w.as_ref()?;
                if w.live_len(k) >= target {
                    return None;
                }
                let mut cands: Vec<Vec<usize>> = vec![];
                match k {
                    0 => {
                        for i in 0..N {
                            for j in (i + 1)..N {
                                cands.push(vec![i, j]);
                            }
                        }
                    }
                    1 => {
                        for i in 0..N {
                            for j in (i + 1)..N {
                                for z in (j + 1)..N {
                                    cands.push(vec![i, j, z]);
                                }
                            }
                        }
                    }
                    _ => cands = (0..NT).map(|i| vec![i]).collect(),
                }
                cands.retain(|c| !w.live_has(k, c) && !self.grow_tried.contains(&(k, c.clone())));
                if cands.is_empty() {
                    return None;
                }
                let c = rng.pick(&cands).clone();
                self.grow_tried.insert((k, c.clone()));
                self.queue.push_front(l.to_string());
                let param = match k {
                    0 => (if rng.chance(3, 4) { "cp" } else { "ss100" }).to_string(),
                    1 => "100".to_string(),
                    _ => String::new(),
                };
                Some(Self::create_line(k, &c, None, &param, rng))
            }
            "DUP" | "RMPOS" | "PAGEPOS" => {
                let k: usize = ws[1].parse().ok()?;
                let w = self.w.as_ref()?;
                let full = w.full(k);
                // position `addr` = an entry one of whose assets has an address spelling
                let i = if ws[2] == "addr" {
                    let c: Vec<usize> = (0..full.len()).filter(|i| full[*i].iter().any(|x| ALIAS_OF.contains(x))).collect();
                    if c.is_empty() {
                        return None;
                    }
                    *rng.pick(&c)
                } else {
                    Self::pos_index(k, ws[2], full.len(), rng)?
                };
                let e = full[i].clone();
                if e.iter().any(|x| *x >= NT) {
                    return None;
                }
                match ws[0] {
                    "DUP" => {
                        // the other parameters vary freely: a registered key is refused whatever they are
                        let mut param = || match k {
                            0 => Self::ptype(rng),
                            1 => Self::amp(rng).to_string(),
                            _ => String::new(),
                        };
                        if ws[3] == "all" {
                            // every name of the key, one line each (a refused create changes nothing, so the
                            // position stays what it is)
                            let mut lines: Vec<String> = Self::names(k, &e, true).iter().map(|pm| Self::create_named(k, pm, &param())).collect();
                            let first = lines.remove(0);
                            for l in lines.into_iter().rev() {
                                self.queue.push_front(l);
                            }
                            return Some(first);
                        }
                        let sp = ws[3].parse::<usize>().ok();
                        let pr = param();
                        Some(Self::create_line(k, &e, sp, &pr, rng))
                    }
                    "RMPOS" => {
                        let set = canon(&e);
                        let param = match k {
                            0 => w.made_pairs.get(&set).cloned().unwrap_or("cp".into()),
                            1 => w.made_trios.get(&set).cloned().unwrap_or("100".into()),
                            2 => String::new(),
                            _ => return None, // incentives cannot be removed
                        };
                        let line = Self::create_line(k, &e, None, "", rng);
                        let args: Vec<&str> = line.split_whitespace().skip(1).take(e.len()).collect();
                        self.last_removed = Some((k, set, param));
                        Some(format!("remove_{} {}", KNAME[k], args.join(" ")))
                    }
                    _ => {
                        let line = Self::create_line(k, &e, None, "", rng);
                        let args: Vec<&str> = line.split_whitespace().skip(1).take(e.len()).collect();
                        Some(format!("page {} {} {}", KIND[k], ws[3], args.join(".")))
                    }
                }
            }
            "RECREATE" => {
                // (creation needs every asset named by an address a contract answers at)
                let (k, set, param) = self.last_removed.clone()?;
                let plain = Self::names(k, &set, false);
                let pm: Vec<usize> = rng.pick(&plain[..]).clone();
                Some(Self::create_named(k, &pm, &param))
            }
            "DUPLAST" => {
                let (k, set, _) = self.last_removed.clone()?;
                let param = match k {
                    0 => Self::ptype(rng),
                    1 => Self::amp(rng).to_string(),
                    _ => String::new(),
                };
                Some(Self::create_line(k, &set, None, &param, rng))
            }
            _ => Some(l.to_string()),
        }
    }

    /// fills the per-case op queue (after the init line)
    fn plan(&mut self, rng: &mut Rng) {
        let q = &mut self.queue;
        let kind = self.case_kind % 6;
        // native decimals: mostly all registered up front, sometimes some missing / added late
        let mut late: Vec<usize> = vec![];
        for i in 0..NN {
            if kind >= 4 || rng.chance(9, 10) {
                q.push_back(format!("add_dec {} {}", i, if kind >= 2 { NOMINAL[i] } else { Self::dec(rng) }));
            } else {
                late.push(i);
            }
        }
        match kind {
            0 => {
                // permutation sweep: pairs and trios, duplicates in every other order, remove, re-create
                for _ in 0..3 {
                    let s = Self::distinct(rng, 2);
                    let pt = Self::ptype(rng);
                    q.push_back(format!("create_pair {} {} {}", s[0], s[1], pt));
                    q.push_back(format!("create_pair {} {} {}", s[1], s[0], Self::ptype(rng)));
                    q.push_back(format!("create_pair {} {} {}", s[0], s[1], pt));
                    if rng.chance(1, 2) {
                        q.push_back(format!("pages pairs {}", Self::lim(rng)));
                    }
                    if rng.chance(1, 2) {
                        q.push_back(format!("remove_pair {} {}", s[1], s[0]));
                    } else {
                        q.push_back(format!("remove_pair {} {}", s[0], s[1]));
                    }
                    q.push_back(format!("remove_pair {} {}", s[0], s[1]));
                    if rng.chance(1, 2) {
                        q.push_back(format!("create_pair {} {} {}", s[1], s[0], pt));
                    } else {
                        q.push_back(format!("create_pair {} {} {}", s[0], s[1], pt));
                    }
                }
                for _ in 0..2 {
                    let s = Self::distinct(rng, 3);
                    let ps = perms3(&s);
                    let first = rng.below(6) as usize;
                    let amp = Self::amp(rng);
                    q.push_back(format!("create_trio {} {} {} {}", ps[first][0], ps[first][1], ps[first][2], amp));
                    for (k, pm) in ps.iter().enumerate() {
                        if k != first {
                            q.push_back(format!("create_trio {} {} {} {}", pm[0], pm[1], pm[2], Self::amp(rng)));
                        }
                    }
                    let rm = rng.below(6) as usize;
                    q.push_back(format!("remove_trio {} {} {}", ps[rm][0], ps[rm][1], ps[rm][2]));
                    let rc = rng.below(6) as usize;
                    q.push_back(format!("create_trio {} {} {} {}", ps[rc][0], ps[rc][1], ps[rc][2], amp));
                    q.push_back(format!("pages trios {}", Self::lim(rng)));
                }
                for i in late.drain(..) {
                    q.push_back(format!("add_dec {} {}", i, Self::dec(rng)));
                }
                for _ in 0..3 {
                    let i = rng.below(N as u64);
                    q.push_back(format!("create_vault {i}"));
                    q.push_back(format!("create_vault {i}"));
                    q.push_back(format!("remove_vault {i}"));
                    q.push_back(format!("remove_vault {i}"));
                    q.push_back(format!("create_vault {i}"));
                    q.push_back(format!("create_incentive {i}"));
                    q.push_back(format!("create_incentive {i}"));
                }
            }
            1 => {
                // many entries, then pagination with every limit / cursor
                // each registry is either taken well past its page sizes or kept small (all four large at once
                // makes every observation expensive without reaching anything new)
                let np = if rng.chance(1, 2) { rng.range(40, 110) } else { rng.range(3, 20) };
                for _ in 0..np {
                    let s = Self::distinct(rng, 2);
                    q.push_back(format!("create_pair {} {} {}", s[0], s[1], if rng.chance(2, 3) { "cp".to_string() } else { "ss100".to_string() }));
                }
                let nt = if rng.chance(1, 2) { rng.range(30, 70) } else { rng.range(2, 12) };
                for _ in 0..nt {
                    let s = Self::distinct(rng, 3);
                    q.push_back(format!("create_trio {} {} {} 100", s[0], s[1], s[2]));
                }
                // one entry per asset: the whole universe, in an order unrelated to the keys' order
                let mut order: Vec<usize> = (0..NT).collect();
                for i in (1..order.len()).rev() {
                    order.swap(i, rng.below(i as u64 + 1) as usize);
                }
                let (pv, pi) = (rng.range(1, 5), rng.range(1, 5));
                for i in order {
                    if rng.chance(pv, 5) {
                        q.push_back(format!("create_vault {i}"));
                    }
                    if rng.chance(pi, 5) {
                        q.push_back(format!("create_incentive {i}"));
                    }
                    if rng.chance(1, 6) {
                        q.push_back(format!("create_vault {}", rng.below(NT as u64)));
                        q.push_back(format!("create_incentive {}", rng.below(NT as u64)));
                    }
                }
                for _ in 0..3 {
                    let s = Self::distinct(rng, 3);
                    q.push_back(format!("remove_pair {} {}", s[0], s[1]));
                    q.push_back(format!("remove_trio {} {} {}", s[0], s[1], s[2]));
                    q.push_back(format!("remove_vault {}", s[2]));
                }
                for reg in ["pairs", "trios", "vaults", "incs"] {
                    for _ in 0..2 {
                        q.push_back(format!("pages {} {}", reg, Self::lim(rng)));
                    }
                }
                for _ in 0..8 {
                    match rng.below(4) {
                        0 => {
                            let s = Self::distinct(rng, 2);
                            q.push_back(format!("page pairs {} {}.{}", Self::lim(rng), s[0], s[1]));
                        }
                        1 => {
                            let s = Self::distinct(rng, 3);
                            q.push_back(format!("page trios {} {}.{}.{}", Self::lim(rng), s[0], s[1], s[2]));
                        }
                        2 => {
                            if rng.chance(1, 2) {
                                q.push_back(format!("page vaults {} {}", Self::lim(rng), rng.below(NT as u64)));
                            } else {
                                // arbitrary byte cursors around a key: prefix, key+0, key+1, key+2, empty
                                let base: Vec<u8> = match rng.below(3) {
                                    0 => b"uusdc".to_vec(),
                                    1 => b"contract1".to_vec(),
                                    _ => b"uwhale".to_vec(),
                                };
                                let c: Vec<u8> = match rng.below(6) {
                                    0 => base[..base.len() - 1].to_vec(),
                                    1 => [base.clone(), vec![0]].concat(),
                                    2 => [base.clone(), vec![1]].concat(),
                                    3 => [base.clone(), vec![2]].concat(),
                                    4 => vec![],
                                    _ => vec![0xff],
                                };
                                q.push_back(format!("page vaults {} x{}", Self::lim(rng), hex(&c)));
                            }
                        }
                        _ => q.push_back(format!("page incs {} {}", Self::lim(rng), rng.below(NT as u64))),
                    }
                }
            }
            2 => {
                // router: a chain of funded pairs, routes valid / invalid, swaps, removal, re-creation
                let plen = rng.range(3, 5) as usize;
                let path = Self::distinct(rng, plen);
                let mut hops: Vec<Hop> = vec![];
                for wnd in path.windows(2) {
                    let (a, b) = if rng.chance(1, 2) { (wnd[0], wnd[1]) } else { (wnd[1], wnd[0]) };
                    // routes and swaps go through ConstantProduct pairs only: whether a StableSwap simulation / swap of a
                    // tiny amount succeeds depends on the stableswap arithmetic, which this model does not carry
                    q.push_back(format!("create_pair {} {} cp", a, b));
                    if rng.chance(9, 10) {
                        q.push_back(format!("fund {} {}", wnd[0], wnd[1]));
                    }
                    hops.push((wnd[0], wnd[1]));
                }
                let hs = |h: &[Hop]| h.iter().map(|(x, y)| format!("{x}-{y}")).collect::<Vec<_>>().join(",");
                let (o, a) = (path[0], *path.last().unwrap());
                q.push_back(format!("add_routes {}:{}:{}", o, a, hs(&hops)));
                q.push_back(format!("swap {}", hs(&hops)));
                q.push_back(format!("swap_route {} {}", o, a));
                // a route with an unregistered hop
                let mut bad = hops.clone();
                let z = (0..N).find(|z| !path.contains(z)).unwrap();
                bad.push((a, z));
                q.push_back(format!("add_routes {}:{}:{}", o, z, hs(&bad)));
                q.push_back(format!("add_routes {}:{}:{} {}:{}:{}", a, o, hs(&hops.iter().rev().map(|(x, y)| (*y, *x)).collect::<Vec<_>>()), o, z, hs(&bad)));
                q.push_back(format!("add_routes {}:{}:", o, a));
                // degenerate hops (offer asset = ask asset): no pair (x, x) can be registered, so such a route
                // must be refused, alone and inside an otherwise valid route (seed C19-P)
                q.push_back(format!("add_routes {}:{}:{}-{}", o, o, o, o));
                {
                    let mut deg = hops.clone();
                    let at = rng.below(deg.len() as u64 + 1) as usize;
                    let x = if at < deg.len() { deg[at].0 } else { a };
                    deg.insert(at, (x, x));
                    q.push_back(format!("add_routes {}:{}:{}", o, a, hs(&deg)));
                }
                // mislabelled route (key assets differ from the hops): accepted by the real code
                q.push_back(format!("add_routes {}:{}:{}", z, o, hs(&hops[..1])));
                // remove one pair of the chain; the stored route must stop executing
                let k = rng.below(hops.len() as u64) as usize;
                q.push_back(format!("remove_pair {} {}", hops[k].1, hops[k].0));
                q.push_back(format!("swap_route {} {}", o, a));
                q.push_back(format!("swap {}", hs(&hops)));
                q.push_back(format!("add_routes {}:{}:{}", o, a, hs(&hops)));
                q.push_back(format!("create_pair {} {} cp", hops[k].0, hops[k].1));
                if rng.chance(1, 3) {
                    q.push_back(format!("swap_route {} {}", o, a));
                    q.push_back(format!("add_routes {}:{}:{}", o, a, hs(&hops)));
                }
                q.push_back(format!("fund {} {}", hops[k].1, hops[k].0));
                q.push_back(format!("swap_route {} {}", o, a));
                q.push_back(format!("remove_routes {}:{}", o, a));
                q.push_back(format!("remove_routes {}:{}", o, a));
                q.push_back(format!("swap_route {} {}", o, a));
                q.push_back(format!("swap {}", hs(&hops.iter().rev().map(|(x, y)| (*y, *x)).collect::<Vec<_>>())));
                // discontinuous / looping hop lists
                if hops[0].0 < NN {
                    // (a zero cw20 `Send` reaches the pair, whose outcome on a zero offer is arithmetic-dependent)
                    q.push_back(format!("swap {}", hs(&[hops[0], hops[0]])));
                }
                q.push_back(format!("swap {}", hs(&[hops[0], (hops[0].1, hops[0].0)])));
                q.push_back("swap".to_string());
                // label collision: tokens 6 and 7 share the symbol "dup"
                q.push_back(format!("add_routes 6:{}:{} 7:{}:{}", a, hs(&hops[..1]), a, hs(&hops)));
                q.push_back(format!("remove_routes 7:{}", a));
            }
            3 => {
                // random soup: lines are generated one at a time in `next_op`, looking at the ghost history
                let n = rng.range(25, 60);
                for _ in 0..n {
                    q.push_back("SOUP".to_string());
                }
            }
            4 => {
                // ONE registry grown past the default (odd rounds: past the maximum) page size, in an order
                // unrelated to the key order; then duplicates of the keys at every position of the listing
                // (first, last of the default page, first after it, last of a maximum page, first after it,
                // last, anywhere) in every spelling of the key; removal at the page boundary, the neighbours
                // again, re-creation, the re-created key again. Placeholders are resolved against the real
                // listing when their turn comes (`resolve`).
                let rot = *self.rot.get_or_insert_with(|| rng.below(8));
                let sub = self.case_kind / 6 + rot;
                let k = (sub % 4) as usize;
                let (d, m) = page_limits(k);
                let target = if (sub / 4) % 2 == 1 { m as u64 + rng.range(1, 5) } else { d as u64 + rng.range(1, 4) };
                q.push_back(format!("GROW {k} {target}"));
                q.push_back(format!("pages {} none", KIND[k]));
                q.push_back(format!("pages {} {}", KIND[k], m));
                for pos in ["first", "dl", "dn", "ml", "mn", "last", "rnd", "addr"] {
                    if k == 1 && !["dn", "mn", "last", "addr"].contains(&pos) {
                        // (a trio has 6 to 12 names: all of them at the boundaries, two elsewhere)
                        q.push_back(format!("DUP {k} {pos} r"));
                        q.push_back(format!("DUP {k} {pos} r"));
                    } else {
                        q.push_back(format!("DUP {k} {pos} all"));
                    }
                }
                if k < 3 {
                    for pos in ["dn", "last", "first", "ml", "addr"] {
                        q.push_back(format!("RMPOS {k} {pos}"));
                        q.push_back(format!("DUP {k} dl r"));
                        q.push_back(format!("DUP {k} dn r"));
                        q.push_back("RECREATE".to_string());
                        q.push_back("DUPLAST".to_string());
                        q.push_back("DUPLAST".to_string());
                    }
                }
                q.push_back(format!("pages {} {}", KIND[k], Self::lim(rng)));
                q.push_back(format!("PAGEPOS {k} dl none"));
                q.push_back(format!("PAGEPOS {k} ml {m}"));
                q.push_back(format!("PAGEPOS {k} dn 1"));
                q.push_back(format!("PAGEPOS {k} rnd {}", Self::lim(rng)));
            }
            _ => {
                // random soup on grown registries: each registry first grows to a random size class (none, a
                // few, past the default page, past the maximum page), then random lines, biased towards
                // creating registered keys again and removing / re-creating entries anywhere in the listing
                let mut big = 0;
                for k in 0..4usize {
                    let (d, m) = page_limits(k);
                    let target = match rng.below(4) {
                        0 => 0,
                        1 => rng.range(1, d as u64),
                        2 => d as u64 + rng.range(1, 3),
                        _ if big < 2 => {
                            big += 1;
                            m as u64 + rng.range(1, 3)
                        }
                        _ => d as u64 + rng.range(1, 3),
                    };
                    if target > 0 {
                        q.push_back(format!("GROW {k} {target}"));
                    }
                }
                let n = rng.range(25, 45);
                for _ in 0..n {
                    q.push_back("SOUPG".to_string());
                }
            }
        }
        for i in late {
            q.push_back(format!("add_dec {} {}", i, if kind >= 2 { NOMINAL[i] } else { Self::dec(rng) }));
        }
        // a native denom's decimals RE-REGISTERED with another value while pairs / trios over it exist (the
        // factory allows it; entries already made keep what their children were instantiated with: seed C19-Q);
        // every operation is followed by the listing walk and the keyed lookups in both argument orders
        if rng.chance(1, 2) {
            for _ in 0..rng.range(1, 3) {
                let i = rng.below(NN as u64) as usize;
                q.push_back(format!("add_dec {} {}", i, *rng.pick(&[5u8, 7, 9, 12, 18])));
            }
        }
    }
}

impl Engine for Registry {
    fn exec(&mut self, line: &str, mon: &mut Monitor) -> String {
        let ws: Vec<&str> = line.split_whitespace().collect();
        if ws.is_empty() {
            return "bad-op".into();
        }
        if ws[0] == "init" {
            if ws.get(1) != Some(&"registry") {
                return "bad-op".into();
            }
            let mut w = build_world();
            if w.init_line() != line.trim() {
                return "bad-op".into();
            }
            let body = w.build_body(mon);
            w.last_body = body.clone();
            self.w = Some(w);
            return format!("ok {body}");
        }
        match self.run_op(&ws, mon) {
            Some(s) => s,
            None => "bad-op".into(),
        }
    }

    fn next_op(&mut self, rng: &mut Rng, step: u64) -> Option<String> {
        if step == 0 {
            self.case_kind = self.ncase;
            self.ncase += 1;
            self.queue.clear();
            self.grow_tried.clear();
            self.last_removed = None;
            self.plan(rng);
            return Some(build_world().init_line());
        }
        loop {
            let l = self.queue.pop_front()?;
            if let Some(line) = self.resolve(&l, rng) {
                // The vault factory keys its registry by `AssetInfo::as_bytes()`, which is the SAME byte string for
                // the native denom `contract0` and the cw20 token at address `contract0` (observed on the real
                // contract: a vault for one answers `Vault{}` for the other). No module of a real chain mints a
                // denom that spells a contract address, so this is recorded as an observation (DESIGN 9.5b), and
                // the vault registry is not driven with the look-alike denom; the pool / trio / incentive / route
                // registries (canonical keys) are.
                let ws: Vec<&str> = line.split_whitespace().collect();
                if matches!(ws.first().copied(), Some("create_vault") | Some("remove_vault")) && ws.get(1).copied() == Some("5") {
                    return Some(format!("{} 0", ws[0]));
                }
                return Some(line);
            }
        }
    }
}

#[allow(dead_code)]
fn _unused(_: Empty) {}
