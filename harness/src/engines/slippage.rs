//! Engine `slippage` (C15): slippage limits and minimum-receive.
//!
//! default variant — the real assertion functions called directly, sampled densely around every
//! threshold:
//!   `call max_spread <belief|none> <max_spread|none> <offer> <return> <spread>`
//!        white_whale_std::pool_network::swap::assert_max_spread
//!   `call pair_slippage <cp|ss> <tol|none> d0 d1 p0 p1 amount supply`
//!        terraswap_pair::helpers::assert_slippage_tolerance (hook)
//!   `call trio_slippage <tol|none> d0 d1 d2 p0 p1 p2 amount supply`
//!        stableswap_3pool::helpers::assert_slippage_tolerance (hook)
//!   `call min_receive prev minimum current`
//!        terraswap_router `ExecuteMsg::AssertMinimumReceive` on mock deps whose bank holds `current`
//!
//! variant `exec` — operations executed on the real contracts in cw-multi-test (every line is a
//! self-contained case: a fresh App is built from the numbers on the line):
//!   `call x_swap op ap offer prot swap burn <belief|none> <max_spread|none>`
//!   `call x_cp_deposit p0 p1 d0 d1 <tol|none>`
//!   `call x_ss_deposit p0 p1 d0 d1 amp <tol|none> amount supply`
//!   `call x_trio_deposit p0 p1 p2 d0 d1 d2 amp <tol|none> amount supply`
//!   `call x_route k <self|other> offer <max_spread|none> <min|none> prev prot swap burn r1a r1b [r2a r2b [r3a r3b]]`
//! (`amount`, `supply` on the stableswap lines are the real contract's own LP computation and total
//! supply — obtained through the hook / a query — and are re-checked at execution time.)
//!
//! All monitors are evaluated with independent 512-bit integer arithmetic (cross-multiplied
//! rationals), against the *documented* numbers (default 1 %, cap 50 %), never against the code's
//! constants.
use crate::common::*;
use cosmwasm_std::testing::{mock_dependencies, mock_env, mock_info};
use cosmwasm_std::{coin, coins, Addr, Coin, Decimal, Uint128, Uint512};
use cw_multi_test::{App, AppBuilder, BankKeeper, ContractWrapper, Executor};
use white_whale_std::fee::Fee;
use white_whale_std::pool_network::asset::{Asset, AssetInfo, PairInfo, PairType};
use white_whale_std::pool_network::pair::PoolFee;
use white_whale_std::pool_network::swap::assert_max_spread;
use white_whale_std::pool_network::{factory as f, pair as p, router as r, trio as t};

const E18: u128 = 1_000_000_000_000_000_000;
const E16: u128 = 10_000_000_000_000_000;
const E36: u128 = 1_000_000_000_000_000_000_000_000_000_000_000_000;
/// the documented numbers (property statement): default 1 %, cap 50 %
const DOC_DEFAULT: u128 = E16;
const DOC_CAP: u128 = E18 / 2;
const MIN_POOL: u128 = 2000;

pub struct Slippage {
    exec_mode: bool,
}
impl Slippage {
    pub fn new(variant: &str) -> Self {
        Slippage { exec_mode: variant == "exec" }
    }
}

// ------------------------------------------------------------------------------------------------
// small helpers
fn u(x: u128) -> Uint512 {
    Uint512::from(x)
}
fn to_u128_sat(x: Uint512) -> u128 {
    Uint128::try_from(x).map(|v| v.u128()).unwrap_or(u128::MAX)
}
fn opt(w: &str) -> Option<Option<u128>> {
    if w == "none" {
        Some(None)
    } else {
        w.parse::<u128>().ok().map(Some)
    }
}
fn fo(o: Option<u128>) -> String {
    match o {
        None => "none".into(),
        Some(v) => v.to_string(),
    }
}
fn nat(d: &str) -> AssetInfo {
    AssetInfo::NativeToken { denom: d.into() }
}
fn asset(d: &str, a: u128) -> Asset {
    Asset { info: nat(d), amount: Uint128::new(a) }
}
fn st<T>(o: &Outcome<T>) -> &'static str {
    match o {
        Outcome::Ok(_) => "ok",
        Outcome::Err(_) => "err",
        Outcome::Panic => "panic",
    }
}
fn pool_fee(pr: u128, sw: u128, bu: u128) -> PoolFee {
    PoolFee {
        protocol_fee: Fee { share: Decimal::raw(pr) },
        swap_fee: Fee { share: Decimal::raw(sw) },
        burn_fee: Fee { share: Decimal::raw(bu) },
    }
}
fn add_delta(x: u128, d: i64) -> u128 {
    if d >= 0 {
        x.saturating_add(d as u128)
    } else {
        x.saturating_sub((-d) as u128)
    }
}
fn delta(rng: &mut Rng) -> i64 {
    rng.below(7) as i64 - 3
}
/// the documented effective limit: min(s ?? 1 %, 50 %)
fn doc_eff(ms: Option<u128>) -> u128 {
    ms.unwrap_or(DOC_DEFAULT).min(DOC_CAP)
}

// ------------------------------------------------------------------------------------------------
// C15 evaluated on (inputs of the spread assertion, what the real code answered)

/// `status` is ok / err / panic of the real code; `pfx` names the call path (pure call or executed swap)
fn monitor_max_spread(
    mon: &mut Monitor,
    pfx: &str,
    b: Option<u128>,
    ms: Option<u128>,
    offer: u128,
    gross: u128,
    spread: u128,
    status: &str,
    desc: &dyn Fn() -> String,
) {
    let eff = doc_eff(ms);
    let e = u(E18);
    let ok = status == "ok";
    match b {
        None => {
            let den = u(gross) + u(spread);
            if den.is_zero() || den > u(u128::MAX) {
                // ratio undefined (0/0) or the Uint128 sum overflows: outside the quantifier
                mon.stat(&format!("{pfx}_nobelief_degenerate_{}_{}", if den.is_zero() { "zero" } else { "overflow" }, status));
                mon.check("C15", &format!("{pfx}_degenerate_is_panic"), status == "panic", desc);
                return;
            }
            mon.check("C15", &format!("{pfx}_no_panic_on_domain"), status != "panic", desc);
            let lhs = u(spread) * e;
            // success => spread/(gross+spread) < s + 10^-18   (the floor the code takes)
            mon.check("C15", &format!("{pfx}_ok_implies_ratio_bound"), !ok || lhs < (u(eff) + u(1)) * den, desc);
            // spread/(gross+spread) <= s  =>  not rejected
            mon.check("C15", &format!("{pfx}_within_limit_not_rejected"), !(lhs <= u(eff) * den) || ok, desc);
            // exact threshold: ok <=> floor(spread*10^18/(gross+spread)) <= s
            let fl = lhs / den;
            mon.check("C15", &format!("{pfx}_exact_threshold"), ok == (fl <= u(eff)), desc);
            let cls = if fl == u(eff) {
                "at"
            } else if fl == u(eff) + u(1) {
                "at_plus_1"
            } else if fl + u(1) == u(eff) {
                "at_minus_1"
            } else if fl < u(eff) {
                "below"
            } else {
                "above"
            };
            mon.stat(&format!("{pfx}_nobelief_ratio_{cls}"));
            if spread == 0 {
                mon.stat(&format!("{pfx}_nobelief_spread_zero"));
            }
        }
        Some(0) => {
            mon.check("C15", &format!("{pfx}_belief_zero_rejected"), status == "err", desc);
            mon.stat(&format!("{pfx}_belief_zero"));
        }
        Some(pr) => {
            let inv = u(E36) / u(pr);
            let expected = u(offer) * inv / e;
            if expected > u(u128::MAX) {
                mon.stat(&format!("{pfx}_belief_expected_overflow_{status}"));
                mon.check("C15", &format!("{pfx}_belief_overflow_is_panic"), status == "panic", desc);
                return;
            }
            mon.check("C15", &format!("{pfx}_no_panic_on_domain"), status != "panic", desc);
            let g = u(gross);
            let om = u(E18 - eff);
            // exact: ok <=> gross >= expected  \/  floor((expected-gross)*10^18/expected) <= s
            let exact = g >= expected || (expected - g) * e / expected <= u(eff);
            mon.check("C15", &format!("{pfx}_belief_exact_threshold"), ok == exact, desc);
            // gross >= (offer/p)(1-s)  =>  not rejected          (p is atomics: offer/p = offer*10^18/pr)
            mon.check("C15", &format!("{pfx}_belief_within_limit_not_rejected"), !(g * u(pr) >= u(offer) * om) || ok, desc);
            // success => gross + [expected*10^-18 + (1 + offer*10^-18)(1-s)] >= (offer/p)(1-s)
            let e2p = e * e * u(pr);
            let lhs = g * e2p + expected * e * u(pr) + (e * u(pr) + u(offer) * u(pr)) * om;
            let rhs = u(offer) * e * e * om;
            mon.check("C15", &format!("{pfx}_belief_ok_implies_bound_with_slack"), !ok || lhs >= rhs, desc);
            // the statement's "up to one base unit": gross + 1 >= (offer/p)(1-s)
            if ok {
                let one_unit = (g + u(1)) * u(pr) >= u(offer) * om;
                if !one_unit {
                    mon.stat(&format!("{pfx}_belief_ok_short_by_more_than_one_unit"));
                }
                mon.check_tag("C15", "belief_ok_within_one_base_unit", "belief-inverse-rounding", one_unit, desc);
            }
            let cls = if g >= expected {
                if g == expected {
                    "gross_eq_expected"
                } else {
                    "gross_gt_expected"
                }
            } else {
                let fl = (expected - g) * e / expected;
                if fl == u(eff) {
                    "ratio_at"
                } else if fl == u(eff) + u(1) {
                    "ratio_at_plus_1"
                } else if fl < u(eff) {
                    "ratio_below"
                } else {
                    "ratio_above"
                }
            };
            mon.stat(&format!("{pfx}_belief_{cls}"));
            if inv.is_zero() {
                mon.stat(&format!("{pfx}_belief_inverse_is_zero"));
            } else if inv * u(pr) != u(E36) {
                mon.stat(&format!("{pfx}_belief_inverse_rounds"));
            }
        }
    }
    let msc = match ms {
        None => "none",
        Some(0) => "zero",
        Some(x) if x < DOC_DEFAULT => "lt_default",
        Some(x) if x == DOC_DEFAULT => "eq_default",
        Some(x) if x < DOC_CAP => "lt_cap",
        Some(x) if x == DOC_CAP => "eq_cap",
        Some(x) if x <= E18 => "gt_cap_le_one",
        Some(_) => "gt_one",
    };
    mon.stat(&format!("{pfx}_max_spread_{msc}"));
}

/// two-asset constant-product tolerance: documented bound  d_i/d_j (1-t) <= p_i/p_j  both ways
pub(crate) fn monitor_cp_tol(mon: &mut Monitor, pfx: &str, tol: Option<u128>, d: [u128; 2], pl: [u128; 2], status: &str, desc: &dyn Fn() -> String) {
    let ok = status == "ok";
    let tl = match tol {
        None => {
            mon.check("C15", &format!("{pfx}_no_tolerance_accepts"), ok, desc);
            mon.stat(&format!("{pfx}_tol_none"));
            return;
        }
        Some(x) => x,
    };
    if tl > E18 {
        mon.check("C15", &format!("{pfx}_tolerance_gt_one_rejected"), status == "err", desc);
        mon.stat(&format!("{pfx}_tol_gt_one"));
        return;
    }
    if d[0] == 0 || d[1] == 0 || pl[0] == 0 || pl[1] == 0 {
        mon.stat(&format!("{pfx}_zero_amount_{status}"));
        return;
    }
    mon.check("C15", &format!("{pfx}_no_panic_on_domain"), status != "panic", desc);
    let e = u(E18);
    let om = u(E18 - tl);
    let side = |a: u128, b: u128, pa: u128, pb: u128| -> (bool, bool, bool) {
        // exact floor arithmetic
        let exact = (u(a) * e / u(b)) * om / e <= u(pa) * e / u(pb);
        // real bound a/b (1-t) <= pa/pb
        let within = u(a) * om * u(pb) <= u(pa) * e * u(b);
        // a/b (1-t) < pa/pb + 2*10^-18
        let slack = u(a) * om * u(pb) < (u(pa) * e + u(2) * u(pb)) * u(b);
        (exact, within, slack)
    };
    let (x0, w0, s0) = side(d[0], d[1], pl[0], pl[1]);
    let (x1, w1, s1) = side(d[1], d[0], pl[1], pl[0]);
    mon.check("C15", &format!("{pfx}_exact_threshold"), ok == (x0 && x1), desc);
    mon.check("C15", &format!("{pfx}_within_limit_not_rejected"), !(w0 && w1) || ok, desc);
    mon.check("C15", &format!("{pfx}_ok_implies_ratio_bound"), !ok || (s0 && s1), desc);
    mon.stat(&format!("{pfx}_tol_{}", tol_class(tl)));
    mon.stat(&format!("{pfx}_{}", if x0 && x1 { "accept" } else if !x0 { "reject_side0" } else { "reject_side1" }));
    if (w0 && w1) != (x0 && x1) {
        mon.stat(&format!("{pfx}_between_real_and_floor_bound"));
    }
}

/// stableswap tolerance (pair StableSwap arm and 3pool): (Σpools/supply)(1-t) <= Σdeposits/amount
fn monitor_ss_tol(mon: &mut Monitor, pfx: &str, tol: Option<u128>, dsum: Uint512, psum: Uint512, amount: u128, supply: u128, status: &str, desc: &dyn Fn() -> String) {
    let ok = status == "ok";
    let tl = match tol {
        None => {
            mon.check("C15", &format!("{pfx}_no_tolerance_accepts"), ok, desc);
            mon.stat(&format!("{pfx}_tol_none"));
            return;
        }
        Some(x) => x,
    };
    if tl > E18 {
        mon.check("C15", &format!("{pfx}_tolerance_gt_one_rejected"), status == "err", desc);
        mon.stat(&format!("{pfx}_tol_gt_one"));
        return;
    }
    if amount == 0 || supply == 0 {
        mon.stat(&format!("{pfx}_zero_amount_{status}"));
        return;
    }
    mon.check("C15", &format!("{pfx}_no_panic_on_domain"), status != "panic", desc);
    let e = u(E18);
    let om = u(E18 - tl);
    let exact = (psum * e / u(supply)) * om / e <= dsum * e / u(amount);
    let within = psum * om * u(amount) <= dsum * e * u(supply);
    let slack = psum * om * u(amount) < (dsum * e + u(2) * u(amount)) * u(supply);
    mon.check("C15", &format!("{pfx}_exact_threshold"), ok == exact, desc);
    mon.check("C15", &format!("{pfx}_within_limit_not_rejected"), !within || ok, desc);
    mon.check("C15", &format!("{pfx}_ok_implies_ratio_bound"), !ok || slack, desc);
    mon.stat(&format!("{pfx}_tol_{}", tol_class(tl)));
    mon.stat(&format!("{pfx}_{}", if exact { "accept" } else { "reject" }));
    if within != exact {
        mon.stat(&format!("{pfx}_between_real_and_floor_bound"));
    }
}

fn tol_class(tl: u128) -> &'static str {
    if tl == 0 {
        "zero"
    } else if tl == E18 {
        "exactly_one"
    } else if tl == E18 - 1 {
        "one_minus_ulp"
    } else if tl < E16 {
        "lt_1pct"
    } else {
        "1pct_to_1"
    }
}

// ------------------------------------------------------------------------------------------------
// the real functions, called directly

fn run_max_spread(b: Option<u128>, ms: Option<u128>, offer: u128, ret: u128, spread: u128) -> Outcome<()> {
    guarded(|| assert_max_spread(b.map(Decimal::raw), ms.map(Decimal::raw), Uint128::new(offer), Uint128::new(ret), Uint128::new(spread)))
}

fn run_pair_tol(kind: &str, tol: Option<u128>, a: &[u128]) -> Outcome<()> {
    let pt = if kind == "cp" { PairType::ConstantProduct } else { PairType::StableSwap { amp: 100 } };
    guarded(|| {
        terraswap_pair::verif_hooks::assert_slippage_tolerance(
            &tol.map(Decimal::raw),
            &[Uint128::new(a[0]), Uint128::new(a[1])],
            &[asset("ua", a[2]), asset("ub", a[3])],
            pt,
            Uint128::new(a[4]),
            Uint128::new(a[5]),
        )
    })
}

fn run_trio_tol(tol: Option<u128>, a: &[u128]) -> Outcome<()> {
    guarded(|| {
        stableswap_3pool::verif_hooks::assert_slippage_tolerance(
            &tol.map(Decimal::raw),
            &[Uint128::new(a[0]), Uint128::new(a[1]), Uint128::new(a[2])],
            &[asset("ua", a[3]), asset("ub", a[4]), asset("uc", a[5])],
            Uint128::new(a[6]),
            Uint128::new(a[7]),
        )
    })
}

fn run_min_receive(prev: u128, min: u128, cur: u128) -> Outcome<()> {
    let mut deps = mock_dependencies();
    deps.querier.update_balance("receiver", coins(cur, "ufinal"));
    guarded(|| {
        terraswap_router::contract::execute(
            deps.as_mut(),
            mock_env(),
            mock_info("anyone", &[]),
            r::ExecuteMsg::AssertMinimumReceive {
                asset_info: nat("ufinal"),
                prev_balance: Uint128::new(prev),
                minimum_receive: Uint128::new(min),
                receiver: "receiver".into(),
            },
        )
        .map(|_| ())
    })
}

// ------------------------------------------------------------------------------------------------
// executed operations

fn new_app(bals: Vec<(Addr, Vec<Coin>)>) -> App {
    AppBuilder::new().with_bank(BankKeeper::new()).build(|router, _api, storage| {
        for (a, c) in bals {
            let c: Vec<Coin> = c.into_iter().filter(|x| !x.amount.is_zero()).collect();
            if !c.is_empty() {
                router.bank.init_balance(storage, &a, c).unwrap();
            }
        }
    })
}
fn bal(app: &App, a: &Addr, d: &str) -> u128 {
    app.wrap().query_balance(a, d).unwrap().amount.u128()
}
fn store_pair(app: &mut App) -> u64 {
    app.store_code(Box::new(
        ContractWrapper::new(terraswap_pair::contract::execute, terraswap_pair::contract::instantiate, terraswap_pair::contract::query)
            .with_reply(terraswap_pair::contract::reply),
    ))
}
fn store_token(app: &mut App) -> u64 {
    app.store_code(Box::new(ContractWrapper::new(
        terraswap_token::contract::execute,
        terraswap_token::contract::instantiate,
        terraswap_token::contract::query,
    )))
}
fn store_trio(app: &mut App) -> u64 {
    app.store_code(Box::new(
        ContractWrapper::new(stableswap_3pool::contract::execute, stableswap_3pool::contract::instantiate, stableswap_3pool::contract::query)
            .with_reply(stableswap_3pool::contract::reply),
    ))
}
fn make_pair(app: &mut App, admin: &Addr, pair_type: PairType, fees: PoolFee) -> Option<Addr> {
    let pair_id = store_pair(app);
    let token_id = store_token(app);
    app.instantiate_contract(
        pair_id,
        admin.clone(),
        &p::InstantiateMsg {
            asset_infos: [nat("ua"), nat("ub")],
            token_code_id: token_id,
            asset_decimals: [6, 6],
            pool_fees: fees,
            fee_collector_addr: "collector".into(),
            pair_type,
            token_factory_lp: false,
        },
        &[],
        "pair",
        None,
    )
    .ok()
}
fn provide2(app: &mut App, who: &Addr, pair: &Addr, d: [&str; 2], a: [u128; 2], tol: Option<u128>) -> Outcome<()> {
    // the order in which the caller lists the two assets must not matter: list them in reverse of
    // the pair's asset_infos for every other amount pair (a deterministic function of the inputs)
    let (d, a) = if (a[0] ^ a[1]) & 1 == 1 { ([d[1], d[0]], [a[1], a[0]]) } else { (d, a) };
    let mut funds = vec![coin(a[0], d[0]), coin(a[1], d[1])];
    funds.retain(|c| !c.amount.is_zero());
    guarded(|| {
        app.execute_contract(
            who.clone(),
            pair.clone(),
            &p::ExecuteMsg::ProvideLiquidity {
                assets: [asset(d[0], a[0]), asset(d[1], a[1])],
                slippage_tolerance: tol.map(Decimal::raw),
                receiver: None,
            },
            &funds,
        )
        .map(|_| ())
    })
}
fn lp_of_pair(app: &App, pair: &Addr) -> Addr {
    let info: PairInfo = app.wrap().query_wasm_smart(pair, &p::QueryMsg::Pair {}).unwrap();
    match info.liquidity_token {
        AssetInfo::Token { contract_addr } => Addr::unchecked(contract_addr),
        _ => panic!("native lp"),
    }
}
fn cw20_bal(app: &App, token: &Addr, who: &Addr) -> u128 {
    let b: cw20::BalanceResponse = app.wrap().query_wasm_smart(token, &cw20::Cw20QueryMsg::Balance { address: who.to_string() }).unwrap();
    b.balance.u128()
}
fn cw20_supply(app: &App, token: &Addr) -> u128 {
    let b: cw20::TokenInfoResponse = app.wrap().query_wasm_smart(token, &cw20::Cw20QueryMsg::TokenInfo {}).unwrap();
    b.total_supply.u128()
}
fn pools_of_pair(app: &App, pair: &Addr) -> [u128; 2] {
    let pr: p::PoolResponse = app.wrap().query_wasm_smart(pair, &p::QueryMsg::Pool {}).unwrap();
    [pr.assets[0].amount.u128(), pr.assets[1].amount.u128()]
}

/// independent constant-product quote: (gross, spread, proceeds) in 512-bit integers
fn cp_quote(op: u128, ap: u128, off: u128, fees: (u128, u128, u128)) -> (Uint512, Uint512, Uint512) {
    let e = u(E18);
    let gross = u(ap) * u(off) / (u(op) + u(off));
    let ideal = u(off) * (u(ap) * e / u(op)) / e;
    let spread = if ideal > gross { ideal - gross } else { Uint512::zero() };
    let fee = |s: u128| gross * u(s) / e;
    let ret = gross - fee(fees.0) - fee(fees.1) - fee(fees.2);
    (gross, spread, ret)
}
fn valid_fees(pr: u128, sw: u128, bu: u128) -> bool {
    pr < E18 && sw < E18 && bu < E18 && pr + sw + bu < E18
}
const POOL_CAP: u128 = 1u128 << 100;

fn x_swap(mon: &mut Monitor, a: &[u128], b: Option<u128>, ms: Option<u128>, line: &str) -> String {
    let (op, ap, offer, pr, sw, bu) = (a[0], a[1], a[2], a[3], a[4], a[5]);
    if op < MIN_POOL || ap < MIN_POOL || op > POOL_CAP || ap > POOL_CAP || offer == 0 || offer > POOL_CAP || !valid_fees(pr, sw, bu) {
        return "bad-op".into();
    }
    let admin = Addr::unchecked("admin");
    let trader = Addr::unchecked("trader");
    let pre_ub = 777u128;
    let mut app = new_app(vec![
        (admin.clone(), vec![coin(op, "ua"), coin(ap, "ub")]),
        (trader.clone(), vec![coin(offer, "ua"), coin(pre_ub, "ub")]),
    ]);
    let pair = match make_pair(&mut app, &admin, PairType::ConstantProduct, pool_fee(pr, sw, bu)) {
        Some(x) => x,
        None => return "bad-setup".into(),
    };
    if !matches!(provide2(&mut app, &admin, &pair, ["ua", "ub"], [op, ap], None), Outcome::Ok(_)) {
        return "bad-setup".into();
    }
    let pools0 = pools_of_pair(&app, &pair);
    let out = guarded(|| {
        app.execute_contract(
            trader.clone(),
            pair.clone(),
            &p::ExecuteMsg::Swap { offer_asset: asset("ua", offer), belief_price: b.map(Decimal::raw), max_spread: ms.map(Decimal::raw), to: None },
            &coins(offer, "ua"),
        )
        .map(|_| ())
    });
    let status = st(&out);
    let desc = || format!("{line} -> {status}");
    let (gross, spread, ret) = cp_quote(op, ap, offer, (pr, sw, bu));
    if spread > u(u128::MAX) {
        mon.stat("x_swap_spread_exceeds_u128");
        return status.into();
    }
    monitor_max_spread(mon, "x_swap", b, ms, offer, to_u128_sat(gross), to_u128_sat(spread), status, &desc);
    if matches!(out, Outcome::Panic) {
        return "panic".into();
    }
    let recv = bal(&app, &trader, "ub") - pre_ub;
    let spent = offer - bal(&app, &trader, "ua");
    if status == "ok" {
        mon.check("C15", "x_swap_realised_proceeds", u(recv) == ret && spent == offer, desc);
        format!("ok recv={recv}")
    } else {
        mon.check("C15", "x_swap_failed_unchanged", recv == 0 && spent == 0 && pools_of_pair(&app, &pair) == pools0, desc);
        "err".into()
    }
}

fn x_cp_deposit(mon: &mut Monitor, a: &[u128], tol: Option<u128>, line: &str) -> String {
    let (p0, p1, d0, d1) = (a[0], a[1], a[2], a[3]);
    if p0 < MIN_POOL || p1 < MIN_POOL || p0 > POOL_CAP || p1 > POOL_CAP || d0 == 0 || d1 == 0 || d0 > POOL_CAP || d1 > POOL_CAP {
        return "bad-op".into();
    }
    let admin = Addr::unchecked("admin");
    let user = Addr::unchecked("user");
    let mut app = new_app(vec![(admin.clone(), vec![coin(p0, "ua"), coin(p1, "ub")]), (user.clone(), vec![coin(d0, "ua"), coin(d1, "ub")])]);
    let pair = match make_pair(&mut app, &admin, PairType::ConstantProduct, pool_fee(0, 0, 0)) {
        Some(x) => x,
        None => return "bad-setup".into(),
    };
    if !matches!(provide2(&mut app, &admin, &pair, ["ua", "ub"], [p0, p1], None), Outcome::Ok(_)) {
        return "bad-setup".into();
    }
    let lp = lp_of_pair(&app, &pair);
    let supply = cw20_supply(&app, &lp);
    let out = provide2(&mut app, &user, &pair, ["ua", "ub"], [d0, d1], tol);
    let status = st(&out);
    let desc = || format!("{line} (supply {supply}) -> {status}");
    // the LP amount the contract computes, independently: min(d0*S/p0, d1*S/p1)
    let am0 = u(d0) * u(supply) / u(p0);
    let am1 = u(d1) * u(supply) / u(p1);
    let amount = am0.min(am1);
    if am0 > u(u128::MAX) || am1 > u(u128::MAX) {
        mon.stat(&format!("x_cp_deposit_share_overflow_{status}"));
        return status.into();
    }
    if amount.is_zero() {
        // the deposit buys no LP share at all (the contract mints 0): not a slippage question
        mon.stat(&format!("x_cp_deposit_zero_share_{status}"));
    }
    monitor_cp_tol(mon, "x_cp_deposit", tol, [d0, d1], [p0, p1], status, &desc);
    if matches!(out, Outcome::Panic) {
        return "panic".into();
    }
    let minted = cw20_bal(&app, &lp, &user);
    if status == "ok" {
        mon.check("C15", "x_cp_deposit_realised_share", u(minted) == amount && bal(&app, &user, "ua") == 0 && bal(&app, &user, "ub") == 0, desc);
        format!("ok lp={minted}")
    } else {
        mon.check("C15", "x_cp_deposit_failed_unchanged", minted == 0 && bal(&app, &user, "ua") == d0 && bal(&app, &user, "ub") == d1 && cw20_supply(&app, &lp) == supply, desc);
        "err".into()
    }
}

fn ss_amount(amp: u64, d: [u128; 2], pl: [u128; 2], supply: u128) -> Option<u128> {
    match guarded(|| -> Result<Option<Uint128>, ()> {
        Ok(terraswap_pair::verif_hooks::compute_lp_mint_amount_for_stableswap_deposit(
            &amp,
            Uint128::new(d[0]),
            Uint128::new(d[1]),
            Uint128::new(pl[0]),
            Uint128::new(pl[1]),
            Uint128::new(supply),
        ))
    }) {
        Outcome::Ok(Some(x)) => Some(x.u128()),
        _ => None,
    }
}
fn ss_initial_supply(amp: u64, pl: [u128; 2]) -> Option<u128> {
    match guarded(|| -> Result<Option<Uint512>, ()> { Ok(terraswap_pair::verif_hooks::compute_d(&amp, Uint128::new(pl[0]), Uint128::new(pl[1]))) }) {
        Outcome::Ok(Some(x)) => Uint128::try_from(x).ok().map(|v| v.u128()),
        _ => None,
    }
}
fn trio_curve(amp: u64) -> stableswap_3pool::verif_hooks::StableSwap {
    stableswap_3pool::verif_hooks::StableSwap::new(amp, amp, 12345, 12345, 12345)
}
fn trio_amount(amp: u64, d: [u128; 3], pl: [u128; 3], supply: u128) -> Option<u128> {
    match guarded(|| -> Result<Option<Uint128>, ()> {
        Ok(trio_curve(amp).compute_mint_amount_for_deposit(
            Uint128::new(d[0]),
            Uint128::new(d[1]),
            Uint128::new(d[2]),
            Uint128::new(pl[0]),
            Uint128::new(pl[1]),
            Uint128::new(pl[2]),
            Uint128::new(supply),
        ))
    }) {
        Outcome::Ok(Some(x)) => Some(x.u128()),
        _ => None,
    }
}
fn trio_initial_supply(amp: u64, pl: [u128; 3]) -> Option<u128> {
    match guarded(|| -> Result<Option<cosmwasm_std::Uint256>, ()> { Ok(trio_curve(amp).compute_d(Uint128::new(pl[0]), Uint128::new(pl[1]), Uint128::new(pl[2]))) }) {
        Outcome::Ok(Some(x)) => Uint128::try_from(x).ok().map(|v| v.u128()),
        _ => None,
    }
}
const SS_CAP: u128 = 1u128 << 80;

fn x_ss_deposit(mon: &mut Monitor, a: &[u128], tol: Option<u128>, line_amount: u128, line_supply: u128, line: &str) -> String {
    let (p0, p1, d0, d1, amp) = (a[0], a[1], a[2], a[3], a[4]);
    if p0 < MIN_POOL || p1 < MIN_POOL || p0 > SS_CAP || p1 > SS_CAP || d0 == 0 || d1 == 0 || d0 > SS_CAP || d1 > SS_CAP || amp == 0 || amp > 1_000_000 {
        return "bad-op".into();
    }
    let admin = Addr::unchecked("admin");
    let user = Addr::unchecked("user");
    let mut app = new_app(vec![(admin.clone(), vec![coin(p0, "ua"), coin(p1, "ub")]), (user.clone(), vec![coin(d0, "ua"), coin(d1, "ub")])]);
    let pair = match make_pair(&mut app, &admin, PairType::StableSwap { amp: amp as u64 }, pool_fee(0, 0, 0)) {
        Some(x) => x,
        None => return "bad-setup".into(),
    };
    if !matches!(provide2(&mut app, &admin, &pair, ["ua", "ub"], [p0, p1], None), Outcome::Ok(_)) {
        return "bad-setup".into();
    }
    let lp = lp_of_pair(&app, &pair);
    let supply = cw20_supply(&app, &lp);
    let amount = ss_amount(amp as u64, [d0, d1], [p0, p1], supply);
    let desc0 = || format!("{line}: real supply {supply}, real LP amount {amount:?}");
    // the `amount` / `supply` tokens on the line are the real contract's numbers
    let consistent = amount == Some(line_amount) && supply == line_supply;
    mon.check("C15", "x_ss_deposit_line_matches_contract", consistent, desc0);
    if !consistent {
        return "bad-line".into();
    }
    let out = provide2(&mut app, &user, &pair, ["ua", "ub"], [d0, d1], tol);
    let status = st(&out);
    let desc = || format!("{line} -> {status}");
    if line_amount == 0 {
        mon.stat(&format!("x_ss_deposit_zero_share_{status}"));
    }
    monitor_ss_tol(mon, "x_ss_deposit", tol, u(d0) + u(d1), u(p0) + u(p1), line_amount, supply, status, &desc);
    if matches!(out, Outcome::Panic) {
        return "panic".into();
    }
    let minted = cw20_bal(&app, &lp, &user);
    if status == "ok" {
        mon.check("C15", "x_ss_deposit_realised_share", minted == line_amount && bal(&app, &user, "ua") == 0 && bal(&app, &user, "ub") == 0, desc);
        format!("ok lp={minted}")
    } else {
        mon.check("C15", "x_ss_deposit_failed_unchanged", minted == 0 && bal(&app, &user, "ua") == d0 && bal(&app, &user, "ub") == d1 && cw20_supply(&app, &lp) == supply, desc);
        "err".into()
    }
}

fn x_trio_deposit(mon: &mut Monitor, a: &[u128], tol: Option<u128>, line_amount: u128, line_supply: u128, line: &str) -> String {
    let (pl, d, amp) = ([a[0], a[1], a[2]], [a[3], a[4], a[5]], a[6]);
    if pl.iter().any(|&x| x < MIN_POOL || x > SS_CAP) || d.iter().any(|&x| x == 0 || x > SS_CAP) || amp == 0 || amp > 1_000_000 {
        return "bad-op".into();
    }
    let admin = Addr::unchecked("admin");
    let user = Addr::unchecked("user");
    let dn = ["ua", "ub", "uc"];
    let mut app = new_app(vec![
        (admin.clone(), (0..3).map(|i| coin(pl[i], dn[i])).collect()),
        (user.clone(), (0..3).map(|i| coin(d[i], dn[i])).collect()),
    ]);
    let trio_id = store_trio(&mut app);
    let token_id = store_token(&mut app);
    let zero = || Fee { share: Decimal::zero() };
    let trio = match app.instantiate_contract(
        trio_id,
        admin.clone(),
        &t::InstantiateMsg {
            asset_infos: [nat("ua"), nat("ub"), nat("uc")],
            token_code_id: token_id,
            asset_decimals: [6, 6, 6],
            pool_fees: t::PoolFee { protocol_fee: zero(), swap_fee: zero(), burn_fee: zero() },
            fee_collector_addr: "collector".into(),
            amp_factor: amp as u64,
            token_factory_lp: false,
        },
        &[],
        "trio",
        None,
    ) {
        Ok(x) => x,
        Err(_) => return "bad-setup".into(),
    };
    let provide3 = |app: &mut App, who: &Addr, am: [u128; 3], tol: Option<u128>| -> Outcome<()> {
        let funds: Vec<Coin> = (0..3).map(|i| coin(am[i], dn[i])).collect();
        guarded(|| {
            app.execute_contract(
                who.clone(),
                trio.clone(),
                &t::ExecuteMsg::ProvideLiquidity {
                    // listing order rotates with the amounts: it must not matter
                    assets: {
                        let r = ((am[0] ^ am[1] ^ am[2]) % 3) as usize;
                        let l = [asset("ua", am[0]), asset("ub", am[1]), asset("uc", am[2])];
                        [l[r].clone(), l[(r + 1) % 3].clone(), l[(r + 2) % 3].clone()]
                    },
                    slippage_tolerance: tol.map(Decimal::raw),
                    receiver: None,
                },
                &funds,
            )
            .map(|_| ())
        })
    };
    if !matches!(provide3(&mut app, &admin, pl, None), Outcome::Ok(_)) {
        return "bad-setup".into();
    }
    let info: white_whale_std::pool_network::asset::TrioInfo = app.wrap().query_wasm_smart(&trio, &t::QueryMsg::Trio {}).unwrap();
    let lp = match info.liquidity_token {
        AssetInfo::Token { contract_addr } => Addr::unchecked(contract_addr),
        _ => return "bad-setup".into(),
    };
    let supply = cw20_supply(&app, &lp);
    let amount = trio_amount(amp as u64, d, pl, supply);
    let desc0 = || format!("{line}: real supply {supply}, real LP amount {amount:?}");
    let consistent = amount == Some(line_amount) && supply == line_supply;
    mon.check("C15", "x_trio_deposit_line_matches_contract", consistent, desc0);
    if !consistent {
        return "bad-line".into();
    }
    let out = provide3(&mut app, &user, d, tol);
    let status = st(&out);
    let desc = || format!("{line} -> {status}");
    if line_amount == 0 {
        mon.stat(&format!("x_trio_deposit_zero_share_{status}"));
    }
    monitor_ss_tol(mon, "x_trio_deposit", tol, u(d[0]) + u(d[1]) + u(d[2]), u(pl[0]) + u(pl[1]) + u(pl[2]), line_amount, supply, status, &desc);
    if matches!(out, Outcome::Panic) {
        return "panic".into();
    }
    let minted = cw20_bal(&app, &lp, &user);
    let user_left: Vec<u128> = (0..3).map(|i| bal(&app, &user, dn[i])).collect();
    if status == "ok" {
        mon.check("C15", "x_trio_deposit_realised_share", minted == line_amount && user_left == vec![0, 0, 0], desc);
        format!("ok lp={minted}")
    } else {
        mon.check("C15", "x_trio_deposit_failed_unchanged", minted == 0 && user_left == d.to_vec() && cw20_supply(&app, &lp) == supply, desc);
        "err".into()
    }
}

/// `a` = [k, offer, prev, prot, swap, burn, r1a, r1b, ...]
fn x_route(mon: &mut Monitor, to_other: bool, ms: Option<u128>, minr: Option<u128>, a: &[u128], line: &str) -> String {
    let k = a[0] as usize;
    if !(1..=3).contains(&k) || a.len() != 6 + 2 * k {
        return "bad-op".into();
    }
    let (offer, prev, pr, sw, bu) = (a[1], a[2], a[3], a[4], a[5]);
    let res: Vec<(u128, u128)> = (0..k).map(|i| (a[6 + 2 * i], a[7 + 2 * i])).collect();
    if offer == 0 || offer > POOL_CAP || prev > POOL_CAP || !valid_fees(pr, sw, bu) || res.iter().any(|&(x, y)| x < MIN_POOL || y < MIN_POOL || x > POOL_CAP || y > POOL_CAP) {
        return "bad-op".into();
    }
    let dn = ["t0", "t1", "t2", "t3"];
    let admin = Addr::unchecked("admin");
    let trader = Addr::unchecked("trader");
    let other = Addr::unchecked("receiver");
    let recv = if to_other { other.clone() } else { trader.clone() };
    let last = dn[k];
    // admin funds: pool reserves + 1 unit per denom for the factory's decimals registration
    let mut adm: Vec<(String, u128)> = dn.iter().take(k + 1).map(|d| (d.to_string(), 1u128)).collect();
    for (i, &(x, y)) in res.iter().enumerate() {
        adm[i].1 += x;
        adm[i + 1].1 += y;
    }
    let mut bals = vec![(admin.clone(), adm.iter().map(|(d, v)| coin(*v, d.clone())).collect::<Vec<_>>())];
    if to_other {
        bals.push((trader.clone(), coins(offer, "t0")));
        bals.push((other.clone(), coins(prev, last)));
    } else {
        bals.push((trader.clone(), vec![coin(offer, "t0"), coin(prev, last)]));
    }
    let mut app = new_app(bals);
    let pair_id = store_pair(&mut app);
    let token_id = store_token(&mut app);
    let fac_id = app.store_code(Box::new(
        ContractWrapper::new(terraswap_factory::contract::execute, terraswap_factory::contract::instantiate, terraswap_factory::contract::query)
            .with_reply(terraswap_factory::contract::reply),
    ));
    let router_id = app.store_code(Box::new(ContractWrapper::new(
        terraswap_router::contract::execute,
        terraswap_router::contract::instantiate,
        terraswap_router::contract::query,
    )));
    let setup = guarded(|| -> Result<(Addr, Vec<Addr>), String> {
        let fac = app
            .instantiate_contract(
                fac_id,
                admin.clone(),
                &f::InstantiateMsg { pair_code_id: pair_id, trio_code_id: pair_id, token_code_id: token_id, fee_collector_addr: "collector".into() },
                &[],
                "fac",
                None,
            )
            .map_err(|e| format!("{e:#}"))?;
        for d in dn.iter().take(k + 1) {
            app.execute_contract(admin.clone(), fac.clone(), &f::ExecuteMsg::AddNativeTokenDecimals { denom: d.to_string(), decimals: 6 }, &[coin(1, *d)])
                .map_err(|e| format!("{e:#}"))?;
        }
        let mut pairs = vec![];
        for i in 0..k {
            app.execute_contract(
                admin.clone(),
                fac.clone(),
                &f::ExecuteMsg::CreatePair { asset_infos: [nat(dn[i]), nat(dn[i + 1])], pool_fees: pool_fee(pr, sw, bu), pair_type: PairType::ConstantProduct, token_factory_lp: false },
                &[],
            )
            .map_err(|e| format!("{e:#}"))?;
            let pi: PairInfo = app
                .wrap()
                .query_wasm_smart(&fac, &f::QueryMsg::Pair { asset_infos: [nat(dn[i]), nat(dn[i + 1])] })
                .map_err(|e| format!("{e:#}"))?;
            pairs.push(Addr::unchecked(pi.contract_addr));
        }
        let router = app
            .instantiate_contract(router_id, admin.clone(), &r::InstantiateMsg { terraswap_factory: fac.to_string() }, &[], "router", None)
            .map_err(|e| format!("{e:#}"))?;
        Ok((router, pairs))
    });
    let (router, pairs) = match setup {
        Outcome::Ok(x) => x,
        _ => return "bad-setup".into(),
    };
    for i in 0..k {
        if !matches!(provide2(&mut app, &admin, &pairs[i], [dn[i], dn[i + 1]], [res[i].0, res[i].1], None), Outcome::Ok(_)) {
            return "bad-setup".into();
        }
    }
    let snapshot = |app: &App| -> Vec<u128> {
        let mut v = vec![bal(app, &trader, "t0"), bal(app, &recv, last), bal(app, &router, "t0"), bal(app, &router, last)];
        for pa in &pairs {
            v.extend(pools_of_pair(app, pa));
        }
        v
    };
    let before = snapshot(&app);
    let ops: Vec<r::SwapOperation> = (0..k).map(|i| r::SwapOperation::TerraSwap { offer_asset_info: nat(dn[i]), ask_asset_info: nat(dn[i + 1]) }).collect();
    let out = guarded(|| {
        app.execute_contract(
            trader.clone(),
            router.clone(),
            &r::ExecuteMsg::ExecuteSwapOperations {
                operations: ops,
                minimum_receive: minr.map(Uint128::new),
                to: if to_other { Some(other.to_string()) } else { None },
                max_spread: ms.map(Decimal::raw),
            },
            &coins(offer, "t0"),
        )
        .map(|_| ())
    });
    let status = st(&out);
    let desc = || format!("{line} -> {status}");
    // independent expectation hop by hop
    let eff = doc_eff(ms);
    let mut off = u(offer);
    let mut all_within = true; // every hop strictly inside the documented spread limit
    let mut degenerate = false; // some hop has gross + spread = 0 (ratio undefined) or a zero offer
    for &(x, y) in &res {
        if off.is_zero() || off > u(u128::MAX) {
            degenerate = true;
            break;
        }
        let (g, s, rt) = cp_quote(x, y, to_u128_sat(off), (pr, sw, bu));
        if (g + s).is_zero() {
            degenerate = true;
            break;
        }
        if !(s * u(E18) <= u(eff) * (g + s)) {
            all_within = false;
        }
        off = rt;
    }
    mon.stat(&format!("x_route_hops_{k}_{status}"));
    if matches!(out, Outcome::Panic) {
        mon.check("C15", "x_route_panic_only_degenerate", degenerate, desc);
        return "panic".into();
    }
    let after = snapshot(&app);
    if status == "ok" {
        let got = after[1] - before[1];
        if let Some(m) = minr {
            // success with minimum_receive m  =>  the receiver's balance of the final asset grew by >= m
            mon.check("C15", "x_route_ok_implies_min_received", got >= m, desc);
            mon.stat(if got == m { "x_route_min_exactly_met" } else { "x_route_min_exceeded" });
        }
        if !degenerate {
            mon.check("C15", "x_route_realised_output", u(got) == off, desc);
        }
        format!("ok recv={got}")
    } else {
        // a rejected route moves nothing (whole transaction reverted)
        mon.check("C15", "x_route_failed_unchanged", after == before, desc);
        if !degenerate && all_within {
            let enough = minr.map(|m| off >= u(m)).unwrap_or(true);
            // inside every limit  =>  not rejected
            mon.check("C15", "x_route_within_limits_not_rejected", !enough, desc);
            if !enough {
                mon.stat("x_route_rejected_below_minimum");
            }
        } else {
            mon.stat("x_route_rejected_by_spread_or_degenerate");
        }
        "err".into()
    }
}

// ------------------------------------------------------------------------------------------------
// generators

fn gen_ms(rng: &mut Rng) -> Option<u128> {
    match rng.below(17) {
        0 | 1 => None,
        2 => Some(0),
        3 => Some(1),
        4 => Some(E16 - 1),
        5 => Some(E16),
        6 => Some(E16 + 1),
        7 => Some(E18 / 2 - 1),
        8 => Some(E18 / 2),
        9 => Some(E18 / 2 + 1),
        10 => Some(6 * E18 / 10),
        11 => Some(E18),
        12 => Some(E18 + 1),
        13 => Some(u128::MAX),
        14 => Some(rng.u128() % (E18 / 2)),
        15 => Some(rng.u128() % (E18 / 50)),
        _ => Some(rng.log_uniform(128)),
    }
}
/// the ratio around which the case is placed: mostly the documented effective limit, sometimes the
/// uncapped request, the default or the cap themselves, or 60 %
fn gen_target(rng: &mut Rng, ms: Option<u128>) -> u128 {
    match rng.below(10) {
        0 => ms.unwrap_or(DOC_DEFAULT).min(E18),
        1 => DOC_DEFAULT,
        2 => DOC_CAP,
        3 => 6 * E18 / 10,
        _ => doc_eff(ms),
    }
}
fn gen_tol(rng: &mut Rng) -> Option<u128> {
    match rng.below(16) {
        0 => None,
        1 => Some(0),
        2 => Some(1),
        3 => Some(E16),
        4 => Some(E18 / 10),
        5 => Some(E18 / 2),
        6 => Some(E18 - 1),
        7 => Some(E18),
        8 => Some(E18 + 1),
        9 => Some(2 * E18),
        10 => Some(u128::MAX),
        11 => Some(rng.log_uniform(128)),
        12 | 13 => Some(rng.u128() % (E18 / 20)),
        _ => Some(rng.u128() % E18),
    }
}
fn gen_belief(rng: &mut Rng) -> u128 {
    match rng.below(18) {
        0 => 0,
        1 => 1,
        2 => rng.range(2, 1000) as u128,
        3 => E18,
        4 => 3 * E18,
        5 => 7 * E18,
        6 => E18 / 3,
        7 => E36,
        8 => E36 + 1,
        9 => E36 - 1,
        10 => u128::MAX,
        11 => rng.log_uniform(128),
        12 => rng.log_uniform(70),
        13 => 3 * 10u128.pow(rng.range(18, 36) as u32), // 3·10^k: inverse 0.333… rounds
        14 => E36 / 2 + rng.below(5) as u128,
        15 => E18 + rng.below(1000) as u128 - 500,
        _ => (rng.u128() % (100 * E18)).max(1),
    }
}

impl Slippage {
    fn gen_max_spread(&self, rng: &mut Rng) -> String {
        let ms = gen_ms(rng);
        let tgt = gen_target(rng, ms);
        if rng.chance(1, 2) {
            // no belief price
            let (ret, spread) = match rng.below(12) {
                0 => (rng.amount(128), rng.amount(128)),
                1 => (0, 0),
                2 => (rng.amount(128), 0),
                3 => (0, rng.amount(128)),
                4 => {
                    // Uint128 sum at the overflow edge
                    let s = rng.log_uniform(127);
                    (add_delta(u128::MAX - s, delta(rng)), s)
                }
                _ => {
                    let den = if rng.chance(1, 4) { rng.amount(128).max(1) } else { rng.log_uniform(128) };
                    // smallest spread whose floored ratio reaches the target, then nudge
                    let s0 = to_u128_sat((u(tgt) * u(den) + u(E18 - 1)) / u(E18));
                    let s = add_delta(s0, delta(rng)).min(den);
                    (den - s, s)
                }
            };
            format!("call max_spread none {} {} {} {}", fo(ms), rng.amount(128), ret, spread)
        } else {
            let pr = gen_belief(rng);
            let inv = if pr == 0 { 0 } else { E36 / pr };
            let offer = match rng.below(8) {
                0 => rng.amount(128),
                1 if inv > 0 => {
                    // expected return at the Uint128 overflow edge
                    let o = to_u128_sat(u(u128::MAX) * u(E18) / u(inv));
                    add_delta(o, delta(rng))
                }
                2 => rng.log_uniform(128),
                3 => rng.log_uniform(30),
                _ => rng.log_uniform(100),
            };
            let expected = to_u128_sat(u(offer) * u(inv) / u(E18));
            let ret = match rng.below(10) {
                0 => rng.amount(128),
                1 | 2 => add_delta(expected, delta(rng)),
                3 => 0,
                _ => {
                    // largest shortfall whose floored ratio is still the target, then nudge
                    let sh = to_u128_sat((u(tgt) * u(expected) + u(E18 - 1)) / u(E18));
                    add_delta(expected.saturating_sub(sh), delta(rng))
                }
            };
            format!("call max_spread {} {} {} {} {}", pr, fo(ms), offer, ret, rng.amount(128))
        }
    }

    fn gen_pair_cp(&self, rng: &mut Rng) -> String {
        let tol = gen_tol(rng);
        let bits = *rng.pick(&[20u32, 64, 100, 128]);
        let (mut p0, mut p1) = (rng.log_uniform(bits), rng.log_uniform(bits));
        let mut d1 = rng.log_uniform(bits);
        let tl = tol.unwrap_or(0).min(E18);
        // d0/d1 (1-t) ≈ p0/p1
        let mut d0 = if tl == E18 {
            rng.log_uniform(bits)
        } else {
            add_delta(to_u128_sat(u(p0) * u(d1) * u(E18) / (u(p1) * u(E18 - tl))), delta(rng))
        };
        if rng.chance(1, 6) {
            d0 = rng.amount(128);
        }
        if rng.chance(1, 25) {
            match rng.below(4) {
                0 => d0 = 0,
                1 => d1 = 0,
                2 => p0 = 0,
                _ => p1 = 0,
            }
        }
        if rng.chance(1, 2) {
            // make the other side the binding one
            std::mem::swap(&mut d0, &mut d1);
            std::mem::swap(&mut p0, &mut p1);
        }
        format!("call pair_slippage cp {} {} {} {} {} {} {}", fo(tol), d0, d1, p0, p1, rng.amount(128), rng.amount(128))
    }

    /// n = 2 (pair StableSwap arm) or 3 (3pool)
    fn gen_ss(&self, rng: &mut Rng, n: usize) -> String {
        let tol = gen_tol(rng);
        let bits = *rng.pick(&[20u32, 64, 100, 128]);
        let pools: Vec<u128> = (0..n).map(|_| rng.log_uniform(bits)).collect();
        let mut supply = rng.log_uniform(bits);
        let mut amount = rng.log_uniform(bits);
        if rng.chance(1, 30) {
            if rng.chance(1, 2) {
                supply = 0
            } else {
                amount = 0
            }
        }
        let tl = tol.unwrap_or(0).min(E18);
        let psum = pools.iter().fold(Uint512::zero(), |s, &x| s + u(x));
        // Σd/amount ≈ (Σp/supply)(1-t)  — the smallest Σd whose floored ratio reaches the left side
        let lhs = if supply == 0 { Uint512::zero() } else { (psum * u(E18) / u(supply)) * u(E18 - tl) / u(E18) };
        let dsum = (lhs * u(amount) + u(E18 - 1)) / u(E18);
        let cap = u(u128::MAX) * u(n as u128);
        let dsum = if dsum > cap { cap } else { dsum };
        let mut rest = dsum;
        let mut ds: Vec<u128> = vec![];
        for i in 0..n {
            let take = if i == n - 1 {
                rest
            } else {
                let share = rest / u(n as u128 - i as u128);
                share.min(u(u128::MAX))
            };
            let take = take.min(u(u128::MAX));
            rest = rest - take;
            ds.push(to_u128_sat(take));
        }
        let j = rng.below(n as u64) as usize;
        ds[j] = add_delta(ds[j], delta(rng));
        if rng.chance(1, 8) {
            ds[j] = rng.amount(128);
        }
        let dstr: Vec<String> = ds.iter().map(|x| x.to_string()).collect();
        let pstr: Vec<String> = pools.iter().map(|x| x.to_string()).collect();
        if n == 2 {
            format!("call pair_slippage ss {} {} {} {} {}", fo(tol), dstr.join(" "), pstr.join(" "), amount, supply)
        } else {
            format!("call trio_slippage {} {} {} {} {}", fo(tol), dstr.join(" "), pstr.join(" "), amount, supply)
        }
    }

    fn gen_min_receive(&self, rng: &mut Rng) -> String {
        let prev = rng.amount(128);
        let m = if rng.chance(1, 3) { rng.amount(128) } else { rng.log_uniform(100) };
        let cur = match rng.below(8) {
            0 => rng.amount(128),
            1 => add_delta(prev, delta(rng)),
            _ => add_delta(prev.saturating_add(m), delta(rng)),
        };
        format!("call min_receive {prev} {m} {cur}")
    }

    // ---------------------------------------------------------------- executed-op generators
    fn gen_fees(rng: &mut Rng) -> (u128, u128, u128) {
        match rng.below(4) {
            0 => (0, 0, 0),
            1 => (E18 / 1000, 2 * E18 / 1000, 0),
            2 => (E18 / 1000, 3 * E18 / 1000, E18 / 2000),
            _ => {
                let (a, b, c) = rng.valid_fees();
                // keep the total moderate so that proceeds stay visible
                if a + b + c < E18 / 5 {
                    (a, b, c)
                } else {
                    (E18 / 1000, 2 * E18 / 1000, 0)
                }
            }
        }
    }
    fn gen_pool(rng: &mut Rng) -> u128 {
        let bits = *rng.pick(&[24u32, 40, 64, 90]);
        (rng.log_uniform(bits) + MIN_POOL).min(POOL_CAP)
    }

    fn gen_x_swap(&self, rng: &mut Rng) -> String {
        let (op, ap) = (Self::gen_pool(rng), Self::gen_pool(rng));
        let (pr, sw, bu) = Self::gen_fees(rng);
        let ms = gen_ms(rng);
        let tgt = gen_target(rng, ms);
        let with_belief = rng.chance(1, 2);
        // the CP spread ratio is ≈ offer/(op+offer): offer ≈ op·tgt/(1-tgt) puts the swap at the limit
        let offer = match rng.below(6) {
            0 => rng.log_uniform(90),
            1 => 1 + rng.below(5) as u128,
            _ => {
                let t = tgt.min(E18 - E18 / 10);
                let o = to_u128_sat(u(op) * u(t) / u(E18 - t));
                add_delta(o, rng.below(41) as i64 - 20)
            }
        }
        .clamp(1, POOL_CAP);
        let b = if with_belief {
            // belief price near the pool price op/ap (offer per ask), or near the executed price
            let base = match rng.below(3) {
                0 => to_u128_sat(u(op) * u(E18) / u(ap)),
                1 => to_u128_sat((u(op) + u(offer)) * u(E18) / u(ap)),
                _ => {
                    // price at which `expected` sits one effective-limit above the gross return
                    let g = u(ap) * u(offer) / (u(op) + u(offer));
                    let want = g * u(E18) / u(E18 - doc_eff(ms)); // expected ≈ gross/(1-s)
                    if want.is_zero() {
                        E18
                    } else {
                        to_u128_sat(u(offer) * u(E18) / want)
                    }
                }
            };
            Some(match rng.below(8) {
                0 => 0,
                1 => gen_belief(rng),
                _ => add_delta(base, rng.below(21) as i64 - 10).max(1),
            })
        } else {
            None
        };
        format!("call x_swap {op} {ap} {offer} {pr} {sw} {bu} {} {}", fo(b), fo(ms))
    }

    fn gen_x_cp_deposit(&self, rng: &mut Rng) -> String {
        let (p0, p1) = (Self::gen_pool(rng), Self::gen_pool(rng));
        let tol = gen_tol(rng);
        let tl = tol.unwrap_or(0).min(E18);
        let d1 = (rng.log_uniform(70)).clamp(1, POOL_CAP);
        let mut d0 = if tl == E18 {
            rng.log_uniform(70)
        } else {
            add_delta(to_u128_sat(u(p0) * u(d1) * u(E18) / (u(p1) * u(E18 - tl))), delta(rng))
        };
        if rng.chance(1, 6) {
            d0 = rng.log_uniform(90);
        }
        let d0 = d0.clamp(1, POOL_CAP);
        if rng.chance(1, 2) {
            format!("call x_cp_deposit {p1} {p0} {d1} {d0} {}", fo(tol))
        } else {
            format!("call x_cp_deposit {p0} {p1} {d0} {d1} {}", fo(tol))
        }
    }

    fn gen_ss_tol(rng: &mut Rng, exact_tol: u128) -> Option<u128> {
        // tolerances around the one at which this deposit is exactly on the limit
        match rng.below(10) {
            0 => None,
            1 => Some(0),
            2 => Some(E18),
            3 => Some(E18 + 1),
            4 => Some(rng.u128() % E18),
            _ => Some(add_delta(exact_tol, rng.below(9) as i64 - 4).min(E18)),
        }
    }

    fn gen_x_ss_deposit(&self, rng: &mut Rng) -> String {
        loop {
            let bits = *rng.pick(&[24u32, 40, 64, 78]);
            let base = rng.log_uniform(bits) + MIN_POOL;
            let p0 = base.min(SS_CAP);
            let p1 = (base / 2 + rng.log_uniform(20) + (rng.u128() % base)).clamp(MIN_POOL, SS_CAP);
            let amp = *rng.pick(&[1u128, 10, 100, 1000, 85, 1_000_000]);
            // lopsided deposits make the stableswap LP amount fall short of the proportional one
            let d0 = (rng.log_uniform(70)).clamp(1, SS_CAP);
            let d1 = match rng.below(3) {
                0 => 1 + rng.below(10) as u128,
                1 => d0,
                _ => rng.log_uniform(70).clamp(1, SS_CAP),
            };
            let supply = match ss_initial_supply(amp as u64, [p0, p1]) {
                Some(s) if s > 2000 => s,
                _ => continue,
            };
            let amount = match ss_amount(amp as u64, [d0, d1], [p0, p1], supply) {
                Some(a) => a,
                None => continue,
            };
            // tolerance at which (Σp/S)(1-t) = Σd/amount
            let exact_tol = if amount == 0 {
                0
            } else {
                let pr = u(p0 + p1) * u(E18) / u(supply);
                let dr = u(d0 + d1) * u(E18) / u(amount);
                if dr >= pr || pr.is_zero() {
                    0
                } else {
                    to_u128_sat((pr - dr) * u(E18) / pr)
                }
            };
            let tol = Self::gen_ss_tol(rng, exact_tol);
            return format!("call x_ss_deposit {p0} {p1} {d0} {d1} {amp} {} {amount} {supply}", fo(tol));
        }
    }

    fn gen_x_trio_deposit(&self, rng: &mut Rng) -> String {
        loop {
            let bits = *rng.pick(&[24u32, 40, 64, 78]);
            let base = rng.log_uniform(bits) + MIN_POOL;
            let pl = [base.min(SS_CAP), (base / 2 + rng.u128() % base).clamp(MIN_POOL, SS_CAP), (base / 2 + rng.u128() % base).clamp(MIN_POOL, SS_CAP)];
            let amp = *rng.pick(&[1u128, 10, 100, 1000, 85, 1_000_000]);
            let d0 = rng.log_uniform(70).clamp(1, SS_CAP);
            let d = match rng.below(3) {
                0 => [d0, 1 + rng.below(10) as u128, 1 + rng.below(10) as u128],
                1 => [d0, d0, d0],
                _ => [d0, rng.log_uniform(70).clamp(1, SS_CAP), rng.log_uniform(70).clamp(1, SS_CAP)],
            };
            let supply = match trio_initial_supply(amp as u64, pl) {
                Some(s) if s > 3000 => s,
                _ => continue,
            };
            let amount = match trio_amount(amp as u64, d, pl, supply) {
                Some(a) => a,
                None => continue,
            };
            let exact_tol = if amount == 0 {
                0
            } else {
                let pr = (u(pl[0]) + u(pl[1]) + u(pl[2])) * u(E18) / u(supply);
                let dr = (u(d[0]) + u(d[1]) + u(d[2])) * u(E18) / u(amount);
                if dr >= pr || pr.is_zero() {
                    0
                } else {
                    to_u128_sat((pr - dr) * u(E18) / pr)
                }
            };
            let tol = Self::gen_ss_tol(rng, exact_tol);
            return format!("call x_trio_deposit {} {} {} {} {} {} {amp} {} {amount} {supply}", pl[0], pl[1], pl[2], d[0], d[1], d[2], fo(tol));
        }
    }

    fn gen_x_route(&self, rng: &mut Rng) -> String {
        let k = rng.range(1, 3) as usize;
        let (pr, sw, bu) = Self::gen_fees(rng);
        let ms = match rng.below(5) {
            0 => None,
            1 => Some(DOC_CAP),
            2 => Some(E18),
            _ => gen_ms(rng),
        };
        let bits = *rng.pick(&[8u32, 20, 40, 60]);
        let offer = rng.log_uniform(bits).clamp(1, POOL_CAP);
        // pools sized relative to what flows into them: offer-reserve = inflow × mult (the CP spread
        // ratio is ≈ 1/(1+mult): 99/100/101 straddle the default 1 %, 1/2 the 50 % cap)
        let mut res: Vec<(u128, u128)> = vec![];
        let mut off = u(offer);
        for _ in 0..k {
            let inflow = to_u128_sat(off).clamp(1, POOL_CAP);
            let (x, y) = if rng.chance(1, 8) {
                (Self::gen_pool(rng), Self::gen_pool(rng))
            } else {
                let mult = *rng.pick(&[1u128, 2, 3, 50, 98, 99, 100, 101, 200, 1000, 1_000_000]);
                let x = inflow.saturating_mul(mult).clamp(MIN_POOL, POOL_CAP);
                let y = match rng.below(4) {
                    0 => x,
                    1 => x / (1 + rng.below(1000) as u128),
                    2 => x.saturating_mul(1 + rng.below(1000) as u128),
                    _ => Self::gen_pool(rng),
                }
                .clamp(MIN_POOL, POOL_CAP);
                (x, y)
            };
            res.push((x, y));
            off = if off.is_zero() || off > u(POOL_CAP) { Uint512::zero() } else { cp_quote(x, y, to_u128_sat(off), (pr, sw, bu)).2 };
        }
        // `off` is what the route pays (independent quote): place minimum_receive at the edge
        let out = to_u128_sat(off);
        let minr = match rng.below(8) {
            0 => None,
            1 => Some(0),
            2 => Some(rng.log_uniform(90)),
            _ => Some(add_delta(out, rng.below(5) as i64 - 2)),
        };
        let prev = match rng.below(4) {
            0 => 0,
            1 => rng.log_uniform(90),
            _ => rng.log_uniform(40),
        };
        let to = if rng.chance(1, 2) { "other" } else { "self" };
        let rs: Vec<String> = res.iter().map(|(x, y)| format!("{x} {y}")).collect();
        format!("call x_route {k} {to} {offer} {} {} {prev} {pr} {sw} {bu} {}", fo(ms), fo(minr), rs.join(" "))
    }
}

impl Engine for Slippage {
    fn exec(&mut self, line: &str, mon: &mut Monitor) -> String {
        let ws: Vec<&str> = line.split_whitespace().collect();
        if ws.len() < 2 || ws[0] != "call" {
            return "bad-op".into();
        }
        let desc_line = line.to_string();
        match ws[1] {
            "max_spread" if ws.len() == 7 => {
                let (b, ms, a) = match (opt(ws[2]), opt(ws[3]), parse_u128s(&ws[4..])) {
                    (Some(b), Some(ms), Some(a)) => (b, ms, a),
                    _ => return "bad-op".into(),
                };
                let out = run_max_spread(b, ms, a[0], a[1], a[2]);
                let status = st(&out);
                let desc = || format!("{desc_line} -> {status}");
                monitor_max_spread(mon, "max_spread", b, ms, a[0], a[1], a[2], status, &desc);
                status.into()
            }
            "pair_slippage" if ws.len() == 10 => {
                let (tol, a) = match (opt(ws[3]), parse_u128s(&ws[4..])) {
                    (Some(t), Some(a)) => (t, a),
                    _ => return "bad-op".into(),
                };
                if ws[2] != "cp" && ws[2] != "ss" {
                    return "bad-op".into();
                }
                let out = run_pair_tol(ws[2], tol, &a);
                let status = st(&out);
                let desc = || format!("{desc_line} -> {status}");
                if ws[2] == "cp" {
                    monitor_cp_tol(mon, "pair_cp", tol, [a[0], a[1]], [a[2], a[3]], status, &desc);
                } else {
                    monitor_ss_tol(mon, "pair_ss", tol, u(a[0]) + u(a[1]), u(a[2]) + u(a[3]), a[4], a[5], status, &desc);
                }
                status.into()
            }
            "trio_slippage" if ws.len() == 11 => {
                let (tol, a) = match (opt(ws[2]), parse_u128s(&ws[3..])) {
                    (Some(t), Some(a)) => (t, a),
                    _ => return "bad-op".into(),
                };
                let out = run_trio_tol(tol, &a);
                let status = st(&out);
                let desc = || format!("{desc_line} -> {status}");
                monitor_ss_tol(mon, "trio", tol, u(a[0]) + u(a[1]) + u(a[2]), u(a[3]) + u(a[4]) + u(a[5]), a[6], a[7], status, &desc);
                status.into()
            }
            "min_receive" if ws.len() == 5 => {
                let a = match parse_u128s(&ws[2..]) {
                    Some(a) => a,
                    None => return "bad-op".into(),
                };
                let out = run_min_receive(a[0], a[1], a[2]);
                let status = st(&out);
                let desc = || format!("{desc_line} -> {status}");
                // ok <=> current - prev >= minimum   (integers, no wrap-around)
                let grew = u(a[2]) >= u(a[0]) + u(a[1]);
                mon.check("C15", "min_receive_ok_iff_grew_by_minimum", (status == "ok") == grew, desc);
                mon.check("C15", "min_receive_never_panics", status != "panic", desc);
                mon.stat(&format!(
                    "min_receive_{}",
                    if a[2] < a[0] {
                        "balance_dropped"
                    } else if u(a[2]) == u(a[0]) + u(a[1]) {
                        "exactly_minimum"
                    } else if u(a[2]) + u(1) == u(a[0]) + u(a[1]) {
                        "one_short"
                    } else if grew {
                        "above"
                    } else {
                        "below"
                    }
                ));
                status.into()
            }
            "x_swap" if ws.len() == 10 => match (parse_u128s(&ws[2..8]), opt(ws[8]), opt(ws[9])) {
                (Some(a), Some(b), Some(ms)) => x_swap(mon, &a, b, ms, line),
                _ => "bad-op".into(),
            },
            "x_cp_deposit" if ws.len() == 7 => match (parse_u128s(&ws[2..6]), opt(ws[6])) {
                (Some(a), Some(tol)) => x_cp_deposit(mon, &a, tol, line),
                _ => "bad-op".into(),
            },
            "x_ss_deposit" if ws.len() == 10 => match (parse_u128s(&ws[2..7]), opt(ws[7]), parse_u128s(&ws[8..])) {
                (Some(a), Some(tol), Some(z)) => x_ss_deposit(mon, &a, tol, z[0], z[1], line),
                _ => "bad-op".into(),
            },
            "x_trio_deposit" if ws.len() == 12 => match (parse_u128s(&ws[2..9]), opt(ws[9]), parse_u128s(&ws[10..])) {
                (Some(a), Some(tol), Some(z)) => x_trio_deposit(mon, &a, tol, z[0], z[1], line),
                _ => "bad-op".into(),
            },
            "x_route" if ws.len() >= 13 => {
                let k = match ws[2].parse::<u128>() {
                    Ok(k) => k,
                    _ => return "bad-op".into(),
                };
                let to_other = match ws[3] {
                    "other" => true,
                    "self" => false,
                    _ => return "bad-op".into(),
                };
                let (offer, ms, minr) = match (ws[4].parse::<u128>(), opt(ws[5]), opt(ws[6])) {
                    (Ok(o), Some(ms), Some(m)) => (o, ms, m),
                    _ => return "bad-op".into(),
                };
                let rest = match parse_u128s(&ws[7..]) {
                    Some(x) if x.len() >= 4 => x,
                    _ => return "bad-op".into(),
                };
                // [k, offer, prev, prot, swap, burn, reserves…]
                let mut a = vec![k, offer, rest[0], rest[1], rest[2], rest[3]];
                a.extend_from_slice(&rest[4..]);
                x_route(mon, to_other, ms, minr, &a, line)
            }
            _ => "bad-op".into(),
        }
    }

    fn next_op(&mut self, rng: &mut Rng, step: u64) -> Option<String> {
        if step >= 1 {
            return None;
        }
        if self.exec_mode {
            Some(match rng.below(10) {
                0 | 1 | 2 => self.gen_x_swap(rng),
                3 | 4 => self.gen_x_cp_deposit(rng),
                5 => self.gen_x_ss_deposit(rng),
                6 => self.gen_x_trio_deposit(rng),
                _ => self.gen_x_route(rng),
            })
        } else {
            Some(match rng.below(20) {
                0..=8 => self.gen_max_spread(rng),
                9..=12 => self.gen_pair_cp(rng),
                13..=15 => self.gen_ss(rng, 2),
                16 | 17 => self.gen_ss(rng, 3),
                _ => self.gen_min_receive(rng),
            })
        }
    }
}
