//! Engine `pair` (C01, C07 pair part): a real CONSTANT-PRODUCT `terraswap_pair` with a real cw20 LP
//! token in cw-multi-test, both assets native or cw20 in every combination, four users, an owner and a
//! fee collector; histories of provide / swap (native `Swap`, cw20 `Send` hook) / withdraw (LP `Send`
//! hook) / collect / fee changes / plain transfers, several per block, any mix of users.
//!
//! Line protocol
//!   init pair k0=n|c k1=n|c p=<prot> s=<swap> b=<burn> n=<users> a=<bal0> bb=<bal1>
//!   provide <u> <rcv> <d0> <d1> <tol|none> <ord>     ord = 1 lists the assets in reverse order
//!   swap <u> <dir> <off> <ms|none> <to>
//!   withdraw <u> <lp>
//!   collect <u>
//!   setfees <o|uN> <p> <s> <b>
//!   setcol <o|uN> <0|1>                               UpdateConfig{fee_collector_addr}: 0 = `collector`, 1 = `collector2`
//!   donate <u> <0|1|2> <amt>                          2 = LP tokens
//!   swapbad <u> <dir> <off> <sent>                    ExecuteMsg::Swap naming a cw20 / mismatching funds
//!   provbad <u> <d0> <d1> <k>                           ProvideLiquidity naming asset k with the wrong kind (native as Token{denom}, cw20 as NativeToken{address})
//!   wdirect <u> <denom 0|1|2|3> <amt>                 ExecuteMsg::WithdrawLiquidity {} with one coin (asset denoms, ujunk) / 3 = no coin
//!   wfake <u> <asset> <amt>                           cw20 asset `Send` carrying the WithdrawLiquidity hook
//!   sfake <u> <amt>                                   LP-token `Send` carrying the Swap hook
//! Observation
//!   ok|err|panic b=.. pend=.. all=.. burn=.. col=.. colb=.. chg=.. sent=.. brn=.. tot=.. sup= lpp= fees= pool= u0=a,b,lp …
//! `chg` / `brn` are summed from the pair's swap events, `sent` from the collector's balance deltas,
//! `tot` is the sum of all balances of the asset over the closed cast.
use crate::common::*;
use crate::engines::swapmath::pool_fee;
use cosmwasm_std::{coin, to_json_binary, Addr, Coin, Decimal, Uint128, Uint512};
use cw20::{Cw20ExecuteMsg, Cw20QueryMsg};
use cw_multi_test::{App, AppBuilder, AppResponse, BankKeeper, BankSudo, ContractWrapper, Executor, SudoMsg};
use white_whale_std::pool_network::asset::{Asset, AssetInfo, PairInfo, PairType};
use white_whale_std::pool_network::pair as p;

const E18: u128 = 1_000_000_000_000_000_000;
/// denom pairs the worlds are built with (`dn=<k>` on the init line; the model does not look at it):
/// plain denoms, an IBC voucher (upper-case hex), a token-factory denom whose last segment is the other
/// asset's denom, a denom that is a prefix of the other one, mixed case
const DENOM_SETS: [[&str; 2]; 8] = [
    ["uluna", "uusd"],
    ["uwhale", "factory/migaloo1creator/uwhale"],
    ["ibc/27394FB092D2ECCD56123C74F36E4C1F926001CEADA9CA97EA622B25F41E5EB2", "uusd"],
    ["uusd", "uusdc"],
    ["uusdc", "uusd"],
    ["factory/migaloo1creator/uwhale", "uwhale"],
    ["uwhale", "ibc/B3504E092456BA618CC28AC671A71FB08C6CA0FD0BE7C8A5B5A3E2DD933CC9E4"],
    ["factory/migaloo1creator/Ulp", "factory/migaloo1creator/ulp"],
];
const MIN_LIQ: u128 = 1000;
const THRESHOLD: u128 = 1000;
const JUNK: u128 = 1_000_000_000_000;

struct World {
    app: App,
    pair: Addr,
    lp: Addr,
    kinds: [bool; 2], // true = native
    denoms: [&'static str; 2],
    tokens: [Option<Addr>; 2],
    users: Vec<Addr>,
    owner: Addr,
    collector: Addr,
    collector2: Addr,
    minter: Addr,
    /// constant-product pair (the C01 monitors apply); false = two-asset stableswap
    cp: bool,
    // harness-side ghost sums (events / balance deltas)
    // ghost sums rebuilt from events, in 512 bits: a lifetime sum may pass u128::MAX where a counter cannot
    chg: [Uint512; 2],
    sent: [Uint512; 2],
    brn: [Uint512; 2],
}

#[derive(Clone, Debug, PartialEq)]
struct Obs {
    bal: [u128; 2],
    pend: [u128; 2],
    all: [u128; 2],
    burn: [u128; 2],
    col: [u128; 2],
    colb: [u128; 2],
    /// the configured collector is `collector2`
    use_b: bool,
    tot: [Uint512; 2],
    sup: u128,
    lpp: u128,
    fees: [u128; 3],
    pool: Option<[u128; 3]>,
    users: Vec<[u128; 3]>,
}

fn es<E: std::fmt::Display>(x: E) -> String {
    format!("{x:#}")
}
fn status<T>(o: &Outcome<T>) -> &'static str {
    match o {
        Outcome::Ok(_) => "ok",
        Outcome::Err(_) => "err",
        Outcome::Panic => "panic",
    }
}
fn u512(x: u128) -> Uint512 {
    Uint512::from(x)
}

impl World {
    fn info(&self, a: usize) -> AssetInfo {
        if self.kinds[a] {
            AssetInfo::NativeToken { denom: self.denoms[a].into() }
        } else {
            AssetInfo::Token { contract_addr: self.tokens[a].as_ref().unwrap().to_string() }
        }
    }
    fn cw20_bal(&self, token: &Addr, who: &Addr) -> u128 {
        let b: cw20::BalanceResponse = self.app.wrap().query_wasm_smart(token, &Cw20QueryMsg::Balance { address: who.to_string() }).unwrap();
        b.balance.u128()
    }
    fn bal(&self, who: &Addr, a: usize) -> u128 {
        if self.kinds[a] {
            self.app.wrap().query_balance(who, self.denoms[a]).unwrap().amount.u128()
        } else {
            self.cw20_bal(self.tokens[a].as_ref().unwrap(), who)
        }
    }
    fn fees_of(&self, q: &p::QueryMsg) -> [u128; 2] {
        let resp: p::ProtocolFeesResponse = self.app.wrap().query_wasm_smart(&self.pair, q).unwrap();
        let mut out = [0u128; 2];
        for (k, o) in out.iter_mut().enumerate() {
            let info = self.info(k);
            *o = resp.fees.iter().find(|x| x.info == info).map(|x| x.amount.u128()).unwrap_or(0);
        }
        out
    }
    /// the three fee ledgers queried per asset id (`asset_id: Some(..)`): [pending, all-time, burned] × 2 assets
    fn fees_by_id(&self) -> [[u128; 2]; 3] {
        let mut out = [[u128::MAX; 2]; 3];
        for k in 0..2 {
            let id = match self.info(k) {
                AssetInfo::NativeToken { denom } => denom,
                AssetInfo::Token { contract_addr } => contract_addr,
            };
            let qs = [
                p::QueryMsg::ProtocolFees { asset_id: Some(id.clone()), all_time: Some(false) },
                p::QueryMsg::ProtocolFees { asset_id: Some(id.clone()), all_time: Some(true) },
                p::QueryMsg::BurnedFees { asset_id: Some(id.clone()) },
            ];
            for (j, q) in qs.iter().enumerate() {
                if let Ok(r) = self.app.wrap().query_wasm_smart::<p::ProtocolFeesResponse>(&self.pair, q) {
                    // (the all-time form ignores `asset_id` and answers with the whole listing)
                    let info = self.info(k);
                    if let Some(x) = r.fees.iter().find(|x| x.info == info) {
                        out[j][k] = x.amount.u128();
                    }
                }
            }
        }
        out
    }
    fn cast(&self) -> Vec<Addr> {
        let mut v = vec![self.pair.clone(), self.collector.clone(), self.collector2.clone(), self.owner.clone(), self.minter.clone(), self.lp.clone()];
        v.extend(self.users.iter().cloned());
        v
    }
    fn observe(&self) -> Obs {
        let ti: cw20::TokenInfoResponse = self.app.wrap().query_wasm_smart(&self.lp, &Cw20QueryMsg::TokenInfo {}).unwrap();
        let cfg: p::ConfigResponse = self.app.wrap().query_wasm_smart(&self.pair, &p::QueryMsg::Config {}).unwrap();
        let pool: Outcome<p::PoolResponse> = {
            let app = &self.app;
            let pair = self.pair.clone();
            guarded(|| app.wrap().query_wasm_smart(&pair, &p::QueryMsg::Pool {}))
        };
        let pool = match pool {
            Outcome::Ok(pr) => {
                let mut r = [0u128; 3];
                for k in 0..2 {
                    let info = self.info(k);
                    r[k] = pr.assets.iter().find(|x| x.info == info).map(|x| x.amount.u128()).unwrap_or(u128::MAX);
                }
                r[2] = pr.total_share.u128();
                Some(r)
            }
            _ => None,
        };
        let cast = self.cast();
        let mut tot = [Uint512::zero(); 2];
        for (k, t) in tot.iter_mut().enumerate() {
            *t = cast.iter().fold(Uint512::zero(), |acc, a| acc + u512(self.bal(a, k)));
        }
        Obs {
            bal: [self.bal(&self.pair, 0), self.bal(&self.pair, 1)],
            pend: self.fees_of(&p::QueryMsg::ProtocolFees { asset_id: None, all_time: Some(false) }),
            all: self.fees_of(&p::QueryMsg::ProtocolFees { asset_id: None, all_time: Some(true) }),
            burn: self.fees_of(&p::QueryMsg::BurnedFees { asset_id: None }),
            col: [self.bal(&self.collector, 0), self.bal(&self.collector, 1)],
            colb: [self.bal(&self.collector2, 0), self.bal(&self.collector2, 1)],
            use_b: cfg.fee_collector_addr == self.collector2,
            tot,
            sup: ti.total_supply.u128(),
            lpp: self.cw20_bal(&self.lp, &self.pair),
            fees: [cfg.pool_fees.protocol_fee.share.atomics().u128(), cfg.pool_fees.swap_fee.share.atomics().u128(), cfg.pool_fees.burn_fee.share.atomics().u128()],
            pool,
            users: self.users.iter().map(|u| [self.bal(u, 0), self.bal(u, 1), self.cw20_bal(&self.lp, u)]).collect(),
        }
    }
    fn show(&self, o: &Obs) -> String {
        let p2 = |x: &[u128; 2]| format!("{},{}", x[0], x[1]);
        let pool = match &o.pool {
            Some(r) => format!("{},{},{}", r[0], r[1], r[2]),
            None => "x".into(),
        };
        let us: Vec<String> = o.users.iter().enumerate().map(|(i, u)| format!("u{i}={},{},{}", u[0], u[1], u[2])).collect();
        format!(
            "b={} pend={} all={} burn={} col={} colb={} chg={} sent={} brn={} tot={} sup={} lpp={} fees={},{},{} pool={} {}",
            p2(&o.bal),
            p2(&o.pend),
            p2(&o.all),
            p2(&o.burn),
            p2(&o.col),
            p2(&o.colb),
            format!("{},{}", self.chg[0], self.chg[1]),
            format!("{},{}", self.sent[0], self.sent[1]),
            format!("{},{}", self.brn[0], self.brn[1]),
            format!("{},{}", o.tot[0], o.tot[1]),
            o.sup,
            o.lpp,
            o.fees[0],
            o.fees[1],
            o.fees[2],
            pool,
            us.join(" ")
        )
    }
}

fn build(kinds: [bool; 2], fees: (u128, u128, u128), n: usize, a: u128, bb: u128, ss: Option<(u64, u8, u8)>, dn: usize, sp: usize) -> Result<Option<World>, String> {
    #[allow(non_snake_case)]
    let DENOMS: [&'static str; 2] = DENOM_SETS[dn % DENOM_SETS.len()];
    let owner = Addr::unchecked("owner");
    let minter = Addr::unchecked("minter");
    let collector = Addr::unchecked("collector");
    let collector2 = Addr::unchecked("collector2");
    let mut app: App = AppBuilder::new().with_bank(BankKeeper::new()).build(|_r, _a, _s| {});
    let pair_id = app.store_code(Box::new(
        ContractWrapper::new(terraswap_pair::contract::execute, terraswap_pair::contract::instantiate, terraswap_pair::contract::query)
            .with_reply(terraswap_pair::contract::reply),
    ));
    let token_id = app.store_code(Box::new(ContractWrapper::new(
        terraswap_token::contract::execute,
        terraswap_token::contract::instantiate,
        terraswap_token::contract::query,
    )));
    let users: Vec<Addr> = (0..n).map(|i| Addr::unchecked(format!("user{i}"))).collect();
    let amts = [a, bb];
    for u in &users {
        app.sudo(SudoMsg::Bank(BankSudo::Mint { to_address: u.to_string(), amount: vec![coin(JUNK, "ujunk")] })).map_err(es)?;
    }
    let mut tokens: [Option<Addr>; 2] = [None, None];
    for k in 0..2 {
        if kinds[k] {
            for u in &users {
                if amts[k] > 0 {
                    app.sudo(SudoMsg::Bank(BankSudo::Mint { to_address: u.to_string(), amount: vec![coin(amts[k], DENOMS[k])] })).map_err(es)?;
                }
            }
        } else {
            let t = app
                .instantiate_contract(
                    token_id,
                    owner.clone(),
                    &white_whale_std::pool_network::token::InstantiateMsg {
                        name: format!("token{k}"),
                        symbol: format!("TOK{}", ["A", "B"][k]),
                        decimals: 6,
                        initial_balances: users.iter().map(|u| cw20::Cw20Coin { address: u.to_string(), amount: amts[k].into() }).collect(),
                        mint: Some(cw20::MinterResponse { minter: minter.to_string(), cap: None }),
                    },
                    &[],
                    format!("token{k}"),
                    None,
                )
                .map_err(es)?;
            tokens[k] = Some(t);
        }
    }
    // `sp=<n>`: how the DEPLOYER spells the cw20 assets' addresses in the InstantiateMsg (addresses are
    // case-insensitive: `addr_canonicalize` accepts any casing and the pair stores the canonical form, so the
    // pool must behave exactly the same; the model does not look at names): 0 as the chain prints them,
    // 1 upper case, 2 mixed case (every other letter)
    let spell = |a: String| -> String {
        match sp % 3 {
            1 => a.to_uppercase(),
            2 => a.chars().enumerate().map(|(i, c)| if i % 2 == 0 { c.to_ascii_uppercase() } else { c }).collect(),
            _ => a,
        }
    };
    let info = |k: usize| -> AssetInfo {
        if kinds[k] {
            AssetInfo::NativeToken { denom: DENOMS[k].into() }
        } else {
            AssetInfo::Token { contract_addr: spell(tokens[k].as_ref().unwrap().to_string()) }
        }
    };
    let inst = {
        let appr = &mut app;
        guarded(|| {
            appr.instantiate_contract(
                pair_id,
                owner.clone(),
                &p::InstantiateMsg {
                    asset_infos: [info(0), info(1)],
                    token_code_id: token_id,
                    asset_decimals: match ss {
                        Some((_, d0, d1)) => [d0, d1],
                        None => [6, 6],
                    },
                    pool_fees: pool_fee(fees.0, fees.1, fees.2),
                    fee_collector_addr: collector.to_string(),
                    pair_type: match ss {
                        Some((amp, _, _)) => PairType::StableSwap { amp },
                        None => PairType::ConstantProduct,
                    },
                    token_factory_lp: false,
                },
                &[],
                "pair",
                None,
            )
        })
    };
    let pair = match inst {
        Outcome::Ok(a) => a,
        _ => return Ok(None),
    };
    let pi: PairInfo = app.wrap().query_wasm_smart(&pair, &p::QueryMsg::Pair {}).map_err(es)?;
    let lp = match pi.liquidity_token {
        AssetInfo::Token { contract_addr } => Addr::unchecked(contract_addr),
        _ => return Err("native LP".into()),
    };
    // allowances: every user lets the pair pull its cw20 assets
    for k in 0..2 {
        if let Some(t) = &tokens[k] {
            for u in &users {
                app.execute_contract(u.clone(), t.clone(), &Cw20ExecuteMsg::IncreaseAllowance { spender: pair.to_string(), amount: Uint128::MAX, expires: None }, &[])
                    .map_err(es)?;
            }
        }
    }
    Ok(Some(World { app, pair, lp, kinds, denoms: DENOMS, tokens, users, owner, collector, collector2, minter, cp: ss.is_none(), chg: [Uint512::zero(); 2], sent: [Uint512::zero(); 2], brn: [Uint512::zero(); 2] }))
}

/// the amounts of the pair's `swap` response attributes: (return, spread, swap fee, protocol fee, burn fee)
fn swap_attrs(res: &AppResponse, pair: &Addr) -> Vec<[u128; 5]> {
    let mut out = vec![];
    for ev in res.events.iter().filter(|e| e.ty == "wasm") {
        let get = |k: &str| ev.attributes.iter().find(|a| a.key == k).map(|a| a.value.clone());
        if get("_contract_addr").as_deref() != Some(pair.as_str()) || get("action").as_deref() != Some("swap") {
            continue;
        }
        let n = |k: &str| get(k).and_then(|v| v.parse::<u128>().ok()).unwrap_or(u128::MAX);
        out.push([n("return_amount"), n("spread_amount"), n("swap_fee_amount"), n("protocol_fee_amount"), n("burn_fee_amount")]);
    }
    out
}

/// the C01 monitors state the CONSTANT-PRODUCT property; on a stableswap pair (variant `ss`, run for
/// C07) they are recorded under a tag no check reads
fn c01_tag(w: &World) -> &'static str {
    if w.cp {
        "C01"
    } else {
        "C01-not-applicable-to-stableswap"
    }
}

fn parse_opt(s: &str) -> Option<Option<u128>> {
    if s == "none" {
        Some(None)
    } else {
        s.parse::<u128>().ok().map(Some)
    }
}

#[derive(Default)]
pub struct PairEngine {
    variant: String,
    w: Option<World>,
    len: u64,
    nusers: usize,
    /// the last op was a successful provide by `u` for itself: (u, d0, d1, share, supply before, reserves before)
    last_provide: Option<(usize, u128, u128, u128, u128, [u128; 2])>,
    ubal: [u128; 2],
    /// scripted "whale" history: balances of 2^127 per user, a 90 % protocol fee, swaps of the size of the
    /// reserves in alternating directions with a collection after each one (and the collector switched when
    /// its balance nears the u128 limit) — the one way a LIFETIME fee counter can pass u128::MAX while every
    /// balance stays below it
    whale: bool,
}

/// r0·r1·S'² ≤ r0'·r1'·S²  (LP value = sqrt(r0 r1)/S never falls), exact in 512 bits; None = does not fit
fn value_not_lower(pre: &[u128; 3], post: &[u128; 3]) -> Option<bool> {
    let l = u512(pre[0]).checked_mul(u512(pre[1])).ok()?.checked_mul(u512(post[2])).ok()?.checked_mul(u512(post[2])).ok()?;
    let r = u512(post[0]).checked_mul(u512(post[1])).ok()?.checked_mul(u512(pre[2])).ok()?.checked_mul(u512(pre[2])).ok()?;
    Some(l <= r)
}

impl PairEngine {
    pub fn new(variant: &str) -> Self {
        PairEngine { variant: variant.into(), ..Default::default() }
    }
    fn do_init(&mut self, ws: &[&str]) -> String {
        let mut kv = std::collections::BTreeMap::new();
        for t in &ws[2..] {
            match t.split_once('=') {
                Some((k, v)) => {
                    kv.insert(k.to_string(), v.to_string());
                }
                None => return "bad-op".into(),
            }
        }
        let kind = |k: &str| match kv.get(k).map(|s| s.as_str()) {
            Some("n") => Some(true),
            Some("c") => Some(false),
            _ => None,
        };
        let num = |k: &str| kv.get(k).and_then(|v| v.parse::<u128>().ok());
        let (k0, k1, pf, sf, bf, n, a, bb) = match (kind("k0"), kind("k1"), num("p"), num("s"), num("b"), num("n"), num("a"), num("bb")) {
            (Some(a1), Some(a2), Some(a3), Some(a4), Some(a5), Some(a6), Some(a7), Some(a8)) => (a1, a2, a3, a4, a5, a6, a7, a8),
            _ => return "bad-op".into(),
        };
        if n == 0 || n > 8 {
            return "bad-op".into();
        }
        let ss = match kv.get("curve").map(|x| x.as_str()) {
            None | Some("cp") => None,
            Some("ss") => match (num("amp"), num("d0"), num("d1")) {
                (Some(amp), Some(d0), Some(d1)) if amp <= u64::MAX as u128 && d0 <= 255 && d1 <= 255 => Some((amp as u64, d0 as u8, d1 as u8)),
                _ => return "bad-op".into(),
            },
            _ => return "bad-op".into(),
        };
        self.last_provide = None;
        self.nusers = n as usize;
        self.ubal = [a, bb];
        let dn = num("dn").unwrap_or(0) as usize;
        let sp = num("sp").unwrap_or(0) as usize;
        match build([k0, k1], (pf, sf, bf), n as usize, a, bb, ss, dn, sp) {
            Ok(Some(w)) => {
                let o = w.observe();
                let s = w.show(&o);
                self.w = Some(w);
                format!("ok {s}")
            }
            Ok(None) => {
                self.w = None;
                "err".into()
            }
            Err(e) => {
                eprintln!("pair: world setup failed: {e}");
                std::process::exit(3)
            }
        }
    }

    /// monitors that hold for EVERY operation (successful or not)
    fn monitor_common(w: &World, mon: &mut Monitor, op: &str, ok: bool, pre: &Obs, post: &Obs) {
        let d = |s: String| move || s;
        let c01 = c01_tag(w);
        // ---- C01 solvency: the Pool query answers, and balance = reported reserve + pending fees
        let solvent = match &post.pool {
            Some(r) => (0..2).all(|k| post.bal[k] >= post.pend[k] && r[k] == post.bal[k] - post.pend[k]) && r[2] == post.sup,
            None => false,
        };
        mon.check(c01, "solvent", solvent, d(format!("after {op}: balances {:?} pending {:?} reported {:?}", post.bal, post.pend, post.pool)));
        // ---- C01 minimum liquidity locked: the pair's own LP never leaves, and is >= 1000 once there is supply
        mon.check(
            c01,
            "min_liquidity_locked",
            post.lpp >= pre.lpp && (post.sup == 0 || post.lpp >= MIN_LIQ) && post.lpp <= post.sup,
            d(format!("after {op}: pair's LP {} -> {}, supply {}", pre.lpp, post.lpp, post.sup)),
        );
        if !ok {
            mon.check(c01, "failed_op_unchanged", pre == post, d(format!("failed {op} changed the state: {pre:?} -> {post:?}")));
            return;
        }
        // ---- C01 LP value never falls (needs supply before and after)
        if let (Some(a), Some(b)) = (&pre.pool, &post.pool) {
            if a[2] > 0 && b[2] > 0 {
                match value_not_lower(a, b) {
                    Some(v) => {
                        mon.check(
                            c01,
                            "lp_value_monotone",
                            v,
                            d(format!("{op}: reserves/supply {a:?} -> {b:?}: sqrt(r0 r1)/S fell")),
                        );
                        mon.stat("value_checked");
                    }
                    None => mon.stat("value_skipped_512bit"),
                }
            }
        }
        // ---- C07: the per-asset form of the fee queries reports the same ledgers as the listing form
        let by_id = w.fees_by_id();
        mon.check(
            "C07",
            "pair_fee_queries_agree",
            by_id[0] == post.pend && by_id[1] == post.all && by_id[2] == post.burn,
            d(format!("after {op}: by asset id {by_id:?} vs listing pending {:?} all-time {:?} burned {:?}", post.pend, post.all, post.burn)),
        );
        // ---- C07: ledgers vs harness-side ghost sums
        for k in 0..2 {
            mon.check(
                "C07",
                "pair_ledger_eq_charged_minus_sent",
                w.sent[k] <= w.chg[k] && u512(post.pend[k]) == w.chg[k] - w.sent[k],
                d(format!("after {op}: asset {k} pending {} but charged {} - sent {}", post.pend[k], w.chg[k], w.sent[k])),
            );
            mon.check(
                "C07",
                "pair_all_time_eq_charged",
                u512(post.all[k]) == w.chg[k] && u512(post.burn[k]) == w.brn[k] && post.all[k] >= pre.all[k] && post.burn[k] >= pre.burn[k],
                d(format!("after {op}: asset {k} all-time {} burned {} vs charged {} burn charges {}", post.all[k], post.burn[k], w.chg[k], w.brn[k])),
            );
            mon.check(
                "C07",
                "pair_collector_balance_eq_sent",
                u512(post.col[k]) + u512(post.colb[k]) == w.sent[k],
                d(format!("after {op}: asset {k} collectors hold {} + {} but {} was collected", post.col[k], post.colb[k], w.sent[k])),
            );
        }
    }

    fn exec_op(&mut self, ws0: &[&str], mon: &mut Monitor) -> String {
        let n = self.nusers;
        let whale = self.whale;
        let w = self.w.as_mut().unwrap();
        let c01 = c01_tag(w);
        let pre0 = w.observe();
        let user = |s: &str| s.parse::<usize>().ok().filter(|u| *u < n);
        // `fund u which amt <op…>`: the message `<op…>` (collect / setfees / setcol — the messages that
        // take no funds) is sent with `amt` of native asset `which` attached, paid by user `u`. The
        // coins land on the pair like a donation; nothing else may follow from them.
        let (stray, ws): (Option<(usize, usize, u128)>, &[&str]) = if ws0[0] == "fund" {
            if ws0.len() < 5 {
                return "bad-op".into();
            }
            match (user(ws0[1]), ws0[2].parse::<usize>(), ws0[3].parse::<u128>()) {
                (Some(u), Ok(k), Ok(a)) if k < 2 && w.kinds[k] && matches!(ws0[4], "collect" | "setfees" | "setcol") => {
                    // a user-sent inner message must be sent by the payer
                    if ws0[5..].first().map(|x| *x != "o").unwrap_or(true) {
                        let inner = ws0[5].strip_prefix('u').unwrap_or(ws0[5]);
                        if user(inner) != Some(u) {
                            return "bad-op".into();
                        }
                    }
                    (Some((u, k, a)), &ws0[4..])
                }
                _ => return "bad-op".into(),
            }
        } else {
            (None, ws0)
        };
        let mut pre = pre0.clone();
        let mut sf: Vec<Coin> = vec![];
        let mut owner_funded = false;
        if let Some((u, k, a)) = stray {
            if a > 0 {
                sf.push(coin(a, w.denoms[k]));
            }
            if pre.users[u][k] >= a {
                pre.users[u][k] -= a;
                pre.bal[k] += a;
                if let Some(pl) = pre.pool.as_mut() {
                    pl[k] += a;
                }
            }
            if ws.len() > 1 && ws[1] == "o" && a > 0 {
                // the owner holds no coins: the payer hands them over first (returned if the message fails)
                let (from, to) = (w.users[u].clone(), w.owner.clone());
                owner_funded = w.app.send_tokens(from, to, &sf).is_ok();
            }
            mon.stat("stray_funds_attached");
        }
        let pair = w.pair.clone();
        let mut lastp = None;
        let prev_provide = self.last_provide.take();
        let op = ws0.join(" ");
        let d = |s: String| move || s;
        let out: Outcome<AppResponse> = match (ws[0], ws.len()) {
            ("provide", 7) => {
                let (u, r, d0, d1, tol, ord) = match (user(ws[1]), user(ws[2]), ws[3].parse::<u128>(), ws[4].parse::<u128>(), parse_opt(ws[5]), ws[6].parse::<u8>()) {
                    (Some(a), Some(b), Ok(c), Ok(dd), Some(e), Ok(f)) => (a, b, c, dd, e, f),
                    _ => return "bad-op".into(),
                };
                let ds = [d0, d1];
                let mut funds: Vec<Coin> = vec![];
                for k in 0..2 {
                    if w.kinds[k] && ds[k] > 0 {
                        funds.push(coin(ds[k], w.denoms[k]));
                    }
                }
                let mut assets = [Asset { info: w.info(0), amount: d0.into() }, Asset { info: w.info(1), amount: d1.into() }];
                if ord == 1 {
                    assets.swap(0, 1);
                }
                let sender = w.users[u].clone();
                let rcv = w.users[r].to_string();
                let app = &mut w.app;
                let o = guarded(|| {
                    app.execute_contract(
                        sender.clone(),
                        pair.clone(),
                        &p::ExecuteMsg::ProvideLiquidity { assets: assets.clone(), slippage_tolerance: tol.map(Decimal::raw), receiver: Some(rcv.clone()) },
                        &funds,
                    )
                });
                // ---- C15 on a pool WITH A HISTORY (pending protocol fees, donations, either asset kind): a deposit
                // into a constant-product pool is accepted iff it satisfies the documented ratio bound on the
                // REPORTED reserves; judged when the deposit went through or was refused for slippage (other
                // refusals — funds, zero shares — are not this property's business)
                if w.cp && !whale && pre.sup > 0 {
                    if let Some(pl) = pre.pool {
                        let verdict = match &o {
                            Outcome::Ok(_) => Some("ok"),
                            Outcome::Err(e) if e.contains("Slippage tolerance exceeded") => Some("err"),
                            // a panic here comes from the share arithmetic on extreme pools (the model predicts
                            // it), not from the tolerance check, which the pure-call engine judges for panics
                            _ => None,
                        };
                        match verdict {
                            Some(st) => {
                                let desc = format!("{op}: reported reserves ({},{}) pending {:?}", pl[0], pl[1], pre.pend);
                                crate::engines::slippage::monitor_cp_tol(mon, "pair_hist_deposit", tol, [d0, d1], [pl[0], pl[1]], st, &|| desc.clone());
                            }
                            None => mon.stat("pair_hist_deposit_refused_for_another_reason"),
                        }
                    }
                }
                if let Outcome::Ok(_) = &o {
                    let post = w.observe();
                    let share = post.users[r][2].saturating_sub(pre.users[r][2]);
                    mon.stat(if pre.sup == 0 { "provide_ok_first" } else { "provide_ok_later" });
                    if share == 0 {
                        mon.stat("provide_ok_zero_share");
                    }
                    // ---- C01 first deposit locks exactly the minimum liquidity in the pair
                    if pre.sup == 0 {
                        mon.check(
                            c01,
                            "first_deposit_locks_minimum",
                            post.lpp == pre.lpp + MIN_LIQ && post.sup == MIN_LIQ + share,
                            d(format!("{op}: pair's LP {} -> {}, supply {}, share {share}", pre.lpp, post.lpp, post.sup)),
                        );
                    } else {
                        // ---- C01 mint <= pro rata on both assets: share·r_i <= d_i·S
                        if let Some(rr) = &pre.pool {
                            let okm = (0..2).all(|k| u512(share) * u512(rr[k]) <= u512(ds[k]) * u512(pre.sup));
                            mon.check(c01, "mint_le_pro_rata", okm, d(format!("{op}: minted {share} on reserves {rr:?}")));
                        }
                        mon.check(c01, "supply_grows_by_share", post.sup == pre.sup + share && post.lpp == pre.lpp, d(format!("{op}: supply {} -> {} share {share}", pre.sup, post.sup)));
                    }
                    // exactly the deposits moved
                    let moved = (0..2).all(|k| post.bal[k] == pre.bal[k] + ds[k]) && (0..2).all(|k| post.users[u][k] + ds[k] == pre.users[u][k]);
                    mon.check(c01, "provide_moves_exactly_deposits", moved, d(format!("{op}: pair {:?} -> {:?}", pre.bal, post.bal)));
                    if u == r {
                        lastp = Some((u, d0, d1, share, pre.sup, [pre.bal[0], pre.bal[1]]));
                    }
                }
                o
            }
            ("swap", 6) => {
                let (u, dir, off, ms, to) = match (user(ws[1]), ws[2].parse::<usize>(), ws[3].parse::<u128>(), parse_opt(ws[4]), user(ws[5])) {
                    (Some(a), Ok(b), Ok(c), Some(dd), Some(e)) if b <= 1 => (a, b, c, dd, e),
                    _ => return "bad-op".into(),
                };
                // ---- C02: the quote for this very swap, taken in the same state
                let sim: Outcome<p::SimulationResponse> = {
                    let (app, info) = (&w.app, w.info(dir));
                    guarded(|| app.wrap().query_wasm_smart(&pair, &p::QueryMsg::Simulation { offer_asset: Asset { info: info.clone(), amount: off.into() } }))
                };
                let o = Self::run_swap(w, u, dir, off, off, ms, Some(to), false);
                if w.cp {
                    if let (Outcome::Ok(sr), Outcome::Ok(res)) = (&sim, &o) {
                        let a = swap_attrs(res, &w.pair).first().cloned().unwrap_or([u128::MAX; 5]);
                        let q = [sr.return_amount.u128(), sr.spread_amount.u128(), sr.swap_fee_amount.u128(), sr.protocol_fee_amount.u128(), sr.burn_fee_amount.u128()];
                        mon.check("C02", "pair_simulation_eq_execution", q == a, d(format!("{op}: Simulation {q:?}, the swap itself {a:?}")));
                    }
                    // ---- C02 (the swap side of "the quote is what a swap does"): a swap that was just quoted, that
                    // its sender can pay, that pays out something and whose spread is within the 50 % it allows
                    // is not refused
                    if let Outcome::Ok(sr) = &sim {
                        let den = u512(sr.return_amount.u128()) + u512(sr.swap_fee_amount.u128()) + u512(sr.protocol_fee_amount.u128()) + u512(sr.burn_fee_amount.u128()) + u512(sr.spread_amount.u128());
                        let within = u512(sr.spread_amount.u128()) * u512(2) <= den;
                        if !whale && ms == Some(E18 / 2) && within && off > 0 && sr.return_amount.u128() > 0 && pre.users[u][dir] >= off {
                            mon.stat("swap_quoted_funded_within_limit");
                            mon.check("C02", "pair_quoted_swap_executes", matches!(o, Outcome::Ok(_)), d(format!("{op}: Simulation answered {:?} but the swap was refused ({})", (sr.return_amount.u128(), sr.spread_amount.u128()), status(&o))));
                        }
                    }
                    if let Outcome::Ok(sr) = &sim {
                        // proceeds + the three fees = the constant-product gross output on the REPORTED reserves
                        // (balance − pending protocol fees, each looked up under the asset's own name)
                        let (ro, ra) = (pre.bal[dir].saturating_sub(pre.pend[dir]), pre.bal[1 - dir].saturating_sub(pre.pend[1 - dir]));
                        if ro.checked_add(off).map(|x| x > 0).unwrap_or(false) {
                            let gross = u512(ra) * u512(off) / (u512(ro) + u512(off));
                            let parts = u512(sr.return_amount.u128()) + u512(sr.swap_fee_amount.u128()) + u512(sr.protocol_fee_amount.u128()) + u512(sr.burn_fee_amount.u128());
                            mon.check("C02", "pair_simulation_gross_identity_on_reported_reserves", parts == gross, d(format!("{op}: quote sums to {parts}, reported reserves ({ro},{ra}) give gross {gross}")));
                        }
                    }
                }
                Self::after_swap(w, mon, &op, &o, &pre, u, to, dir, off);
                o
            }
            ("swapbad", 5) => {
                let (u, dir, off, sent) = match (user(ws[1]), ws[2].parse::<usize>(), ws[3].parse::<u128>(), ws[4].parse::<u128>()) {
                    (Some(a), Ok(b), Ok(c), Ok(dd)) if b <= 1 => (a, b, c, dd),
                    _ => return "bad-op".into(),
                };
                let o = Self::run_swap(w, u, dir, off, sent, None, None, true);
                Self::after_swap(w, mon, &op, &o, &pre, u, u, dir, off);
                o
            }
            ("withdraw", 3) => {
                let (u, amt) = match (user(ws[1]), ws[2].parse::<u128>()) {
                    (Some(a), Ok(b)) => (a, b),
                    _ => return "bad-op".into(),
                };
                let sender = w.users[u].clone();
                let lp = w.lp.clone();
                let app = &mut w.app;
                let o = guarded(|| {
                    app.execute_contract(
                        sender.clone(),
                        lp.clone(),
                        &Cw20ExecuteMsg::Send { contract: pair.to_string(), amount: amt.into(), msg: to_json_binary(&p::Cw20HookMsg::WithdrawLiquidity {}).unwrap() },
                        &[],
                    )
                });
                if let Outcome::Ok(_) = &o {
                    let post = w.observe();
                    let got = [post.users[u][0].saturating_sub(pre.users[u][0]), post.users[u][1].saturating_sub(pre.users[u][1])];
                    mon.stat("withdraw_ok");
                    if amt + MIN_LIQ >= pre.sup {
                        mon.stat("withdraw_ok_all_but_locked");
                    }
                    if let Some(rr) = &pre.pool {
                        // ---- C01 a withdrawal never pays more than pro rata: x_i·S <= r_i·amt
                        let okw = (0..2).all(|k| u512(got[k]) * u512(pre.sup) <= u512(rr[k]) * u512(amt));
                        mon.check(c01, "withdraw_le_pro_rata", okw, d(format!("{op}: got {got:?} of reserves {rr:?} supply {}", pre.sup)));
                    }
                    let moved = (0..2).all(|k| post.bal[k] + got[k] == pre.bal[k]) && post.sup + amt == pre.sup && post.users[u][2] + amt == pre.users[u][2] && post.lpp == pre.lpp;
                    mon.check(c01, "withdraw_burns_exactly", moved, d(format!("{op}: supply {} -> {}, pair {:?} -> {:?}, got {got:?}", pre.sup, post.sup, pre.bal, post.bal)));
                    // ---- C01 deposit then immediate withdrawal of the minted shares never returns more than deposited
                    if let Some((pu, d0, d1, share, sup_before, bal_before)) = prev_provide {
                        if pu == u && amt <= share {
                            let donated_empty = sup_before == 0 && (bal_before[0] > 0 || bal_before[1] > 0);
                            let tag = if donated_empty { "empty_pool_held_donation" } else { "" };
                            if !donated_empty {
                                mon.check_tag(c01, "deposit_then_withdraw_le", tag, got[0] <= d0 && got[1] <= d1, d(format!("deposit ({d0},{d1}) minted {share}; {op} returned {got:?}")));
                                mon.stat("deposit_then_withdraw_checked");
                            } else {
                                mon.stat("deposit_then_withdraw_skipped_donated_empty_pool");
                            }
                        }
                    }
                }
                o
            }
            ("collect", 2) => {
                let u = match user(ws[1]) {
                    Some(u) => u,
                    None => return "bad-op".into(),
                };
                let sender = w.users[u].clone();
                let app = &mut w.app;
                let o = guarded(|| app.execute_contract(sender.clone(), pair.clone(), &p::ExecuteMsg::CollectProtocolFees {}, &sf));
                if let Outcome::Ok(_) = &o {
                    let post = w.observe();
                    for k in 0..2 {
                        // what the CONFIGURED collector received; the other collector must receive nothing
                        let (delta, other) = if pre.use_b {
                            (post.colb[k].saturating_sub(pre.colb[k]), post.col[k].saturating_sub(pre.col[k]))
                        } else {
                            (post.col[k].saturating_sub(pre.col[k]), post.colb[k].saturating_sub(pre.colb[k]))
                        };
                        mon.check("C07", "pair_collect_exact", post.col[k] >= pre.col[k] && post.colb[k] >= pre.colb[k], d(format!("{op}: a collector's balance fell")));
                        w.sent[k] += u512(delta) + u512(other);
                        mon.check("C07", "pair_collect_to_configured_collector", other == 0, d(format!("{op}: asset {k}: the collector that is NOT configured received {other}")));
                        let above = pre.pend[k] > THRESHOLD;
                        mon.stat(if above { "collect_above_threshold" } else if pre.pend[k] == 0 { "collect_zero" } else { "collect_at_or_below_threshold" });
                        if pre.pend[k] + 2 >= THRESHOLD && pre.pend[k] <= THRESHOLD + 2 {
                            mon.stat(&format!("collect_pending_{}", pre.pend[k]));
                        }
                        // ---- C07 collect transfers exactly the pending entry (above the threshold) and resets it
                        let exact = if above { delta == pre.pend[k] && post.pend[k] == 0 } else { delta == 0 && post.pend[k] == pre.pend[k] };
                        mon.check("C07", "pair_collect_exact", exact && post.bal[k] + delta == pre.bal[k], d(format!("{op}: asset {k} pending {} -> {}, collector +{delta}, pair {} -> {}", pre.pend[k], post.pend[k], pre.bal[k], post.bal[k])));
                    }
                    // ---- C07 … to no one else, reserves and counters untouched
                    mon.check(
                        "C07",
                        "pair_collect_nothing_else_moves",
                        post.users == pre.users && post.pool == pre.pool && post.all == pre.all && post.burn == pre.burn && post.sup == pre.sup && post.lpp == pre.lpp && post.tot == pre.tot,
                        d(format!("{op}: {pre:?} -> {post:?}")),
                    );
                }
                o
            }
            ("setfees", 5) => {
                let sender = if ws[1] == "o" {
                    w.owner.clone()
                } else {
                    match ws[1].strip_prefix('u').and_then(|x| x.parse::<usize>().ok()).filter(|u| *u < n) {
                        Some(u) => w.users[u].clone(),
                        None => return "bad-op".into(),
                    }
                };
                let f = match parse_u128s(&ws[2..]) {
                    Some(f) => f,
                    None => return "bad-op".into(),
                };
                let app = &mut w.app;
                let o = guarded(|| {
                    app.execute_contract(
                        sender.clone(),
                        pair.clone(),
                        &p::ExecuteMsg::UpdateConfig { owner: None, fee_collector_addr: None, pool_fees: Some(pool_fee(f[0], f[1], f[2])), feature_toggle: None },
                        &sf,
                    )
                });
                if let Outcome::Ok(_) = &o {
                    mon.stat("setfees_ok");
                }
                o
            }
            ("setcol", 3) => {
                let sender = if ws[1] == "o" {
                    w.owner.clone()
                } else {
                    match ws[1].strip_prefix('u').and_then(|x| x.parse::<usize>().ok()).filter(|u| *u < n) {
                        Some(u) => w.users[u].clone(),
                        None => return "bad-op".into(),
                    }
                };
                let target = match ws[2] {
                    "0" => w.collector.to_string(),
                    "1" => w.collector2.to_string(),
                    _ => return "bad-op".into(),
                };
                let app = &mut w.app;
                guarded(|| {
                    app.execute_contract(
                        sender.clone(),
                        pair.clone(),
                        &p::ExecuteMsg::UpdateConfig { owner: None, fee_collector_addr: Some(target.clone()), pool_fees: None, feature_toggle: None },
                        &sf,
                    )
                })
            }
            ("donate", 4) => {
                let (u, which, amt) = match (user(ws[1]), ws[2].parse::<usize>(), ws[3].parse::<u128>()) {
                    (Some(a), Ok(b), Ok(c)) => (a, b, c),
                    _ => return "bad-op".into(),
                };
                let sender = w.users[u].clone();
                let (kinds, tokens, lp, denoms) = (w.kinds, w.tokens.clone(), w.lp.clone(), w.denoms);
                let app = &mut w.app;
                guarded(|| {
                    if which < 2 && kinds[which] {
                        app.send_tokens(sender.clone(), pair.clone(), &[coin(amt, denoms[which])])
                    } else if which <= 2 {
                        let t = if which == 2 { lp.clone() } else { tokens[which].clone().unwrap() };
                        app.execute_contract(sender.clone(), t, &Cw20ExecuteMsg::Transfer { recipient: pair.to_string(), amount: amt.into() }, &[])
                    } else {
                        Err(cosmwasm_std::StdError::generic_err("no such asset").into())
                    }
                })
            }
            ("provbad", 5) => {
                let (u, d0, d1, k) = match (user(ws[1]), ws[2].parse::<u128>(), ws[3].parse::<u128>(), ws[4].parse::<usize>()) {
                    (Some(a), Ok(b), Ok(c), Ok(dd)) if dd <= 1 => (a, b, c, dd),
                    _ => return "bad-op".into(),
                };
                let ds = [d0, d1];
                let o = 1 - k;
                let mut funds: Vec<Coin> = vec![];
                if w.kinds[o] && ds[o] > 0 {
                    funds.push(coin(ds[o], w.denoms[o]));
                }
                // asset k with the wrong kind
                let wrong = if w.kinds[k] {
                    AssetInfo::Token { contract_addr: w.denoms[k].to_string() }
                } else {
                    AssetInfo::NativeToken { denom: w.tokens[k].as_ref().unwrap().to_string() }
                };
                let mut assets = [Asset { info: w.info(0), amount: d0.into() }, Asset { info: w.info(1), amount: d1.into() }];
                assets[k].info = wrong;
                let sender = w.users[u].clone();
                let app = &mut w.app;
                guarded(|| {
                    app.execute_contract(sender.clone(), pair.clone(), &p::ExecuteMsg::ProvideLiquidity { assets: assets.clone(), slippage_tolerance: None, receiver: None }, &funds)
                })
            }
            ("wdirect", 4) => {
                let (u, dn, amt) = match (user(ws[1]), ws[2].parse::<usize>(), ws[3].parse::<u128>()) {
                    (Some(a), Ok(b), Ok(c)) if b <= 3 => (a, b, c),
                    _ => return "bad-op".into(),
                };
                let sender = w.users[u].clone();
                let funds: Vec<Coin> = match dn {
                    0 | 1 => vec![coin(amt, w.denoms[dn])],
                    2 => vec![coin(amt, "ujunk")],
                    _ => vec![],
                };
                let app = &mut w.app;
                guarded(|| app.execute_contract(sender.clone(), pair.clone(), &p::ExecuteMsg::WithdrawLiquidity {}, &funds))
            }
            ("wfake", 4) => {
                let (u, a, amt) = match (user(ws[1]), ws[2].parse::<usize>(), ws[3].parse::<u128>()) {
                    (Some(a), Ok(b), Ok(c)) if b <= 1 => (a, b, c),
                    _ => return "bad-op".into(),
                };
                let sender = w.users[u].clone();
                let token = w.tokens[a].clone();
                let app = &mut w.app;
                guarded(|| match &token {
                    Some(t) => app.execute_contract(
                        sender.clone(),
                        t.clone(),
                        &Cw20ExecuteMsg::Send { contract: pair.to_string(), amount: amt.into(), msg: to_json_binary(&p::Cw20HookMsg::WithdrawLiquidity {}).unwrap() },
                        &[],
                    ),
                    None => Err(cosmwasm_std::StdError::generic_err("native asset has no Send").into()),
                })
            }
            ("sfake", 3) => {
                let (u, amt) = match (user(ws[1]), ws[2].parse::<u128>()) {
                    (Some(a), Ok(b)) => (a, b),
                    _ => return "bad-op".into(),
                };
                let sender = w.users[u].clone();
                let lp = w.lp.clone();
                let app = &mut w.app;
                guarded(|| {
                    app.execute_contract(
                        sender.clone(),
                        lp.clone(),
                        &Cw20ExecuteMsg::Send {
                            contract: pair.to_string(),
                            amount: amt.into(),
                            msg: to_json_binary(&p::Cw20HookMsg::Swap { belief_price: None, max_spread: Some(Decimal::percent(50)), to: None }).unwrap(),
                        },
                        &[],
                    )
                })
            }
            _ => return "bad-op".into(),
        };
        let ok = matches!(out, Outcome::Ok(_));
        if owner_funded && !ok {
            let (from, to) = (w.owner.clone(), w.users[stray.unwrap().0].clone());
            let _ = w.app.send_tokens(from, to, &sf);
        }
        let post = w.observe();
        // ---- C07 burned amounts leave circulation / nothing else is created or destroyed
        if ok && ws[0] != "swap" && ws[0] != "swapbad" {
            mon.check("C07", "pair_only_swaps_charge", post.all == pre.all && post.burn == pre.burn && post.tot == pre.tot && (ws[0] == "collect" || (post.pend == pre.pend && post.col == pre.col && post.colb == pre.colb)), d(format!("{op}: {pre:?} -> {post:?}")));
        }
        // ---- C07 / C01: nobody else's funds move — only the sender may lose, only sender and named
        // receiver may change at all
        if ok {
            let idx = |t: &str| t.parse::<usize>().ok().filter(|u| *u < n);
            let (actor, receiver): (Option<usize>, Option<usize>) = match ws[0] {
                "provide" => (idx(ws[1]), idx(ws[2])),
                "swap" => (idx(ws[1]), idx(ws[5])),
                "withdraw" | "donate" | "swapbad" => (idx(ws[1]), None),
                _ => (None, None),
            };
            let bystanders_ok = (0..n).all(|v| {
                if Some(v) == actor {
                    true
                } else if Some(v) == receiver {
                    (0..3).all(|k| post.users[v][k] >= pre.users[v][k])
                } else {
                    post.users[v] == pre.users[v]
                }
            });
            mon.check("C07", "pair_nothing_else_moves", bystanders_ok, d(format!("{op}: users {:?} -> {:?}", pre.users, post.users)));
        }
        Self::monitor_common(w, mon, &op, ok, if ok { &pre } else { &pre0 }, &post);
        self.last_provide = lastp;
        mon.stat(&format!("{}_{}", ws[0], status(&out)));
        format!("{} {}", status(&out), w.show(&post))
    }

    #[allow(clippy::too_many_arguments)]
    fn run_swap(w: &mut World, u: usize, dir: usize, off: u128, sent: u128, ms: Option<u128>, to: Option<usize>, force_execute: bool) -> Outcome<AppResponse> {
        let sender = w.users[u].clone();
        let pair = w.pair.clone();
        let info = w.info(dir);
        let native = w.kinds[dir];
        let token = w.tokens[dir].clone();
        let denom = w.denoms[dir];
        let to_s = to.map(|t| w.users[t].to_string());
        let app = &mut w.app;
        guarded(|| {
            if native || force_execute {
                let funds: Vec<Coin> = if native { vec![coin(sent, denom)] } else { vec![] };
                app.execute_contract(
                    sender.clone(),
                    pair.clone(),
                    &p::ExecuteMsg::Swap { offer_asset: Asset { info: info.clone(), amount: off.into() }, belief_price: None, max_spread: ms.map(Decimal::raw), to: to_s.clone() },
                    &funds,
                )
            } else {
                app.execute_contract(
                    sender.clone(),
                    token.clone().unwrap(),
                    &Cw20ExecuteMsg::Send {
                        contract: pair.to_string(),
                        amount: off.into(),
                        msg: to_json_binary(&p::Cw20HookMsg::Swap { belief_price: None, max_spread: ms.map(Decimal::raw), to: to_s.clone() }).unwrap(),
                    },
                    &[],
                )
            }
        })
    }

    #[allow(clippy::too_many_arguments)]
    fn after_swap(w: &mut World, mon: &mut Monitor, op: &str, o: &Outcome<AppResponse>, pre: &Obs, u: usize, to: usize, dir: usize, off: u128) {
        let d = |s: String| move || s;
        let c01 = c01_tag(w);
        if let Outcome::Ok(res) = o {
            let post = w.observe();
            let attrs = swap_attrs(res, &w.pair);
            let ask = 1 - dir;
            let a = attrs.first().cloned().unwrap_or([u128::MAX; 5]);
            if attrs.len() == 1 && a[3] != u128::MAX && a[4] != u128::MAX {
                w.chg[ask] += u512(a[3]);
                w.brn[ask] += u512(a[4]);
            }
            mon.stat(if w.kinds[dir] { "swap_ok_native_offer" } else { "swap_ok_cw20_offer" });
            if a[3] > 0 {
                mon.stat("swap_ok_nonzero_protocol_fee");
            }
            if a[4] > 0 {
                mon.stat("swap_ok_nonzero_burn_fee");
            }
            if a[0] == 0 {
                mon.stat("swap_ok_zero_return");
            }
            // what the receiver got and what the trader paid
            let got = post.users[to][ask].saturating_sub(pre.users[to][ask]);
            let paid = pre.users[u][dir].saturating_sub(post.users[u][dir]);
            // ---- C01: the swap fee stays in the reserves, the burn fee leaves, the protocol fee moves to the ledger
            let okm = attrs.len() == 1
                && got == a[0]
                && paid == off
                && post.bal[dir] == pre.bal[dir] + off
                && post.bal[ask] + a[0] + a[4] == pre.bal[ask]
                && post.pend[ask] == pre.pend[ask] + a[3]
                && post.pend[dir] == pre.pend[dir]
                && post.sup == pre.sup;
            mon.check(c01, "swap_moves_exactly", okm, d(format!("{op}: attrs {a:?} got {got} paid {paid}; pair {:?} -> {:?}, pending {:?} -> {:?}", pre.bal, post.bal, pre.pend, post.pend)));
            // ---- C01: constant product of the reported reserves never falls across a swap
            if let (Some(x), Some(y)) = (&pre.pool, &post.pool) {
                mon.check(c01, "swap_k_non_decreasing", u512(x[0]) * u512(x[1]) <= u512(y[0]) * u512(y[1]), d(format!("{op}: reserves {x:?} -> {y:?}")));
            }
            // ---- C07: burned amounts leave circulation, the collector gets nothing at swap time
            mon.check(
                "C07",
                "pair_burn_leaves_circulation",
                post.tot[ask] + u512(a[4]) == pre.tot[ask] && post.tot[dir] == pre.tot[dir] && u512(post.burn[ask]) == u512(pre.burn[ask]) + u512(a[4]) && post.col == pre.col && post.colb == pre.colb,
                d(format!("{op}: burn fee {} but circulating {:?} -> {:?}, burned ledger {:?} -> {:?}", a[4], pre.tot, post.tot, pre.burn, post.burn)),
            );
        }
    }

    // ------------------------------------------------------------------ generator
    fn gen_init(&mut self, rng: &mut Rng) -> String {
        let k = |rng: &mut Rng| if rng.chance(1, 2) { "n" } else { "c" };
        let (k0, k1) = (k(rng), k(rng));
        let (pf, sf, bf) = match rng.below(8) {
            0 => (0, 0, 0),
            1 => (E18 / 1000, 2 * E18 / 1000, 0),
            2 => (E18 / 1000, 2 * E18 / 1000, E18 / 1000),
            3 => (E18 / 100, 0, E18 / 100),
            _ => rng.valid_fees(),
        };
        let bits = match rng.below(10) {
            0 => rng.range(12, 20) as u32,
            1..=5 => rng.range(20, 64) as u32,
            6..=8 => rng.range(64, 100) as u32,
            _ => rng.range(100, 118) as u32,
        };
        let a = (1u128 << bits) + rng.u128() % (1u128 << bits);
        let b2 = match rng.below(4) {
            0 => a,
            1 => (a >> rng.range(1, 10)).max(2048),
            2 => (a.saturating_mul(1 << rng.range(1, 10))).min(1u128 << 119),
            _ => (1u128 << rng.range(12, 118)) + rng.u128() % (1u128 << 12),
        };
        self.nusers = 4;
        self.whale = self.variant != "ss" && rng.chance(1, 25);
        if self.whale {
            self.len = 90;
            return format!("init pair k0=n k1=n p={} s=0 b={} n=4 a={} bb={} dn={}", 9 * E18 / 10, if rng.chance(1, 2) { 0 } else { E18 / 20 }, 1u128 << 127, 1u128 << 127, rng.below(DENOM_SETS.len() as u64));
        }
        if self.variant == "ss" {
            // two-asset stableswap: balances within 2^12 .. 2^90, similar magnitudes after decimal normalisation
            let (d0, d1) = *rng.pick(&[(6u32, 6u32), (6, 6), (6, 8), (8, 6), (6, 18), (18, 6)]);
            let amp = *rng.pick(&[1u64, 2, 10, 85, 100, 100, 1000, 25_000, 1_000_000]);
            let whole = (1u128 << rng.range(4, 36)) + rng.u128() % (1u128 << 4);
            let a = whole * 10u128.pow(d0);
            let b2 = match rng.below(3) {
                0 => whole * 10u128.pow(d1),
                1 => (whole / (1 + rng.below(4) as u128)).max(1) * 10u128.pow(d1),
                _ => whole * (1 + rng.below(4) as u128) * 10u128.pow(d1),
            };
            let dn = rng.below(DENOM_SETS.len() as u64);
            let sp = if k0 == "c" || k1 == "c" { *rng.pick(&[0u64, 0, 1, 2]) } else { 0 };
            return format!("init pair k0={k0} k1={k1} p={pf} s={sf} b={bf} n=4 a={a} bb={b2} curve=ss amp={amp} d0={d0} d1={d1} dn={dn} sp={sp}");
        }
        let dn = rng.below(DENOM_SETS.len() as u64);
        // one cw20 world in two is deployed with its token addresses spelled in upper / mixed case
        let sp = if k0 == "c" || k1 == "c" { *rng.pick(&[0u64, 0, 1, 2]) } else { 0 };
        format!("init pair k0={k0} k1={k1} p={pf} s={sf} b={bf} n=4 a={a} bb={b2} dn={dn} sp={sp}")
    }
    fn gen_ms(rng: &mut Rng) -> String {
        match rng.below(20) {
            0..=12 => (E18 / 2).to_string(),
            13..=15 => "none".into(),
            16..=17 => rng.fee_share().to_string(),
            _ => E18.to_string(),
        }
    }
    fn gen_op(&mut self, rng: &mut Rng) -> String {
        let w = self.w.as_ref().unwrap();
        let o = w.observe();
        let n = self.nusers as u64;
        let u = rng.below(n) as usize;
        let res = o.pool.unwrap_or([0, 0, 0]);
        if self.whale && (o.sup == 0 || !rng.chance(1, 5)) {
            if o.sup == 0 {
                return format!("provide 0 0 {} {} none 0", 1u128 << 126, 1u128 << 126);
            }
            // a collection whenever something is pending, the other collector once this one is half full
            let cur = if o.use_b { o.colb } else { o.col };
            if cur[0].max(cur[1]) > (1u128 << 127) {
                let other = if o.use_b { o.col } else { o.colb };
                if other[0].max(other[1]) <= (1u128 << 127) {
                    return format!("setcol o {}", if o.use_b { 0 } else { 1 });
                }
            }
            if o.pend[0].max(o.pend[1]) > THRESHOLD {
                return format!("collect {u}");
            }
            // offer the asset whose reserve is the smaller one (keeps the pool from drifting), as much as the
            // richest holder has, at most the reserve, and never so much that the pair's balance would overflow
            let dir = if res[0] <= res[1] { 0 } else { 1 };
            let t = (0..self.nusers).max_by_key(|v| o.users[*v][dir]).unwrap_or(0);
            let room = u128::MAX - o.bal[dir] - 1;
            let off = o.users[t][dir].min(res[dir] / 2).min(room);
            if off > 0 {
                return format!("swap {t} {dir} {off} {} {t}", E18 / 2);
            }
        }
        if self.whale {
            // in between: operations that cannot push a balance of the mock bank past u128::MAX (its
            // limit, not the chain's)
            return match rng.below(5) {
                0 => format!("collect {u}"),
                1 => format!("withdraw {u} {}", o.users[u][2] / (2 + rng.below(8) as u128)),
                2 => format!("swap {u} {} {} {} {u}", rng.below(2), 1 + rng.below(1_000_000), E18 / 2),
                3 => format!("setcol o {}", rng.below(2)),
                _ => format!("setfees o {} 0 {}", 9 * E18 / 10, rng.below(2) as u128 * E18 / 20),
            };
        }
        // deposit-then-withdraw pattern
        if let Some((pu, _, _, share, _, _)) = self.last_provide {
            if rng.chance(1, 2) {
                let amt = match rng.below(4) {
                    0 => share / 2,
                    _ => share,
                };
                return format!("withdraw {pu} {amt}");
            }
        }
        let x = if o.sup == 0 { rng.below(30) } else { 30 + rng.below(100) };
        if x < 30 || (30..50).contains(&x) {
            // provide
            let ub = o.users[u];
            let (d0, d1) = if o.sup == 0 {
                match rng.below(10) {
                    0 => (1000, 1000),
                    1 => (1001, 1001),
                    2 => (999, 1003),
                    3 => (rng.amount(40), rng.amount(40)),
                    4..=6 => ((ub[0] / (2 + rng.below(50) as u128)).max(1), (ub[1] / (2 + rng.below(50) as u128)).max(1)),
                    _ => (rng.log_uniform(120).min(ub[0]).max(1), rng.log_uniform(120).min(ub[1]).max(1)),
                }
            } else {
                match rng.below(10) {
                    0..=4 => {
                        // close to the pool ratio
                        let m = 2 + rng.log_uniform(24);
                        let d0 = (res[0] / m).max(1);
                        let d1 = (res[1] / m).max(1);
                        match rng.below(4) {
                            0 => (d0, d1),
                            1 => (d0 + 1, d1),
                            2 => (d0, d1 + 1 + rng.below(5) as u128),
                            _ => (d0.saturating_mul(1 + rng.below(3) as u128), d1),
                        }
                    }
                    5 => (1, 1),
                    6 => (rng.amount(100), rng.amount(100)),
                    7 => (0, rng.amount(30)),
                    _ => (rng.log_uniform(118).min(ub[0].max(1)), rng.log_uniform(118).min(ub[1].max(1))),
                }
            };
            let rcv = if rng.chance(3, 4) { u } else { rng.below(n) as usize };
            let tol = match rng.below(12) {
                0 => (E18 / 100).to_string(),
                1 => (E18 / 2).to_string(),
                2 => "0".into(),
                3 => (E18 + 1).to_string(),
                _ => "none".into(),
            };
            format!("provide {u} {rcv} {d0} {d1} {tol} {}", rng.below(2))
        } else if x < 95 {
            let dir = rng.below(2) as usize;
            let r = res[dir].max(1);
            let ask = res[1 - dir];
            let pf = o.fees[0];
            let off = match rng.below(24) {
                0..=11 => (r / (2 + rng.log_uniform(21))).max(1),
                12..=13 => rng.log_uniform((128 - r.leading_zeros() + 2).min(118)),
                14 => rng.amount(118),
                15 => 0,
                16 => 1 + rng.below(1000) as u128,
                17..=21 if pf > 0 && ask > 2 => {
                    // aim the protocol fee at the collection threshold: pending_ask + fee ≈ 1000 + δ
                    let want_fee = (THRESHOLD + rng.below(4) as u128).saturating_sub(o.pend[1 - dir]).max(1);
                    let gross = (u512(want_fee) * u512(E18) / u512(pf)).to_string().parse::<u128>().unwrap_or(u128::MAX).saturating_add(rng.below(2) as u128);
                    if gross >= ask {
                        r
                    } else {
                        // off ≈ gross·r / (ask − gross), rounded up
                        let q = u512(gross) * u512(r) / u512(ask - gross);
                        q.to_string().parse::<u128>().unwrap_or(u128::MAX).saturating_add(1)
                    }
                }
                _ => r.saturating_mul(1 + rng.below(4) as u128),
            };
            let off = off.min(1u128 << 120);
            if x >= 93 {
                let sent = if rng.chance(1, 4) { off } else { off.saturating_add(1 + rng.below(3) as u128) };
                return format!("swapbad {u} {dir} {off} {sent}");
            }
            let to = if rng.chance(4, 5) { u } else { rng.below(n) as usize };
            format!("swap {u} {dir} {off} {} {to}", Self::gen_ms(rng))
        } else if x < 98 {
            match rng.below(4) {
                3 => {
                    let ub = o.users[u];
                    let d0 = if rng.chance(1, 6) { 0 } else { (res[0] / (2 + rng.log_uniform(20))).clamp(1, ub[0].max(1)) };
                    let d1 = if rng.chance(1, 6) { 0 } else { (res[1] / (2 + rng.log_uniform(20))).clamp(1, ub[1].max(1)) };
                    format!("provbad {u} {d0} {d1} {}", rng.below(2))
                }
                0 => {
                    let amt = match rng.below(4) {
                        0 => MIN_LIQ,
                        1 => 1 + rng.below(MIN_LIQ as u64) as u128,
                        2 => o.users[u][2].max(1),
                        _ => rng.amount(40).max(1),
                    };
                    format!("wdirect {u} {} {amt}", rng.below(4))
                }
                1 => format!("wfake {u} {} {}", rng.below(2), rng.amount(40).max(1).min(o.sup.max(1))),
                _ => format!("sfake {u} {}", (o.users[u][2] / (1 + rng.below(4) as u128)).max(rng.below(2) as u128)),
            }
        } else if x < 110 {
            let lp = o.users[u][2];
            let amt = match rng.below(10) {
                0..=2 => lp,
                3..=4 => lp / 2,
                5 => 1,
                6 => 0,
                7 => lp.saturating_add(1),
                8 => (lp / (2 + rng.log_uniform(20))).max(1),
                _ => rng.amount(100),
            };
            format!("withdraw {u} {amt}")
        } else if x < 125 {
            // messages that take no funds — now and then sent with coins attached all the same
            let natives: Vec<usize> = (0..2).filter(|k| w.kinds[*k]).collect();
            let stray = if !natives.is_empty() && rng.chance(1, 4) {
                let k = natives[rng.below(natives.len() as u64) as usize];
                let amt = match rng.below(6) {
                    0 => o.users[u][k].saturating_add(1),
                    1 => 1,
                    2 => THRESHOLD + 1,
                    _ => rng.amount(60).min(o.users[u][k]).max(1),
                };
                format!("fund {u} {k} {amt} ")
            } else {
                String::new()
            };
            if x < 120 {
                format!("{stray}collect {u}")
            } else if x < 122 {
                let who = if rng.chance(5, 6) { "o".to_string() } else { format!("u{u}") };
                format!("{stray}setcol {who} {}", rng.below(2))
            } else {
                let who = if rng.chance(5, 6) { "o".to_string() } else { format!("u{u}") };
                let (a, b, c) = if rng.chance(4, 5) { rng.valid_fees() } else { (rng.fee_share(), E18 - rng.below(3) as u128, rng.fee_share()) };
                format!("{stray}setfees {who} {a} {b} {c}")
            }
        } else {
            let which = rng.below(3);
            let amt = match which {
                2 => (o.users[u][2] / (1 + rng.below(8) as u128)).min(rng.amount(60)),
                w2 => rng.amount(100).min(o.users[u][w2 as usize]),
            };
            format!("donate {u} {which} {amt}")
        }
    }
}

impl Engine for PairEngine {
    fn exec(&mut self, line: &str, mon: &mut Monitor) -> String {
        let ws: Vec<&str> = line.split_whitespace().collect();
        if ws.len() >= 2 && ws[0] == "init" {
            if ws[1] != "pair" {
                return "bad-op".into();
            }
            return self.do_init(&ws);
        }
        if self.w.is_none() || ws.is_empty() {
            return "bad-op".into();
        }
        self.exec_op(&ws, mon)
    }

    fn next_op(&mut self, rng: &mut Rng, step: u64) -> Option<String> {
        if step == 0 {
            self.len = rng.range(6, 40);
            return Some(self.gen_init(rng));
        }
        if step > self.len || self.w.is_none() {
            return None;
        }
        Some(self.gen_op(rng))
    }
}
