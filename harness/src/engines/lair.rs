//! Engine `lair` (C08): the real `whale_lair` contract wired to the real `fee_distributor`
//! (no epoch is ever created, so the lair's two distributor guards pass) inside a cw-multi-test
//! `App`, driven by histories of bond / unbond / withdraw / update_config / migrate calls and plain bank
//! transfers of 4 users + owner over 2 whitelisted denoms and one non-whitelisted denom.  Op lines are
//! `<op> <height> <time_ns> <sender> <args…>` with ops `bond <denom|@token> <amount> <-|denom:amt,…>`,
//! `unbond <denom|@token> <amount> [+coins]`, `withdraw <denom> [+coins]`, `config <period|-> <rate|-> [+coins]`,
//! `send <coins>`, `migrate from=<x.y.z>[L]`, `setguard <0|1>`.
//! `+coins` (`+denom:amt[,denom:amt…]`) = `info.funds` of a message that does not ask for any (the
//! whitelisted denom of the op, the other whitelisted denom, the non-whitelisted denom, several coins;
//! amounts 1 / small / equal to the record about to be paid or the amount unbonded / the whole wallet /
//! more than held / zero); `send` = a plain `BankMsg::Send` to the lair.
//! `migrate`: the stored cw2 version is first rewritten in the chain's raw storage (`App::init_modules`;
//! `L`: the `config` item is rewritten in the 0.8.x layout, without `fee_distributor_addr`, as well), then
//! the sender (the owner is the wasm admin) sends `migrate` with the same code id.
//! `setguard 0` points the lair at a
//! harness-local stub distributor that reports a claimable epoch (guards fail), `setguard 1` back.
//!
//! Observation after every op: outcome, Config (period, rate, owner, bonding assets, fee distributor),
//! TotalBonded, GlobalIndex (timestamp, weight, bonded amount, bonded assets), contract bank balances,
//! and per address — the users and an address that never bonds or sends anything — the Bonded / Weight /
//! Unbonding / Withdrawable queries for every denom incl. the non-whitelisted one, and bank balances.
//! `Unbonding` is walked to the end with the maximum page size AND with the default one (`limit: None`,
//! `start_after` = last key), read with a limit above the maximum, after the middle record, and with
//! `start_after = middle − 1, limit 1`.
//! The C08 monitors evaluate the property's clauses on these real observations only.
use crate::common::*;
use cosmwasm_std::{
    coin, to_json_binary, Addr, Binary, Coin, Decimal, Deps, DepsMut, Empty, Env, MessageInfo, Response, StdError,
    StdResult, Timestamp, Uint128, Uint64,
};
use cw_multi_test::{App, AppBuilder, ContractWrapper, Executor};
use std::collections::BTreeMap;
use white_whale_std::epoch_manager::epoch_manager::EpochConfig;
use white_whale_std::fee_distributor as fd;
use white_whale_std::pool_network::asset::{Asset, AssetInfo};
use white_whale_std::whale_lair::{
    BondedResponse, BondingWeightResponse, Config, ExecuteMsg, GlobalIndex, InstantiateMsg, MigrateMsg, QueryMsg,
    UnbondingResponse, WithdrawableResponse,
};

const E18: u128 = 1_000_000_000_000_000_000;
const DAY_NS: u64 = 86_400_000_000_000;

// ------------------------------------------------------------------------------------------------
// stub distributor: same Config answer as the real one, but always one claimable epoch
// ------------------------------------------------------------------------------------------------
fn stub_instantiate(deps: DepsMut, _e: Env, _i: MessageInfo, msg: EpochConfig) -> StdResult<Response> {
    deps.storage.set(b"ec", &cosmwasm_std::to_json_vec(&msg)?);
    Ok(Response::default())
}
fn stub_execute(_d: DepsMut, _e: Env, _i: MessageInfo, _m: Empty) -> StdResult<Response> {
    Ok(Response::default())
}
fn stub_query(deps: Deps, _e: Env, msg: fd::QueryMsg) -> StdResult<Binary> {
    let ec: EpochConfig = cosmwasm_std::from_json(deps.storage.get(b"ec").ok_or_else(|| StdError::generic_err("ec"))?)?;
    match msg {
        fd::QueryMsg::Config {} => to_json_binary(&fd::Config {
            owner: Addr::unchecked("owner"),
            bonding_contract_addr: Addr::unchecked("lair"),
            fee_collector_addr: Addr::unchecked("collector"),
            grace_period: Uint64::new(1),
            epoch_config: ec,
            distribution_asset: AssetInfo::NativeToken { denom: "uwhale".into() },
        }),
        fd::QueryMsg::CurrentEpoch {} => to_json_binary(&fd::EpochResponse { epoch: fd::Epoch::default() }),
        fd::QueryMsg::Claimable { .. } | fd::QueryMsg::ClaimableEpochs {} => {
            to_json_binary(&fd::ClaimableEpochsResponse {
                epochs: vec![fd::Epoch { id: Uint64::new(1), ..fd::Epoch::default() }],
            })
        }
        fd::QueryMsg::Epoch { .. } => to_json_binary(&fd::EpochResponse { epoch: fd::Epoch::default() }),
    }
}

// ------------------------------------------------------------------------------------------------
// observation snapshot (parsed form of what the queries returned; used by the monitors)
// ------------------------------------------------------------------------------------------------
/// one page of the `Unbonding` query: its records and the `total_amount` it reported
#[derive(Clone, Default, PartialEq, Debug)]
struct Page {
    recs: Vec<(u64, u128)>,
    total: u128,
}

/// the extra reads of `Unbonding` for one (address, denom) that has records
#[derive(Clone, Default, PartialEq, Debug)]
struct Pages {
    /// `start_after: None, limit: None`
    p0: Page,
    /// `start_after: None, limit: Some(255)`
    pm: Page,
    /// `start_after: Some(middle record's key), limit: None`
    pa: Page,
    /// `start_after: Some(middle − 1), limit: Some(1)` (empty when the middle key is 0)
    pb: Page,
    /// walk with `limit: None`: all records, Σ of the reported totals
    walk: Page,
}

#[derive(Clone, Default, PartialEq, Debug)]
struct Snap {
    period: u64,
    rate: u128,
    owner: String,
    assets: Vec<String>,
    /// `Config.fee_distributor_addr`, raw
    fd: String,
    total_bonded: u128,
    total_assets: Vec<(String, u128)>,
    g_ts: u64,
    g_weight: u128,
    g_bonded: u128,
    g_assets: Vec<(String, u128)>,
    /// contract bank balance per denom (all denoms)
    cbal: BTreeMap<String, u128>,
    /// Bonded query per user: Some((total, first_epoch, assets)) or None when the query failed
    bonded: BTreeMap<String, Option<(u128, u64, Vec<(String, u128)>)>>,
    weight: BTreeMap<String, String>,
    /// Unbonding records per (user, denom): (ts, amount) ascending, and the reported totals summed over pages
    unb: BTreeMap<(String, String), Vec<(u64, u128)>>,
    unb_total: BTreeMap<(String, String), u128>,
    pages: BTreeMap<(String, String), Pages>,
    /// Withdrawable per (user, denom): Ok(amount) / Err("err"|"panic")
    wd: BTreeMap<(String, String), Result<u128, String>>,
    ubal: BTreeMap<(String, String), u128>,
}

struct World {
    app: App,
    lair: Addr,
    lair_code: u64,
    real_dist: Addr,
    stub_dist: Addr,
}

#[derive(Clone, Default)]
struct CaseCfg {
    period: u64,
    rate: u128,
    genesis: u64,
    dur: u64,
    start: u64,
    bal: u128,
    users: Vec<String>,
    owner: String,
    denoms: Vec<String>,
    extra: Vec<String>,
    /// addresses that are observed only: they never send anything and hold nothing
    watch: Vec<String>,
}
impl CaseCfg {
    fn addrs(&self) -> Vec<String> {
        self.users.iter().chain(self.watch.iter()).cloned().collect()
    }
    fn all_denoms(&self) -> Vec<String> {
        let mut v: Vec<String> = self.denoms.iter().chain(self.extra.iter()).cloned().collect();
        v.sort();
        v
    }
}

#[derive(Default)]
pub struct Lair {
    w: Option<World>,
    cfg: CaseCfg,
    prev: Snap,
    // generator state
    now: u64,
    height: u64,
    n_ops: u64,
    big: bool,
    malformed_heavy: bool,
    many_unbonds: bool,
    guard_off: bool,
    /// crate version of the lair (the cw2 item of the freshly instantiated contract)
    cur: (u64, u64, u64),
    /// ledger of the coins the lair received without a bond, rebuilt from what the op lines attached to
    /// operations the real contract accepted: per denom, and per (sender, denom)
    stray: BTreeMap<String, u128>,
    given: BTreeMap<(String, String), u128>,
}

fn parse_ver(v: &str) -> Option<(u64, u64, u64)> {
    let p: Vec<&str> = v.split('.').collect();
    if p.len() != 3 {
        return None;
    }
    Some((p[0].parse().ok()?, p[1].parse().ok()?, p[2].parse().ok()?))
}

/// `denom:amt[,denom:amt…]`
fn parse_coins(f: &str) -> Option<Vec<Coin>> {
    let mut v = vec![];
    for c in f.split(',') {
        let (d, a) = c.split_once(':')?;
        v.push(coin(a.parse::<u128>().ok()?, d));
    }
    Some(v)
}

fn coins_of(v: &[Coin], d: &str) -> u128 {
    v.iter().filter(|c| c.denom == d).fold(0u128, |a, c| a.saturating_add(c.amount.u128()))
}

fn native(d: &str, a: u128) -> Asset {
    Asset { info: AssetInfo::NativeToken { denom: d.into() }, amount: Uint128::new(a) }
}

impl Lair {
    fn build(&mut self, c: &CaseCfg) -> Result<(), String> {
        let all = c.all_denoms();
        let users = c.users.clone();
        let bal = c.bal;
        let mut app: App = AppBuilder::new().build(|router, _api, storage| {
            for u in &users {
                let coins: Vec<Coin> = all.iter().map(|d| coin(bal, d.clone())).collect();
                router.bank.init_balance(storage, &Addr::unchecked(u.clone()), coins).unwrap();
            }
        });
        let mut b = app.block_info();
        b.time = Timestamp::from_nanos(c.start);
        b.height = 1;
        app.set_block(b);
        let lair_code = app.store_code(Box::new(
            ContractWrapper::new(whale_lair::contract::execute, whale_lair::contract::instantiate, whale_lair::contract::query)
                .with_migrate(whale_lair::contract::migrate),
        ));
        let dist_code = app.store_code(Box::new(
            ContractWrapper::new(
                fee_distributor::contract::execute,
                fee_distributor::contract::instantiate,
                fee_distributor::contract::query,
            )
            .with_reply(fee_distributor::contract::reply),
        ));
        let stub_code = app.store_code(Box::new(ContractWrapper::new(stub_execute, stub_instantiate, stub_query)));
        let owner = Addr::unchecked(c.owner.clone());
        let lair = app
            .instantiate_contract(
                lair_code,
                owner.clone(),
                &InstantiateMsg {
                    unbonding_period: Uint64::new(c.period),
                    growth_rate: Decimal::raw(c.rate),
                    bonding_assets: c.denoms.iter().map(|d| AssetInfo::NativeToken { denom: d.clone() }).collect(),
                },
                &[],
                "lair",
                // the owner is the wasm admin: the only address the chain lets migrate the contract
                Some(owner.to_string()),
            )
            .map_err(|e| format!("{e:?}"))?;
        let ec = EpochConfig { duration: Uint64::new(c.dur), genesis_epoch: Uint64::new(c.genesis) };
        let real_dist = app
            .instantiate_contract(
                dist_code,
                owner.clone(),
                &fd::InstantiateMsg {
                    bonding_contract_addr: lair.to_string(),
                    fee_collector_addr: "feecollector".into(),
                    grace_period: Uint64::new(1),
                    epoch_config: ec.clone(),
                    distribution_asset: AssetInfo::NativeToken { denom: "uwhale".into() },
                },
                &[],
                "dist",
                None,
            )
            .map_err(|e| format!("{e:?}"))?;
        let stub_dist = app.instantiate_contract(stub_code, owner.clone(), &ec, &[], "stub", None).map_err(|e| format!("{e:?}"))?;
        app.execute_contract(
            owner,
            lair.clone(),
            &ExecuteMsg::UpdateConfig {
                owner: None,
                unbonding_period: None,
                growth_rate: None,
                fee_distributor_addr: Some(real_dist.to_string()),
            },
            &[],
        )
        .map_err(|e| format!("{e:?}"))?;
        self.w = Some(World { app, lair, lair_code, real_dist, stub_dist });
        self.cur = self.stored_version().and_then(|v| parse_ver(&v)).ok_or("no cw2 version")?;
        Ok(())
    }

    // ---------------------------------------------------------------------------------- raw storage
    fn raw_get(&self, key: &[u8]) -> Option<Vec<u8>> {
        let w = self.w.as_ref()?;
        w.app.dump_wasm_raw(&w.lair).into_iter().find(|(k, _)| k.as_slice() == key).map(|(_, v)| v)
    }
    /// Writes one item of the lair's raw storage from outside any contract (nothing the contract offers can
    /// lower its cw2 version or bring back an older layout).  cw-multi-test keeps a contract's storage under
    /// the length-prefixed namespaces `wasm` / `contract_data/<addr>`; verified by reading the item back.
    fn raw_set(&mut self, key: &[u8], value: &[u8]) -> bool {
        let w = self.w.as_mut().unwrap();
        let mut full = vec![];
        for ns in [b"wasm".as_slice(), format!("contract_data/{}", w.lair).as_bytes()] {
            full.extend_from_slice(&(ns.len() as u16).to_be_bytes());
            full.extend_from_slice(ns);
        }
        full.extend_from_slice(key);
        w.app.init_modules(|_, _, storage| storage.set(&full, value));
        self.raw_get(key).as_deref() == Some(value)
    }
    fn stored_version(&self) -> Option<String> {
        let v: serde_json::Value = serde_json::from_slice(&self.raw_get(b"contract_info")?).ok()?;
        Some(v.get("version")?.as_str()?.to_string())
    }
    /// "the contract was deployed by release `from`": the stored cw2 version becomes `from`; `legacy`: the
    /// `config` item is rewritten in the layout of the 0.8.x releases (`ConfigV080` of migrations.rs: no
    /// `fee_distributor_addr`), every other value carried over
    fn arrange_release(&mut self, from: &str, legacy: bool) -> bool {
        let name = match self.raw_get(b"contract_info").and_then(|r| serde_json::from_slice::<serde_json::Value>(&r).ok()) {
            Some(v) => v.get("contract").and_then(|x| x.as_str()).unwrap_or("").to_string(),
            None => return false,
        };
        let info = serde_json::json!({ "contract": name, "version": from });
        if !self.raw_set(b"contract_info", &serde_json::to_vec(&info).unwrap()) {
            return false;
        }
        if legacy {
            let mut c: serde_json::Value = match self.raw_get(b"config").and_then(|r| serde_json::from_slice(&r).ok()) {
                Some(c) => c,
                None => return false,
            };
            match c.as_object_mut() {
                Some(o) => {
                    o.remove("fee_distributor_addr");
                }
                None => return false,
            }
            return self.raw_set(b"config", &serde_json::to_vec(&c).unwrap());
        }
        true
    }

    fn page(&self, u: &str, d: &str, start_after: Option<u64>, limit: Option<u8>) -> Option<Page> {
        match self.q::<UnbondingResponse>(&QueryMsg::Unbonding { address: u.into(), denom: d.into(), start_after, limit }) {
            Outcome::Ok(r) => Some(Page {
                recs: r.unbonding_requests.iter().map(|b| (b.timestamp.nanos(), b.asset.amount.u128())).collect(),
                total: r.total_amount.u128(),
            }),
            _ => None,
        }
    }

    fn set_time(&mut self, height: u64, t: u64) {
        let w = self.w.as_mut().unwrap();
        let mut b = w.app.block_info();
        b.time = Timestamp::from_nanos(t);
        b.height = height;
        w.app.set_block(b);
    }

    fn q<T: serde::de::DeserializeOwned>(&self, msg: &QueryMsg) -> Outcome<T> {
        let w = self.w.as_ref().unwrap();
        guarded(|| w.app.wrap().query_wasm_smart::<T>(w.lair.clone(), msg))
    }

    fn observe(&self) -> Snap {
        let w = self.w.as_ref().unwrap();
        let c = &self.cfg;
        let all = c.all_denoms();
        let mut s = Snap::default();
        if let Outcome::Ok(cf) = self.q::<Config>(&QueryMsg::Config {}) {
            s.period = cf.unbonding_period.u64();
            s.rate = cf.growth_rate.atomics().u128();
            s.owner = cf.owner.to_string();
            s.assets = cf.bonding_assets.iter().map(|a| a.to_string()).collect();
            s.fd = cf.fee_distributor_addr.to_string();
        }
        if let Outcome::Ok(t) = self.q::<BondedResponse>(&QueryMsg::TotalBonded {}) {
            s.total_bonded = t.total_bonded.u128();
            s.total_assets = t.bonded_assets.iter().map(|a| (a.info.to_string(), a.amount.u128())).collect();
        }
        if let Outcome::Ok(g) = self.q::<GlobalIndex>(&QueryMsg::GlobalIndex {}) {
            s.g_ts = g.timestamp.nanos();
            s.g_weight = g.weight.u128();
            s.g_bonded = g.bonded_amount.u128();
            s.g_assets = g.bonded_assets.iter().map(|a| (a.info.to_string(), a.amount.u128())).collect();
        }
        for d in &all {
            let b = w.app.wrap().query_balance(w.lair.clone(), d.clone()).map(|c| c.amount.u128()).unwrap_or(0);
            s.cbal.insert(d.clone(), b);
        }
        for u in &c.addrs() {
            let b = match self.q::<BondedResponse>(&QueryMsg::Bonded { address: u.clone() }) {
                Outcome::Ok(b) => Some((
                    b.total_bonded.u128(),
                    b.first_bonded_epoch_id.u64(),
                    b.bonded_assets.iter().map(|a| (a.info.to_string(), a.amount.u128())).collect(),
                )),
                _ => None,
            };
            s.bonded.insert(u.clone(), b);
            let wq = match self.q::<BondingWeightResponse>(&QueryMsg::Weight {
                address: u.clone(),
                timestamp: None,
                global_index: None,
            }) {
                Outcome::Ok(r) => format!("{}/{}/{}", r.weight, r.global_weight, r.share.atomics()),
                Outcome::Err(_) => "err".into(),
                Outcome::Panic => "panic".into(),
            };
            s.weight.insert(u.clone(), wq);
            for d in &all {
                // all pages of the Unbonding query
                let mut recs: Vec<(u64, u128)> = vec![];
                let mut total = 0u128;
                let mut start_after: Option<u64> = None;
                loop {
                    let r = self.q::<UnbondingResponse>(&QueryMsg::Unbonding {
                        address: u.clone(),
                        denom: d.clone(),
                        start_after,
                        limit: Some(30),
                    });
                    match r {
                        Outcome::Ok(r) => {
                            total = total.saturating_add(r.total_amount.u128());
                            let n = r.unbonding_requests.len();
                            for b in r.unbonding_requests {
                                recs.push((b.timestamp.nanos(), b.asset.amount.u128()));
                            }
                            if n < 30 {
                                break;
                            }
                            start_after = recs.last().map(|x| x.0);
                        }
                        _ => break,
                    }
                }
                if !recs.is_empty() {
                    // the other ways of reading the same list
                    let mid = recs[(recs.len() - 1) / 2].0;
                    let mut walk = Page::default();
                    let mut sa: Option<u64> = None;
                    let dflt = gen_const("LAIR_DEFAULT_PAGE_LIMIT") as usize;
                    for _ in 0..=recs.len() {
                        match self.page(u, d, sa, None) {
                            Some(p) => {
                                let n = p.recs.len();
                                walk.total = walk.total.saturating_add(p.total);
                                walk.recs.extend(p.recs);
                                if n < dflt {
                                    break;
                                }
                                sa = walk.recs.last().map(|x| x.0);
                            }
                            None => break,
                        }
                    }
                    let pg = Pages {
                        p0: self.page(u, d, None, None).unwrap_or_default(),
                        pm: self.page(u, d, None, Some(255)).unwrap_or_default(),
                        pa: self.page(u, d, Some(mid), None).unwrap_or_default(),
                        pb: if mid == 0 { Page::default() } else { self.page(u, d, Some(mid - 1), Some(1)).unwrap_or_default() },
                        walk,
                    };
                    s.pages.insert((u.clone(), d.clone()), pg);
                }
                s.unb.insert((u.clone(), d.clone()), recs);
                s.unb_total.insert((u.clone(), d.clone()), total);
                let wd = match self.q::<WithdrawableResponse>(&QueryMsg::Withdrawable { address: u.clone(), denom: d.clone() }) {
                    Outcome::Ok(r) => Ok(r.withdrawable_amount.u128()),
                    Outcome::Err(_) => Err("err".to_string()),
                    Outcome::Panic => Err("panic".to_string()),
                };
                s.wd.insert((u.clone(), d.clone()), wd);
                let ub = w.app.wrap().query_balance(u.clone(), d.clone()).map(|c| c.amount.u128()).unwrap_or(0);
                s.ubal.insert((u.clone(), d.clone()), ub);
            }
        }
        s
    }

    fn render(&self, outcome: &str, s: &Snap) -> String {
        let c = &self.cfg;
        let all = c.all_denoms();
        let assets = |l: &Vec<(String, u128)>| -> String {
            if l.is_empty() {
                "-".into()
            } else {
                l.iter().map(|(d, a)| format!("{d}:{a}")).collect::<Vec<_>>().join(",")
            }
        };
        let w = self.w.as_ref().unwrap();
        let fd = if s.fd.is_empty() {
            "empty".to_string()
        } else if s.fd == w.real_dist.as_str() {
            "real".to_string()
        } else if s.fd == w.stub_dist.as_str() {
            "stub".to_string()
        } else {
            format!("other:{}", s.fd)
        };
        let mut t: Vec<String> = vec![
            outcome.into(),
            format!("P={}/{}/{}/{}/{}", s.period, s.rate, s.owner, if s.assets.is_empty() { "-".to_string() } else { s.assets.join(",") }, fd),
            format!("T={}/{}", s.total_bonded, assets(&s.total_assets)),
            format!("G={}/{}/{}/{}", s.g_ts, s.g_weight, s.g_bonded, assets(&s.g_assets)),
        ];
        for d in &all {
            t.push(format!("C.{d}={}", s.cbal[d]));
        }
        for u in &c.addrs() {
            t.push(match &s.bonded[u] {
                Some((tot, fe, l)) => format!("B.{u}={tot}/{fe}/{}", assets(l)),
                None => format!("B.{u}=err"),
            });
            t.push(format!("Q.{u}={}", s.weight[u]));
            for d in &all {
                let k = (u.clone(), d.clone());
                let recs = &s.unb[&k];
                let rl = if recs.is_empty() {
                    "-".to_string()
                } else {
                    recs.iter().map(|(ts, a)| format!("{ts}:{a}")).collect::<Vec<_>>().join(",")
                };
                t.push(format!("U.{u}.{d}={}/{}", s.unb_total[&k], rl));
                if let Some(pg) = s.pages.get(&k) {
                    let ps = |p: &Page| format!("{}:{}", p.recs.len(), p.total);
                    let first = |p: &Page| p.recs.first().map(|x| x.0).unwrap_or(0);
                    t.push(format!(
                        "V.{u}.{d}={}/{}/{}:{}/{}:{}/{}",
                        ps(&pg.p0),
                        ps(&pg.pm),
                        ps(&pg.pa),
                        first(&pg.pa),
                        ps(&pg.pb),
                        first(&pg.pb),
                        ps(&pg.walk)
                    ));
                }
                t.push(match &s.wd[&k] {
                    Ok(a) => format!("W.{u}.{d}={a}"),
                    Err(e) => format!("W.{u}.{d}={e}"),
                });
                t.push(format!("b.{u}.{d}={}", s.ubal[&k]));
            }
        }
        t.join(" ")
    }

    // --------------------------------------------------------------------------------------------
    // monitors: the clauses of C08 on the real observations
    // --------------------------------------------------------------------------------------------
    /// `Config.fee_distributor_addr` names a contract (the `Bonded` query of an address with a bond needs it)
    fn fd_is_contract(&self, s: &Snap) -> bool {
        let w = self.w.as_ref().unwrap();
        s.fd == w.real_dist.as_str() || s.fd == w.stub_dist.as_str()
    }

    /// what the contract holds of `d` beyond what it reports as bonded and as pending unbondings
    fn surplus(&self, s: &Snap, d: &str) -> Option<u128> {
        let c = &self.cfg;
        let reported = s.total_assets.iter().filter(|(x, _)| x == d).fold(0u128, |a, x| a.saturating_add(x.1));
        let mut unb = 0u128;
        for u in c.addrs() {
            for r in s.unb.get(&(u.clone(), d.to_string())).map(|v| v.as_slice()).unwrap_or(&[]) {
                unb = unb.checked_add(r.1)?;
            }
        }
        s.cbal.get(d)?.checked_sub(reported.checked_add(unb)?)
    }

    fn state_monitors(&self, mon: &mut Monitor, s: &Snap, line: &str) {
        let c = &self.cfg;
        let desc = |what: &str| format!("{what} after `{line}`");
        let fd_ok = self.fd_is_contract(s);
        if !fd_ok {
            mon.stat("obs_with_empty_fee_distributor_addr");
        }
        // conservation: contract balance of each denom = reported bonded + all pending unbondings + the coins it
        // was sent without a bond (ledger rebuilt from what the accepted op lines attached)
        for d in &c.all_denoms() {
            let stray = self.stray.get(d).cloned().unwrap_or(0);
            let sp = self.surplus(s, d);
            mon.check("C08", "conservation", sp == Some(stray), || {
                desc(&format!(
                    "denom {d}: contract balance {} - bonded - unbonding = {sp:?}, stray coins received {stray}",
                    s.cbal.get(d).cloned().unwrap_or(0)
                ))
            });
            if stray > 0 {
                mon.stat("obs_with_stray_coins_on_the_lair");
            }
        }
        for d in &c.denoms {
            let reported = s.total_assets.iter().find(|(x, _)| x == d).map(|x| x.1).unwrap_or(0);
            // per denom: reported global = sum of the users' bonds
            if fd_ok {
                let users_sum: u128 = c
                    .addrs()
                    .iter()
                    .map(|u| match &s.bonded[u] {
                        Some((_, _, l)) => l.iter().filter(|(x, _)| x == d).fold(0u128, |a, x| a.saturating_add(x.1)),
                        None => 0,
                    })
                    .fold(0u128, |a, x| a.saturating_add(x));
                mon.check("C08", "global_eq_sum_users", reported == users_sum, || {
                    desc(&format!("denom {d}: TotalBonded asset {reported} != sum of users' Bonded {users_sum}"))
                });
            }
        }
        if fd_ok {
            let sum_tot: u128 = c.addrs().iter().map(|u| s.bonded[u].as_ref().map(|b| b.0).unwrap_or(0)).fold(0u128, |a, x| a.saturating_add(x));
            mon.check("C08", "global_eq_sum_users", s.total_bonded == sum_tot, || {
                desc(&format!("TotalBonded.total_bonded {} != sum of users' total_bonded {sum_tot}", s.total_bonded))
            });
        }
        let sum_assets: u128 = s.total_assets.iter().fold(0u128, |a, x| a.saturating_add(x.1));
        mon.check("C08", "global_eq_sum_users", s.total_bonded == sum_assets, || {
            desc(&format!("TotalBonded.total_bonded {} != sum of bonded_assets {sum_assets}", s.total_bonded))
        });
        // the two global queries are two views of one item
        mon.check("C08", "global_index_eq_total_bonded", s.g_bonded == s.total_bonded && s.g_assets == s.total_assets, || {
            desc(&format!("GlobalIndex {}/{:?} != TotalBonded {}/{:?}", s.g_bonded, s.g_assets, s.total_bonded, s.total_assets))
        });
        // whitelist: nothing but whitelisted denoms is ever bonded or unbonding (what the contract holds of another
        // denom is stray coins: `conservation` above with bonded = unbonding = 0)
        for d in &c.extra {
            let clean = !s.total_assets.iter().any(|(x, _)| x == d)
                && c.addrs().iter().all(|u| s.unb[&(u.clone(), d.clone())].is_empty())
                && c.addrs().iter().all(|u| s.bonded[u].as_ref().map(|b| !b.2.iter().any(|(x, _)| x == d)).unwrap_or(true));
            mon.check("C08", "whitelist_only", clean, || desc(&format!("non-whitelisted denom {d} bonded or unbonding")));
        }
        for (x, _) in &s.total_assets {
            mon.check("C08", "whitelist_only", c.denoms.contains(x), || desc(&format!("bonded asset {x} not whitelisted")));
        }
        mon.check("C08", "whitelist_only", s.assets == c.denoms, || desc(&format!("Config.bonding_assets {:?} != instantiated {:?}", s.assets, c.denoms)));
        // an address that never bonded or sent anything reports nothing
        for u in &c.watch {
            let nothing = s.bonded[u] == Some((0, 0, vec![]))
                && c.all_denoms().iter().all(|d| {
                    let k = (u.clone(), d.clone());
                    s.unb[&k].is_empty() && s.unb_total[&k] == 0 && s.wd[&k] == Ok(0) && s.ubal[&k] == 0
                });
            mon.check("C08", "never_bonded_address_reports_nothing", nothing, || desc(&format!("{u}: {:?}", s.bonded[u])));
        }
        // every token is bonded, unbonding, back with its owner — or was sent to the contract unasked by that owner
        for u in &c.users {
            for d in c.all_denoms() {
                let k = (u.clone(), d.clone());
                let unb: u128 = s.unb[&k].iter().fold(0u128, |a, r| a.saturating_add(r.1));
                match &s.bonded[u] {
                    None if !fd_ok => mon.stat("bonded_query_unreadable_without_fee_distributor"),
                    b => {
                        let bonded = match b {
                            Some((_, _, l)) => l.iter().filter(|(x, _)| *x == d).fold(0u128, |a, x| a.saturating_add(x.1)),
                            None => 0,
                        };
                        let given = self.given.get(&k).cloned().unwrap_or(0);
                        let have = s.ubal[&k].checked_add(bonded).and_then(|x| x.checked_add(unb)).and_then(|x| x.checked_add(given));
                        mon.check("C08", "user_tokens_conserved", have == Some(c.bal), || {
                            desc(&format!(
                                "{u}/{d}: wallet {} + bonded {bonded} + unbonding {unb} + sent unasked {given} != initial {}",
                                s.ubal[&k], c.bal
                            ))
                        });
                    }
                }
                // the Unbonding query's own total agrees with its records
                mon.check("C08", "unbonding_total_eq_records", s.unb_total[&k] == unb, || {
                    desc(&format!("{u}/{d}: Unbonding.total_amount {} != sum of requests {unb}", s.unb_total[&k]))
                });
                // … and every way of paging through it shows the same list
                let recs = &s.unb[&k];
                if let Some(pg) = s.pages.get(&k) {
                    let dflt = gen_const("LAIR_DEFAULT_PAGE_LIMIT") as usize;
                    let maxp = gen_const("LAIR_MAX_PAGE_LIMIT") as usize;
                    let sum = |v: &[(u64, u128)]| v.iter().fold(0u128, |a, r| a.saturating_add(r.1));
                    let mid = recs[(recs.len() - 1) / 2].0;
                    let after: Vec<(u64, u128)> = recs.iter().filter(|r| r.0 > mid).cloned().collect();
                    let ok = pg.walk.recs == *recs
                        && pg.walk.total == unb
                        && pg.p0.recs[..] == recs[..recs.len().min(dflt)]
                        && pg.pm.recs[..] == recs[..recs.len().min(maxp)]
                        && pg.pa.recs[..] == after[..after.len().min(dflt)]
                        && (mid == 0 || pg.pb.recs[..] == recs[(recs.len() - 1) / 2..(recs.len() - 1) / 2 + 1])
                        && [&pg.p0, &pg.pm, &pg.pa, &pg.pb].iter().all(|p| p.total == sum(&p.recs));
                    mon.check("C08", "unbonding_pages_agree", ok, || desc(&format!("{u}/{d}: {} records; pages {pg:?}", recs.len())));
                    if recs.len() > dflt {
                        mon.stat("unbonding_read_beyond_default_page");
                    }
                    if recs.len() > maxp {
                        mon.stat("unbonding_read_beyond_max_page");
                    }
                }
                // Withdrawable = exactly the matured records (among the first MAX_PAGE_LIMIT)
                if !recs.is_empty() {
                    let expect: Option<u128> = if self.now < s.period {
                        None
                    } else {
                        Some(recs.iter().take(30).filter(|r| r.0 as u128 + s.period as u128 <= self.now as u128).map(|r| r.1).sum())
                    };
                    match (&s.wd[&k], expect) {
                        (Ok(a), Some(e)) => mon.check("C08", "withdrawable_eq_matured", *a == e, || {
                            desc(&format!("{u}/{d}: Withdrawable {a} != matured records {e} at {}", self.now))
                        }),
                        (Err(_), None) => mon.stat("withdrawable_query_aborts_now_lt_period"),
                        (got, e) => mon.check("C08", "withdrawable_eq_matured", false, || {
                            desc(&format!("{u}/{d}: Withdrawable {got:?} expected {e:?}"))
                        }),
                    }
                } else {
                    mon.check("C08", "withdrawable_eq_matured", s.wd[&k] == Ok(0), || {
                        desc(&format!("{u}/{d}: Withdrawable {:?} with no records", s.wd[&k]))
                    });
                }
            }
        }
    }

    /// time-independent part of a snapshot (Withdrawable and Weight depend on the block time)
    fn frame(s: &Snap) -> Snap {
        let mut f = s.clone();
        f.wd.clear();
        f.weight.clear();
        f
    }

    /// every wallet and every contract balance moved by exactly the attached coins (sender → contract) and, for
    /// `pay = (denom, amount)`, that amount from the contract to the sender
    fn moved_only(&self, pre: &Snap, post: &Snap, sender: &str, att: &[Coin], pay: Option<(&str, u128)>) -> bool {
        let c = &self.cfg;
        for d in c.all_denoms() {
            let a = coins_of(att, &d);
            let p = match pay {
                Some((pd, x)) if pd == d => x,
                _ => 0,
            };
            if pre.cbal[&d].checked_add(a) != post.cbal[&d].checked_add(p) {
                return false;
            }
            for u in c.addrs() {
                let k = (u.clone(), d.clone());
                let (a, p) = if u == sender { (a, p) } else { (0, 0) };
                if pre.ubal[&k].checked_add(p) != post.ubal[&k].checked_add(a) {
                    return false;
                }
            }
        }
        true
    }

    #[allow(clippy::too_many_arguments)]
    fn transition_monitors(&self, mon: &mut Monitor, pre: &Snap, post: &Snap, ok: bool, sender: &str, op: &[&str], att: &[Coin], line: &str) {
        let c = &self.cfg;
        let now = self.now;
        let desc = |what: &str| format!("{what} at `{line}`");
        if !ok {
            mon.check("C08", "failed_op_unchanged", Self::frame(pre) == Self::frame(post), || desc("failed call changed observable state"));
            // a refused operation moves nothing: the coins attached to it are back with the sender
            mon.check("C08", "refused_op_moves_nothing", pre.cbal == post.cbal && pre.ubal == post.ubal, || {
                desc(&format!("refused call moved tokens: contract {:?} -> {:?}", pre.cbal, post.cbal))
            });
            if !att.is_empty() && op[0] != "bond" {
                mon.stat(&format!("refused_with_coins_attached:{}", op[0]));
            }
            // a withdraw that the Withdrawable query announced (amount > 0) must not fail — unless the bank could not
            // deliver the attached coins
            if op[0] == "withdraw" {
                let k = (sender.to_string(), op[1].to_string());
                // Withdrawable as of this block time: recompute from the pre-state records
                let recs = pre.unb.get(&k).cloned().unwrap_or_default();
                let due: u128 = if now < pre.period {
                    0
                } else {
                    recs.iter().take(30).filter(|r| r.0 as u128 + pre.period as u128 <= now as u128).map(|r| r.1).sum()
                };
                let deliverable = att.iter().any(|x| !x.amount.is_zero()) || att.is_empty();
                let deliverable = deliverable
                    && c.all_denoms().iter().all(|d| coins_of(att, d) <= pre.ubal.get(&(sender.to_string(), d.clone())).cloned().unwrap_or(0));
                if deliverable {
                    mon.check("C08", "matured_withdraw_succeeds", due == 0, || desc(&format!("withdraw of matured {due} failed")));
                }
                if recs.iter().any(|r| r.0 as u128 + pre.period as u128 == now as u128 + 1) {
                    mon.stat("withdraw_rejected_1ns_before_maturity");
                }
            }
            return;
        }
        // stray coins stay: per denom, what the contract holds beyond bonded + unbonding grows by exactly what this
        // operation carried without bonding it — never by less, and no operation ever lowers it
        let carried: &[Coin] = if op[0] == "bond" { &[] } else { att };
        for d in c.all_denoms() {
            let (a, b) = (self.surplus(pre, &d), self.surplus(post, &d));
            let add = coins_of(carried, &d);
            mon.check("C08", "stray_coins_stay", a.is_some() && b == a.and_then(|x| x.checked_add(add)), || {
                desc(&format!("denom {d}: balance beyond bonded + unbonding {a:?} -> {b:?}, coins carried {add}"))
            });
            if add > 0 {
                mon.stat(&format!(
                    "stray_coins_accepted:{}:{}",
                    op[0],
                    if c.extra.contains(&d) { "non_whitelisted" } else if op.get(1) == Some(&d.as_str()) { "op_denom" } else { "whitelisted" }
                ));
            }
        }
        if carried.len() > 1 {
            mon.stat("stray_coins_accepted:several_coins");
        }
        // records may only change through their owner's own unbond (grow / appear at key now) or withdraw
        for u in &c.addrs() {
            for d in c.all_denoms() {
                let k = (u.clone(), d.clone());
                let (a, b) = (&pre.unb[&k], &post.unb[&k]);
                let mine = u == sender && op.len() > 1 && op[1] == d;
                if !(mine && (op[0] == "unbond" || op[0] == "withdraw")) {
                    mon.check("C08", "only_owner", a == b, || desc(&format!("{u}/{d}: unbonding records changed by somebody else's call")));
                }
                if !(mine && op[0] == "withdraw") {
                    // a wallet only ever shrinks by its owner's own bond or by the coins its owner attached
                    let out = if u == sender {
                        coins_of(att, &d)
                    } else {
                        0
                    };
                    mon.check("C08", "only_owner", post.ubal[&k].checked_add(out) == Some(pre.ubal[&k]), || {
                        desc(&format!("{u}/{d}: wallet {} -> {} (own funds sent {out})", pre.ubal[&k], post.ubal[&k]))
                    });
                }
            }
        }
        match op[0] {
            "bond" => {
                let d = op[1];
                let x: u128 = op[2].parse().unwrap_or(0);
                let whitelisted = c.denoms.iter().any(|w| w == d);
                let funds_ok = op[3] == format!("{d}:{x}");
                mon.check("C08", "whitelist_only", whitelisted && funds_ok && x > 0, || desc("bond accepted outside whitelist / funds mismatch"));
                let k = (sender.to_string(), d.to_string());
                let bonded = |s: &Snap| -> u128 {
                    s.bonded[sender].as_ref().map(|b| b.2.iter().filter(|(y, _)| y == d).map(|y| y.1).sum()).unwrap_or(0)
                };
                mon.check(
                    "C08",
                    "bond_moves_exact",
                    bonded(post) == bonded(pre) + x && pre.ubal[&k] == post.ubal[&k] + x && post.cbal[d] == pre.cbal[d] + x && pre.unb == post.unb,
                    || desc("bond did not move exactly the amount from wallet to bond"),
                );
            }
            "unbond" => {
                let d = op[1];
                let x: u128 = op[2].parse().unwrap_or(0);
                let k = (sender.to_string(), d.to_string());
                let bonded = |s: &Snap| -> u128 {
                    s.bonded[sender].as_ref().map(|b| b.2.iter().filter(|(y, _)| y == d).map(|y| y.1).sum()).unwrap_or(0)
                };
                // the amount is entered into the record keyed by the block time, on top of what is there
                let before: u128 = pre.unb[&k].iter().filter(|r| r.0 == now).map(|r| r.1).sum();
                let after: u128 = post.unb[&k].iter().filter(|r| r.0 == now).map(|r| r.1).sum();
                let others_same = pre.unb[&k].iter().filter(|r| r.0 != now).eq(post.unb[&k].iter().filter(|r| r.0 != now));
                mon.check("C08", "unbond_enters_record", after == before + x && others_same && x > 0, || {
                    desc(&format!("record at {now}: {before} -> {after}, unbonded {x}"))
                });
                mon.check(
                    "C08",
                    "unbond_enters_record",
                    bonded(pre) == bonded(post) + x && self.moved_only(pre, post, sender, att, None),
                    || desc("unbond moved tokens other than the attached coins or did not decrease the bond by the amount"),
                );
                if before > 0 {
                    mon.stat("unbond_same_timestamp_accumulates");
                }
            }
            "withdraw" => {
                let d = op[1];
                let k = (sender.to_string(), d.to_string());
                let (a, b) = (&pre.unb[&k], &post.unb[&k]);
                let removed: Vec<&(u64, u128)> = a.iter().filter(|r| !b.contains(r)).collect();
                let paid: u128 = removed.iter().map(|r| r.1).sum();
                let att_d = coins_of(att, d);
                let survivors_intact = b.iter().all(|r| a.contains(r));
                mon.check("C08", "withdraw_pays_removed_records", survivors_intact && paid > 0, || desc("withdraw altered surviving records / paid nothing"));
                mon.check(
                    "C08",
                    "withdraw_pays_removed_records",
                    post.ubal[&k].checked_add(att_d) == pre.ubal[&k].checked_add(paid) && pre.cbal[d].checked_add(att_d) == post.cbal[d].checked_add(paid),
                    || desc(&format!("removed records sum {paid}, attached {att_d}, wallet {} -> {}, contract {} -> {}", pre.ubal[&k], post.ubal[&k], pre.cbal[d], post.cbal[d])),
                );
                // exactly the matured records of the state before the message — whatever was attached to it
                let due: Vec<&(u64, u128)> = a.iter().take(30).filter(|r| r.0 as u128 + pre.period as u128 <= now as u128).collect();
                let due_sum: u128 = due.iter().map(|r| r.1).sum();
                mon.check(
                    "C08",
                    "withdraw_pays_exactly_matured_records",
                    removed == due && self.moved_only(pre, post, sender, att, Some((d, due_sum))),
                    || {
                        desc(&format!(
                            "matured records {due:?} (sum {due_sum}), removed {removed:?}, attached {att:?}, wallet {} -> {}, contract {} -> {}",
                            pre.ubal[&k], post.ubal[&k], pre.cbal[d], post.cbal[d]
                        ))
                    },
                );
                if att_d > 0 && att_d == due_sum {
                    mon.stat("withdraw_with_attached_equal_to_the_payout");
                }
                // only after the unbonding period
                let premature: Vec<_> = removed.iter().filter(|r| (r.0 as u128 + pre.period as u128) > now as u128).collect();
                mon.check("C08", "only_after_period", premature.is_empty(), || desc(&format!("paid out before ts+period: {premature:?} now={now} period={}", pre.period)));
                // in full: nothing matured among the visited records is left behind
                let left: Vec<_> = b.iter().filter(|r| (r.0 as u128 + pre.period as u128) <= now as u128).collect();
                mon.check("C08", "matured_paid_in_full", left.is_empty() || a.len() > 30, || desc(&format!("matured records left behind: {left:?}")));
                // exactly once: a removed record key does not exist any more (a later withdraw cannot pay it again)
                mon.check("C08", "withdraw_exactly_once", removed.iter().all(|r| !b.iter().any(|y| y.0 == r.0)), || desc("paid record still present"));
                // bonds untouched
                mon.check("C08", "withdraw_pays_removed_records", pre.bonded == post.bonded && pre.total_bonded == post.total_bonded, || desc("withdraw changed bonds"));
                mon.stat_add("withdraw_records_paid", removed.len() as u64);
                if removed.iter().any(|r| r.0 as u128 + pre.period as u128 == now as u128) {
                    mon.stat("withdraw_at_exact_maturity");
                }
                if a.len() > 30 {
                    mon.stat("withdraw_with_more_than_30_records");
                }
            }
            "config" | "send" => {
                mon.check(
                    "C08",
                    "stray_coins_stay",
                    self.moved_only(pre, post, sender, att, None) && pre.bonded == post.bonded && pre.unb == post.unb && pre.total_assets == post.total_assets,
                    || desc("update_config / plain transfer moved tokens other than the coins it carried, or changed a bond or a record"),
                );
            }
            _ => {}
        }
    }

    /// a migration — accepted or refused, from whichever version — changes no bond, no unbonding record, no global
    /// index, no configuration value and no balance (`pre` was read at the migration's own block time, before the
    /// stored version was rewritten)
    fn migrate_monitor(&self, mon: &mut Monitor, pre: &Snap, post: &Snap, ok: bool, legacy: bool, line: &str) {
        let desc = |what: &str| format!("{what} at `{line}`");
        let mut a = pre.clone();
        let mut b = post.clone();
        // the one field a storage migration from a 0.8.x layout may write: the distributor address it introduces
        let fd_expected = if ok && legacy { String::new() } else { pre.fd.clone() };
        mon.check("C08", "migrate_changes_nothing", post.fd == fd_expected, || desc(&format!("fee_distributor_addr {:?} -> {:?}", pre.fd, post.fd)));
        if !self.fd_is_contract(post) || !self.fd_is_contract(pre) {
            // without a fee distributor the Bonded query of an address with a bond is unreadable
            a.bonded.clear();
            b.bonded.clear();
        }
        a.fd.clear();
        b.fd.clear();
        mon.check("C08", "migrate_changes_nothing", a == b, || {
            let mut diff = vec![];
            if (a.period, a.rate, &a.owner, &a.assets) != (b.period, b.rate, &b.owner, &b.assets) {
                diff.push(format!("config {}/{}/{}/{:?} -> {}/{}/{}/{:?}", a.period, a.rate, a.owner, a.assets, b.period, b.rate, b.owner, b.assets));
            }
            if a.bonded != b.bonded || a.total_bonded != b.total_bonded || a.total_assets != b.total_assets {
                diff.push("bonds".into());
            }
            if a.unb != b.unb || a.pages != b.pages || a.unb_total != b.unb_total {
                diff.push("unbonding records".into());
            }
            if (a.g_ts, a.g_weight, a.g_bonded, &a.g_assets) != (b.g_ts, b.g_weight, b.g_bonded, &b.g_assets) {
                diff.push("global index".into());
            }
            if a.cbal != b.cbal || a.ubal != b.ubal {
                diff.push("balances".into());
            }
            if a.wd != b.wd || a.weight != b.weight {
                diff.push("Withdrawable / Weight answers".into());
            }
            desc(&format!("migration ({}) changed: {}", if ok { "accepted" } else { "refused" }, diff.join(", ")))
        });
    }

    fn do_init(&mut self, ws: &[&str], mon: &mut Monitor) -> String {
        let mut kv: BTreeMap<&str, &str> = BTreeMap::new();
        for w in ws {
            if let Some((k, v)) = w.split_once('=') {
                kv.insert(k, v);
            }
        }
        let num = |k: &str| kv.get(k).and_then(|v| v.parse::<u128>().ok());
        let list = |k: &str| -> Vec<String> { kv.get(k).map(|v| v.split(',').filter(|x| !x.is_empty()).map(String::from).collect()).unwrap_or_default() };
        let c = match (num("period"), num("rate"), num("genesis"), num("dur"), num("start"), num("bal")) {
            (Some(p), Some(r), Some(g), Some(d), Some(s), Some(b)) => CaseCfg {
                period: p as u64,
                rate: r,
                genesis: g as u64,
                dur: d as u64,
                start: s as u64,
                bal: b,
                users: list("users"),
                owner: kv.get("owner").map(|s| s.to_string()).unwrap_or_default(),
                denoms: list("denoms"),
                extra: list("extra"),
                watch: list("watch"),
            },
            _ => return "bad-op".into(),
        };
        self.cfg = c.clone();
        self.now = c.start;
        self.stray.clear();
        self.given.clear();
        match self.build(&c) {
            Ok(()) => {
                let s = self.observe();
                self.state_monitors(mon, &s, "init");
                let o = self.render("ok", &s);
                self.prev = s;
                o
            }
            Err(e) => {
                self.w = None;
                format!("init-failed {}", e.replace(' ', "_"))
            }
        }
    }

    fn parse_asset(w: &str, amount: u128) -> Asset {
        if let Some(t) = w.strip_prefix('@') {
            Asset { info: AssetInfo::Token { contract_addr: t.into() }, amount: Uint128::new(amount) }
        } else {
            native(w, amount)
        }
    }
}

enum Call {
    Exec(ExecuteMsg),
    Send,
}

impl Engine for Lair {
    fn exec(&mut self, line: &str, mon: &mut Monitor) -> String {
        let ws: Vec<&str> = line.split_whitespace().collect();
        if ws.first() == Some(&"init") {
            if ws.get(1) != Some(&"lair") {
                return "bad-op".into();
            }
            return self.do_init(&ws[2..], mon);
        }
        // op lines: <op> <height> <time_ns> <sender> <args…>
        if self.w.is_none() || ws.len() < 4 {
            return "bad-op".into();
        }
        let (height, t) = match (ws[1].parse::<u64>(), ws[2].parse::<u64>()) {
            (Ok(h), Ok(t)) => (h, t),
            _ => return "bad-op".into(),
        };
        let sender = ws[3].to_string();
        if !self.cfg.users.contains(&sender) {
            return "bad-op".into();
        }
        let mut opv: Vec<&str> = std::iter::once(ws[0]).chain(ws[4..].iter().cloned()).collect();
        // `+coins`: funds attached to a message that does not ask for any
        let mut att: Vec<Coin> = vec![];
        if matches!(opv[0], "unbond" | "withdraw" | "config") {
            if let Some(f) = opv.last().and_then(|w| w.strip_prefix('+')) {
                match parse_coins(f) {
                    Some(c) => att = c,
                    None => return "bad-op".into(),
                }
                opv.pop();
            }
        }
        let op = &opv[..];
        // everything is parsed before the clock moves
        let lair = self.w.as_ref().unwrap().lair.clone();
        let sender_addr = Addr::unchecked(sender.clone());
        enum Parsed {
            Call(Call, Vec<Coin>),
            Guard(bool),
            Migrate(String, bool),
        }
        let parsed = match op {
            ["bond", a, x, f] => {
                let x: u128 = match x.parse() {
                    Ok(x) => x,
                    Err(_) => return "bad-op".into(),
                };
                let funds = if *f == "-" {
                    vec![]
                } else {
                    match parse_coins(f) {
                        Some(c) => c,
                        None => return "bad-op".into(),
                    }
                };
                att = funds.clone();
                Parsed::Call(Call::Exec(ExecuteMsg::Bond { asset: Self::parse_asset(a, x) }), funds)
            }
            ["unbond", a, x] => match x.parse::<u128>() {
                Ok(x) => Parsed::Call(Call::Exec(ExecuteMsg::Unbond { asset: Self::parse_asset(a, x) }), att.clone()),
                Err(_) => return "bad-op".into(),
            },
            ["withdraw", d] => Parsed::Call(Call::Exec(ExecuteMsg::Withdraw { denom: d.to_string() }), att.clone()),
            ["config", p, r] => {
                let p = if *p == "-" { None } else { p.parse::<u64>().ok().map(Uint64::new) };
                let r = if *r == "-" { None } else { r.parse::<u128>().ok().map(Decimal::raw) };
                Parsed::Call(
                    Call::Exec(ExecuteMsg::UpdateConfig { owner: None, unbonding_period: p, growth_rate: r, fee_distributor_addr: None }),
                    att.clone(),
                )
            }
            ["send", f] => match parse_coins(f) {
                Some(c) => {
                    att = c.clone();
                    Parsed::Call(Call::Send, c)
                }
                None => return "bad-op".into(),
            },
            ["setguard", g] => Parsed::Guard(*g != "0"),
            ["migrate", f] => {
                let v = match f.strip_prefix("from=") {
                    Some(v) => v,
                    None => return "bad-op".into(),
                };
                let (v, legacy) = match v.strip_suffix('L') {
                    Some(v) => (v, true),
                    None => (v, false),
                };
                match parse_ver(v) {
                    // the 0.8.x layout is only ever arranged for a version whose storage migration reads it
                    Some(ver) if !(legacy && ver >= (0, 9, 0)) => Parsed::Migrate(v.to_string(), legacy),
                    _ => return "bad-op".into(),
                }
            }
            _ => return "bad-op".into(),
        };
        self.set_time(height, t);
        self.now = t;
        let (call, funds) = match parsed {
            Parsed::Guard(real) => {
                // environment op: executed by the owner whatever the sender column says
                let w = self.w.as_ref().unwrap();
                let target = if real { w.real_dist.to_string() } else { w.stub_dist.to_string() };
                let owner = Addr::unchecked(self.cfg.owner.clone());
                let w = self.w.as_mut().unwrap();
                let r = w.app.execute_contract(
                    owner,
                    lair,
                    &ExecuteMsg::UpdateConfig { owner: None, unbonding_period: None, growth_rate: None, fee_distributor_addr: Some(target) },
                    &[],
                );
                if r.is_err() {
                    return "bad-op".into();
                }
                let s = self.observe();
                self.state_monitors(mon, &s, line);
                let o = self.render("ok", &s);
                self.prev = s;
                return o;
            }
            Parsed::Migrate(from, legacy) => {
                // the state as the queries show it at this block time, before anything is touched
                let pre = self.observe();
                let config_item = self.raw_get(b"config");
                if !self.arrange_release(&from, legacy) {
                    return "bad-op".into();
                }
                let code = self.w.as_ref().unwrap().lair_code;
                let out = {
                    let w = self.w.as_mut().unwrap();
                    guarded(|| w.app.migrate_contract(sender_addr, lair, &MigrateMsg {}, code))
                };
                let (tag, ok) = match &out {
                    Outcome::Ok(_) => ("ok", true),
                    Outcome::Err(e) => {
                        let kinds = [
                            ("Only admin", "err_not_admin"),
                            ("Attempt to migrate to version", "err_invalid_version"),
                            ("unknown field", "err_config_layout"),
                            ("missing field", "err_config_layout"),
                        ];
                        let kind = kinds.iter().find(|(k, _)| e.contains(k)).map(|x| x.1).unwrap_or("err_other");
                        mon.stat(&format!("migrate:{kind}"));
                        ("err", false)
                    }
                    Outcome::Panic => {
                        mon.stat("migrate:panic");
                        ("panic", false)
                    }
                };
                if ok {
                    mon.stat(if legacy { "migrate:ok_from_0.8_layout" } else { "migrate:ok" });
                } else if legacy {
                    // the older layout was the harness's own preparation: a refused migration leaves the item as the
                    // contract had written it
                    if let Some(c) = config_item {
                        self.raw_set(b"config", &c);
                    }
                }
                let post = self.observe();
                self.state_monitors(mon, &post, line);
                self.migrate_monitor(mon, &pre, &post, ok, legacy, line);
                let o = self.render(tag, &post);
                self.prev = post;
                return o;
            }
            Parsed::Call(c, f) => (c, f),
        };
        // pre-state at this block time (Withdrawable / Weight are time dependent)
        let pre = self.prev.clone();
        let out = {
            let w = self.w.as_mut().unwrap();
            match &call {
                Call::Exec(msg) => guarded(|| w.app.execute_contract(sender_addr, lair, msg, &funds)),
                Call::Send => guarded(|| w.app.send_tokens(sender_addr, lair, &funds)),
            }
        };
        let (tag, ok) = match &out {
            Outcome::Ok(_) => ("ok", true),
            Outcome::Err(e) => {
                let kinds = [
                    ("unclaimed rewards", "err_guard"),
                    ("doesn't match the asset expected", "err_asset_mismatch"),
                    ("Can only bond native", "err_invalid_bonding_asset"),
                    ("greater than the amount of tokens bonded", "err_insufficient_bond"),
                    ("Nothing to unbond", "err_nothing_to_unbond"),
                    ("Nothing to withdraw", "err_nothing_to_withdraw"),
                    ("must be greater than zero", "err_zero_unbond"),
                    ("Unauthorized", "err_unauthorized"),
                    ("growth rate must be", "err_growth_rate"),
                    ("empty coins", "err_bank_zero_amount"),
                    ("Cannot Sub", "err_sub_overflow"),
                    ("Cannot Add", "err_add_overflow"),
                    ("Cannot Mul", "err_mul_overflow"),
                    ("verflow", "err_overflow"),
                    ("time_factor", "err_time_factor"),
                    ("Querier", "err_fee_distributor_query"),
                ];
                let kind = kinds.iter().find(|(k, _)| e.contains(k)).map(|x| x.1).unwrap_or("err_other");
                mon.stat(&format!("{}:{}", op[0], kind));
                ("err", false)
            }
            Outcome::Panic => {
                mon.stat(&format!("{}:panic", op[0]));
                ("panic", false)
            }
        };
        if ok {
            mon.stat(&format!("{}:ok", op[0]));
            if op[0] == "bond" || op[0] == "unbond" {
                if let Ok(x) = op[2].parse::<u128>() {
                    mon.stat(&format!("amount_{}", mag_bucket(x)));
                }
            }
            // the stray ledger: what an accepted operation other than a bond carried
            if op[0] != "bond" {
                for c in &att {
                    let e = self.stray.entry(c.denom.clone()).or_insert(0);
                    *e = e.saturating_add(c.amount.u128());
                    let e = self.given.entry((sender.clone(), c.denom.clone())).or_insert(0);
                    *e = e.saturating_add(c.amount.u128());
                }
            }
        }
        let post = self.observe();
        self.state_monitors(mon, &post, line);
        self.transition_monitors(mon, &pre, &post, ok, &sender, op, &att, line);
        let o = self.render(tag, &post);
        self.prev = post;
        o
    }

    fn next_op(&mut self, rng: &mut Rng, step: u64) -> Option<String> {
        // the generator composes `<height> <time> <sender> <op> <args…>`; the protocol puts the op first
        self.gen_op(rng, step).map(|l| {
            if l.starts_with("init") {
                return l;
            }
            let t: Vec<&str> = l.split_whitespace().collect();
            let mut o: Vec<&str> = vec![t[3], t[0], t[1], t[2]];
            o.extend_from_slice(&t[4..]);
            o.join(" ")
        })
    }

    /// the init line as written to the ops file carries the crate version read from the real contract's cw2 item
    /// (`cur=`: the model's version gate compares against it)
    fn recorded(&mut self, line: &str) -> String {
        if line.starts_with("init") {
            let kept: Vec<&str> = line.split_whitespace().filter(|w| !w.starts_with("cur=")).collect();
            format!("{} cur={}.{}.{}", kept.join(" "), self.cur.0, self.cur.1, self.cur.2)
        } else {
            line.to_string()
        }
    }
}

impl Lair {
    fn gen_op(&mut self, rng: &mut Rng, step: u64) -> Option<String> {
        if step == 0 {
            // a new case: configuration
            let users: Vec<String> = vec!["user0".into(), "user1".into(), "user2".into(), "user3".into(), "owner".into()];
            let period: u64 = *rng.pick(&[0u64, 1, 1000, 1_000_000_000, 1_000_000_000_000, 1_000_000_000_000, DAY_NS, 14 * DAY_NS, 2_000_000_000_000_000_000]);
            let rate: u128 = match rng.below(6) {
                0 => 0,
                1 | 2 => E18,
                3 => 1,
                4 => rng.u128() % (E18 + 1),
                _ => E18 / 10,
            };
            let start: u64 = match rng.below(10) {
                0 => rng.range(0, 3) * 1_000_000_000 + rng.range(0, 5),
                1 => rng.range(1, 2_000_000_000_000),
                _ => 1_700_000_000_000_000_000 + rng.range(0, 999_999_999),
            };
            let genesis: u64 = match rng.below(4) {
                0 => start.saturating_add(rng.range(1, 3 * DAY_NS)),
                1 => start,
                _ => start.saturating_sub(rng.range(0, 10 * DAY_NS)),
            };
            self.big = rng.chance(1, 12);
            self.malformed_heavy = rng.chance(1, 8);
            self.many_unbonds = rng.chance(1, 25);
            self.guard_off = false;
            let bal: u128 = if self.big { 1u128 << 124 } else { 1u128 << 104 };
            self.n_ops = if self.many_unbonds { 40 } else { rng.range(5, 40) };
            self.height = 1;
            self.now = start;
            let c = CaseCfg {
                period,
                rate,
                genesis,
                dur: DAY_NS,
                start,
                bal,
                users: users.clone(),
                owner: "owner".into(),
                watch: vec!["ghost".into()],
                // whitelisted denoms and one that is not, in several shapes: the real ones; a pair differing only
                // in case with a third case variant outside the whitelist; an IBC voucher and a token-factory
                // denom whose last segment is the (not whitelisted) plain denom; prefixes of each other
                denoms: match rng.below(4) {
                    0 => vec!["ampWHALE".into(), "bWHALE".into()],
                    1 => vec!["ampWHALE".into(), "ampwhale".into()],
                    2 => vec!["ibc/27394FB092D2ECCD56123C74F36E4C1F926001CEADA9CA97EA622B25F41E5EB2".into(), "factory/migaloo1creator/ampWHALE".into()],
                    _ => vec!["bWHALE".into(), "bWHALEx".into()],
                },
                extra: vec![],
            };
            let c = CaseCfg {
                extra: vec![match c.denoms[1].as_str() {
                    "bWHALE" => "uother".to_string(),
                    "ampwhale" => "AMPWHALE".to_string(),
                    "bWHALEx" => "bWHAL".to_string(),
                    _ => "ampWHALE".to_string(),
                }],
                ..c
            };
            // generator-side copy (exec() rebuilds it from the line)
            self.cfg = c.clone();
            return Some(format!(
                "init lair period={} rate={} genesis={} dur={} start={} bal={} users={} owner={} denoms={} extra={} watch={}",
                c.period,
                c.rate,
                c.genesis,
                c.dur,
                c.start,
                c.bal,
                c.users.join(","),
                c.owner,
                c.denoms.join(","),
                c.extra.join(","),
                c.watch.join(",")
            ));
        }
        if step > self.n_ops {
            return None;
        }
        let period = self.prev.period;
        // ---- block-time schedule
        let all_recs: Vec<u64> = self.prev.unb.values().flat_map(|v| v.iter().map(|r| r.0)).collect();
        let mut dt: u64 = match rng.below(20) {
            0..=7 => 0,
            8 | 9 => 1,
            10 | 11 => period.saturating_sub(1),
            12..=14 => period,
            15 => period.saturating_add(1),
            16 => 1_000_000_000,
            17 => rng.range(1, 3 * 86_400) * 1_000_000_000 + rng.range(0, 999_999_999),
            18 => rng.range(1, 2_000_000_000),
            _ => {
                if self.big {
                    rng.range(1, 1 << 14) * 86_400_000_000_000 / 64
                } else {
                    rng.range(1, 40) * 86_400_000_000_000
                }
            }
        };
        if !all_recs.is_empty() && rng.chance(1, 4) {
            // aim at the maturity boundary of an existing record
            let r = *rng.pick(&all_recs) as u128 + period as u128;
            let target = r + rng.below(3) as u128;
            let target = target.saturating_sub(1);
            if target >= self.now as u128 && target < 15_000_000_000_000_000_000u128 {
                dt = (target - self.now as u128) as u64;
            }
        }
        if self.many_unbonds {
            dt = rng.range(1, 3);
        }
        if (self.now as u128 + dt as u128) < 15_000_000_000_000_000_000u128 {
            if dt > 0 {
                self.height += 1;
            }
            self.now += dt;
        }
        let c = self.cfg.clone();
        let user = rng.pick(&c.users).clone();
        let denom = rng.pick(&c.denoms).clone();
        let bits = if self.big { 123 } else { 100 };
        let head = format!("{} {} ", self.height, self.now);
        let bonded_of = |s: &Snap, u: &str, d: &str| -> u128 {
            s.bonded.get(u).and_then(|b| b.as_ref()).map(|b| b.2.iter().filter(|(x, _)| x == d).map(|x| x.1).sum()).unwrap_or(0)
        };
        if self.guard_off && rng.chance(1, 2) {
            self.guard_off = false;
            return Some(head + &format!("{user} setguard 1"));
        }
        let malformed = if self.malformed_heavy { rng.chance(1, 3) } else { rng.chance(1, 14) };
        if malformed {
            let x = rng.amount(bits);
            let other = c.extra[0].clone();
            let line = match rng.below(12) {
                0 => format!("{user} bond {other} {x} {other}:{x}"),
                1 => format!("{user} bond {denom} {x} {other}:{x}"),
                2 => format!("{user} bond {denom} {x} {denom}:{x},{other}:{x}"),
                3 => format!("{user} bond {denom} {x} -"),
                4 => format!("{user} bond {denom} {x} {denom}:{}", x.wrapping_add(1).max(1)),
                5 => format!("{user} bond {denom} 0 {denom}:0"),
                // a cw20 `Token` asset; two times in three its address SPELLS a whitelisted denom and the matching
                // native coins are attached (seed C08-N: string comparison of asset ids instead of the asset kind)
                6 => {
                    let t = if rng.chance(2, 3) { denom.clone() } else { "token".to_string() };
                    let d2 = if rng.chance(1, 4) { c.denoms[rng.below(c.denoms.len() as u64) as usize].clone() } else { denom.clone() };
                    format!("{user} bond @{t} {x} {d2}:{x}")
                }
                7 => {
                    let t = if rng.chance(2, 3) { denom.clone() } else { "token".to_string() };
                    let have = bonded_of(&self.prev, &user, &denom);
                    let y = if have > 0 && rng.chance(1, 2) { have.min(x).max(1) } else { x };
                    format!("{user} unbond @{t} {y}")
                }
                8 => format!("{user} unbond {other} {x}"),
                9 => format!("{user} withdraw {other}"),
                10 => format!("{user} unbond {denom} 0"),
                _ => {
                    let d2 = if denom == c.denoms[0] { c.denoms[1].clone() } else { c.denoms[0].clone() };
                    format!("{user} bond {denom} {x} {d2}:{x}")
                }
            };
            let coins = if !line.contains(" bond ") && rng.chance(1, 3) { self.gen_coins(rng, &user, &denom, x) } else { String::new() };
            return Some(head + &line + &coins);
        }
        if self.many_unbonds {
            // one user piles up > MAX_PAGE_LIMIT records, then withdraws
            let u = &c.users[0];
            let d = &c.denoms[0];
            let line = if step == 1 {
                format!("{u} bond {d} 1000000 {d}:1000000")
            } else if step <= 36 {
                format!("{u} unbond {d} {}", rng.range(1, 100))
            } else if step == 37 {
                self.now += period.min(1_000_000_000_000_000_000);
                self.height += 1;
                let coins = if rng.chance(1, 2) { self.gen_coins(rng, u, d, 1000) } else { String::new() };
                return Some(format!("{} {} {u} withdraw {d}{coins}", self.height, self.now));
            } else {
                format!("{u} withdraw {d}")
            };
            return Some(head + &line);
        }
        // about one message in nine that does not ask for funds carries some (with the plain transfers: about one
        // operation in twelve brings the lair coins without a bond)
        let with_coins = rng.chance(1, 9);
        let line = match rng.below(107) {
            0..=34 => {
                let x = match rng.below(10) {
                    0 => self.prev.ubal.get(&(user.clone(), denom.clone())).cloned().unwrap_or(1),
                    1 => rng.range(1, 1_000_000) as u128,
                    _ => rng.amount(bits),
                };
                format!("{user} bond {denom} {x} {denom}:{x}")
            }
            35..=64 => {
                // prefer somebody who has a bond
                let holders: Vec<(String, String, u128)> = c
                    .users
                    .iter()
                    .flat_map(|u| c.denoms.iter().map(move |d| (u.clone(), d.clone())))
                    .map(|(u, d)| {
                        let b = bonded_of(&self.prev, &u, &d);
                        (u, d, b)
                    })
                    .filter(|x| x.2 > 0)
                    .collect();
                if holders.is_empty() && rng.chance(3, 4) {
                    let x = rng.amount(bits);
                    format!("{user} bond {denom} {x} {denom}:{x}")
                } else if holders.is_empty() || rng.chance(1, 12) {
                    format!("{user} unbond {denom} {}", rng.amount(bits))
                } else {
                    let (u, d, b) = rng.pick(&holders).clone();
                    let x = match rng.below(10) {
                        0 | 1 => b,
                        2 => b / 2,
                        3 => b.saturating_add(1),
                        4 => 1,
                        5 => b.saturating_sub(1),
                        _ => rng.u128() % b + 1,
                    };
                    let coins = if with_coins { self.gen_coins(rng, &u, &d, x) } else { String::new() };
                    format!("{u} unbond {d} {x}{coins}")
                }
            }
            65..=93 => {
                let holders: Vec<(String, String)> = self.prev.unb.iter().filter(|(k, v)| !v.is_empty() && c.denoms.contains(&k.1)).map(|(k, _)| k.clone()).collect();
                if holders.is_empty() && rng.chance(5, 6) {
                    let bh: Vec<(String, String, u128)> = c
                        .users
                        .iter()
                        .flat_map(|u| c.denoms.iter().map(move |d| (u.clone(), d.clone())))
                        .map(|(u, d)| {
                            let b = bonded_of(&self.prev, &u, &d);
                            (u, d, b)
                        })
                        .filter(|x| x.2 > 0)
                        .collect();
                    if bh.is_empty() {
                        let x = rng.amount(bits);
                        format!("{user} bond {denom} {x} {denom}:{x}")
                    } else {
                        let (u, d, b) = rng.pick(&bh).clone();
                        format!("{u} unbond {d} {}", if rng.chance(1, 3) { b } else { rng.u128() % b + 1 })
                    }
                } else if holders.is_empty() || rng.chance(1, 12) {
                    let coins = if with_coins { self.gen_coins(rng, &user, &denom, 0) } else { String::new() };
                    format!("{user} withdraw {denom}{coins}")
                } else {
                    let (u, d) = rng.pick(&holders).clone();
                    // what this withdrawal is about to pay
                    let due: u128 = self.prev.unb[&(u.clone(), d.clone())]
                        .iter()
                        .take(30)
                        .filter(|r| r.0 as u128 + period as u128 <= self.now as u128)
                        .fold(0u128, |a, r| a.saturating_add(r.1));
                    let coins = if with_coins { self.gen_coins(rng, &u, &d, due) } else { String::new() };
                    format!("{u} withdraw {d}{coins}")
                }
            }
            94..=96 => {
                let p = match rng.below(4) {
                    0 => "-".to_string(),
                    1 => period.saturating_add(1).to_string(),
                    2 => (period / 2).to_string(),
                    _ => rng.pick(&[0u64, 1, 1000, 1_000_000_000_000]).to_string(),
                };
                let r = match rng.below(5) {
                    0 => "-".to_string(),
                    1 => E18.to_string(),
                    2 => (E18 + 1).to_string(),
                    3 => "0".to_string(),
                    _ => (rng.u128() % (E18 + 1)).to_string(),
                };
                let who = if rng.chance(1, 5) { user.clone() } else { c.owner.clone() };
                let coins = if rng.chance(1, 3) { self.gen_coins(rng, &who, &denom, 0) } else { String::new() };
                format!("{who} config {p} {r}{coins}")
            }
            97 | 98 => {
                self.guard_off = true;
                format!("{user} setguard 0")
            }
            99 => {
                self.guard_off = false;
                format!("{user} setguard 1")
            }
            100..=102 => {
                // a plain bank transfer to the lair
                let hint = self.prev.unb.values().flat_map(|v| v.iter().map(|r| r.1)).next().unwrap_or(0);
                let coins = self.gen_coins(rng, &user, &denom, hint);
                format!("{user} send {}", &coins[2..])
            }
            _ => {
                // the migrate entry point: stored versions on both sides of every threshold of contract.rs::migrate
                // (the crate's own version; 0.9.0), far away ones and PRNG ones; below 0.9.0 on the current layout
                // and on the 0.8.x layout the storage migration was written for; by the wasm admin, rarely by a user
                let (ma, mi, pa) = self.cur;
                let mut vs: Vec<(u64, u64, u64)> = vec![
                    (ma, mi, pa),
                    (ma, mi, pa + 1),
                    (ma, mi + 1, 0),
                    (ma + 1, 0, 0),
                    (0, 9, 0),
                    (0, 9, 1),
                    (0, 8, 99),
                    (0, 8, 0),
                    (0, 8, 0),
                    (0, 1, 0),
                    (0, 0, 0),
                    (rng.below(2), rng.below(12), rng.below(4)),
                ];
                if pa > 0 {
                    vs.push((ma, mi, pa - 1));
                    vs.push((ma, mi, pa - 1));
                }
                let v = *rng.pick(&vs);
                let who = if rng.chance(1, 6) { user.clone() } else { c.owner.clone() };
                let legacy = v < (0, 9, 0) && rng.chance(1, 2);
                if legacy && who == c.owner {
                    // the address is empty afterwards: the owner sets it again, sooner or later
                    self.guard_off = true;
                }
                format!("{who} migrate from={}.{}.{}{}", v.0, v.1, v.2, if legacy { "L" } else { "" })
            }
        };
        Some(head + &line)
    }

    /// ` +denom:amt[,denom:amt…]`: coins for a message that does not ask for any — the denom of the operation, the
    /// other whitelisted denom, the non-whitelisted denom, or several coins; amounts 1 / small / `hint` (the record
    /// about to be paid, the amount being unbonded) / the whole wallet / more than held / rarely zero
    fn gen_coins(&mut self, rng: &mut Rng, user: &str, op_denom: &str, hint: u128) -> String {
        let c = self.cfg.clone();
        let other = if c.denoms[0] == op_denom { c.denoms[1].clone() } else { c.denoms[0].clone() };
        let extra = c.extra[0].clone();
        let denoms: Vec<String> = match rng.below(8) {
            0..=2 => vec![op_denom.to_string()],
            3 => vec![other],
            4 | 5 => vec![extra],
            6 => vec![op_denom.to_string(), extra],
            _ => {
                let mut v = c.all_denoms();
                if rng.chance(1, 2) {
                    v.reverse();
                }
                v
            }
        };
        let coins: Vec<String> = denoms
            .iter()
            .map(|d| {
                let held = self.prev.ubal.get(&(user.to_string(), d.clone())).cloned().unwrap_or(0);
                let a = match rng.below(16) {
                    0..=2 => 1,
                    3..=6 => rng.range(2, 1000) as u128,
                    7..=10 => {
                        if hint > 0 {
                            hint
                        } else {
                            rng.range(2, 1_000_000) as u128
                        }
                    }
                    11 => held.saturating_add(1),
                    12 => held,
                    13 => rng.amount(if self.big { 123 } else { 100 }),
                    14 => 0,
                    _ => hint.saturating_add(1),
                };
                format!("{d}:{a}")
            })
            .collect();
        format!(" +{}", coins.join(","))
    }
}
