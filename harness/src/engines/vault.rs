//! Engine `vault` (C05, C06, C07-vault, C14-share): the real vault contract in cw-multi-test with
//! three users, a programmable borrower contract (its callback payload *is* the action tree), a fee
//! collector address, the owner, and the REAL vault router (account 5) in front of a harness-local
//! stub of the vault factory (answers `Vault{asset_info}` with the vault's address; the real factory
//! is C19's subject, and going through it would make the factory the vault's owner).
//! Observations are public queries + balances (+ LOAN_COUNTER raw).
//!
//! Entry points a cw20-LP vault has to refuse (the model answers `none`):
//!   wdirect <who> <sel> <amt>   ExecuteMsg::Withdraw {} sent directly; attached coins by `sel`:
//!                               0 = one coin of the vault asset's denom (held only when the asset is
//!                               native), 1 = one coin "ujunk", 2 = none, 3 = two coins (asset denom + ujunk)
//!   wfake <who> <amt>           cw20 `Send` of the vault ASSET token (cw20 asset) carrying the Withdraw hook
//!   xafter <who> <old> <loan>   ExecuteMsg::Callback(AfterTrade{old_balance, loan_amount}) by an ordinary account
//!
//! STRAY COINS. Every op that is an execute message of the vault or the router (deposit, collect, setfees,
//! toggles, loan, rloan, rloan0, rloan2, xnext, xcomplete, xafter) may end in a token `+<sel>:<amount>`:
//! the sender of the message attaches `amount` (> 0) coins the message does not ask for — sel 0 = the vault
//! asset's own native denom `uasset` (nobody holds such a coin when the asset is a cw20), sel 1 = the
//! unrelated denom `ujunk` (accounts 0..3 and the owner hold 2^100). Senders: deposit / router ops / xafter
//! their `who` (3 = the borrower contract, which attaches the coins to the message it sends), collect bob (1),
//! setfees / toggles the owner, loan the borrower contract. Coins of the asset's denom attached to a native
//! vault's Deposit are merged with the deposit's own coin (one coin per denom, as a chain would).
//! Observation key `junk=` lists the `ujunk` balances of accounts 0..5, the owner and the vault.
use crate::common::*;
use cosmwasm_std::{
    coin, coins, to_json_binary, Addr, BankMsg, Binary, Coin, CosmosMsg, Decimal, Empty, Response, StdError, Uint128,
    Uint512, WasmMsg,
};
use cw20::{Cw20Coin, Cw20ExecuteMsg, Cw20QueryMsg};
use cw_multi_test::{App, AppBuilder, AppResponse, BankKeeper, ContractWrapper, Executor};
use serde::{Deserialize, Serialize};
use white_whale_std::fee::{Fee, VaultFee};
use white_whale_std::pool_network::asset::{Asset, AssetInfo};
use white_whale_std::vault_network::vault as vmsg;
use white_whale_std::vault_network::vault_factory as fmsg;
use white_whale_std::vault_network::vault_router as rmsg;

/// (vault asset denom, unrelated denom held by accounts 0..3 and attached to foreign entry points / as stray
/// coins) per world, chosen by `dn=<k>` on the init line (the model does not look at names): plain; an IBC
/// voucher (upper-case hex) with its lower-case twin as the unrelated denom; a mixed-case denom with its
/// lower-case twin; a denom that is a prefix of the unrelated one
const DENOM_SETS: [(&str, &str); 4] = [
    ("uasset", "ujunk"),
    ("ibc/27394FB092D2ECCD56123C74F36E4C1F926001CEADA9CA97EA622B25F41E5EB2", "ibc/27394fb092d2eccd56123c74f36e4c1f926001ceada9ca97ea622b25f41e5eb2"),
    ("uAsset", "uasset"),
    ("uasset", "uassetx"),
];
static DN: std::sync::atomic::AtomicUsize = std::sync::atomic::AtomicUsize::new(0);
#[allow(non_snake_case)]
fn DENOM() -> &'static str {
    DENOM_SETS[DN.load(std::sync::atomic::Ordering::Relaxed) % DENOM_SETS.len()].0
}
#[allow(non_snake_case)]
fn JUNK() -> &'static str {
    DENOM_SETS[DN.load(std::sync::atomic::Ordering::Relaxed) % DENOM_SETS.len()].1
}
const E18: u128 = 1_000_000_000_000_000_000;
const ACCTS: [&str; 6] = ["alice", "bob", "carol", "adv", "collector", "router"];
const ROUTER: usize = 5;

#[derive(Debug, Deserialize, Clone, Serialize)]
#[serde(rename_all = "snake_case")]
pub enum AdvMsg {
    Run { msgs: Vec<CosmosMsg> },
    Fail {},
}

pub fn adv_contract() -> Box<dyn cw_multi_test::Contract<Empty>> {
    Box::new(ContractWrapper::new(
        |_d, _e, _i, msg: AdvMsg| -> Result<Response, StdError> {
            match msg {
                AdvMsg::Run { msgs } => Ok(Response::new().add_messages(msgs)),
                AdvMsg::Fail {} => Err(StdError::generic_err("adversary fails on purpose")),
            }
        },
        |_d, _e, _i, _m: Empty| -> Result<Response, StdError> { Ok(Response::new()) },
        |_d, _e, _m: Empty| -> Result<Binary, StdError> { Err(StdError::generic_err("no queries")) },
    ))
}

/// harness-local stand-in for the vault factory: `Register` once, then answers the one query the
/// router uses (`Vault{asset_info}` -> Option<String>)
#[derive(Debug, Deserialize, Clone, Serialize)]
#[serde(rename_all = "snake_case")]
pub enum StubFactoryMsg {
    Register { asset_info: AssetInfo, vault: String },
}

pub fn stub_factory_contract() -> Box<dyn cw_multi_test::Contract<Empty>> {
    Box::new(ContractWrapper::new(
        |d, _e, _i, msg: StubFactoryMsg| -> Result<Response, StdError> {
            match msg {
                StubFactoryMsg::Register { asset_info, vault } => {
                    d.storage.set(b"reg", &cosmwasm_std::to_json_vec(&(asset_info, vault))?);
                    Ok(Response::new())
                }
            }
        },
        |_d, _e, _i, _m: Empty| -> Result<Response, StdError> { Ok(Response::new()) },
        |d, _e, m: fmsg::QueryMsg| -> Result<Binary, StdError> {
            match m {
                fmsg::QueryMsg::Vault { asset_info } => {
                    let reg: Option<(AssetInfo, String)> = match d.storage.get(b"reg") {
                        Some(raw) => Some(cosmwasm_std::from_json(raw)?),
                        None => None,
                    };
                    let ans: Option<String> = match reg {
                        Some((ai, v)) if ai == asset_info => Some(v),
                        _ => None,
                    };
                    to_json_binary(&ans)
                }
                _ => Err(StdError::generic_err("stub factory: only Vault{asset_info}")),
            }
        },
    ))
}

/// callback action tree (same grammar as the Lean driver)
#[derive(Clone, Debug)]
pub enum Act {
    Pay(u128),
    Deposit(u128),
    Withdraw(u128),
    Collect,
    Out(usize, u128),
    Fail,
    Loan(u128, Vec<Act>),
    /// a guarded vault entry point sent BY THE BORROWER from inside its callback (the model: fails, and
    /// with it the loan): 0 = `Callback(AfterTrade{old_balance: a, loan_amount: b})`, 1 = `UpdateConfig`
    /// naming the borrower owner, 2 = direct `Withdraw {}`
    Foreign(u8, u128, u128),
}

pub fn show_acts(a: &[Act]) -> String {
    let parts: Vec<String> = a
        .iter()
        .map(|x| match x {
            Act::Pay(n) => format!("pay:{n}"),
            Act::Deposit(n) => format!("dep:{n}"),
            Act::Withdraw(n) => format!("wd:{n}"),
            Act::Collect => "collect".into(),
            Act::Out(t, n) => format!("out:{t}:{n}"),
            Act::Fail => "fail".into(),
            Act::Loan(n, cb) => format!("loan:{n}:{}", show_acts(cb)),
            Act::Foreign(0, a, b) => format!("xcb:{a}:{b}"),
            Act::Foreign(1, _, _) => "xcfg".into(),
            Act::Foreign(3, a, b) => format!("xnx:{a}:{b}"),
            Act::Foreign(_, _, _) => "xwd".into(),
        })
        .collect();
    format!("[{}]", parts.join(";"))
}

pub fn parse_acts(s: &str) -> Option<Vec<Act>> {
    let b: Vec<char> = s.chars().collect();
    let mut i = 0usize;
    let r = parse_list(&b, &mut i)?;
    if i == b.len() {
        Some(r)
    } else {
        None
    }
}
fn parse_num(b: &[char], i: &mut usize) -> Option<u128> {
    let st = *i;
    while *i < b.len() && b[*i].is_ascii_digit() {
        *i += 1;
    }
    b[st..*i].iter().collect::<String>().parse().ok()
}
fn parse_list(b: &[char], i: &mut usize) -> Option<Vec<Act>> {
    if b.get(*i) != Some(&'[') {
        return None;
    }
    *i += 1;
    let mut out = vec![];
    if b.get(*i) == Some(&']') {
        *i += 1;
        return Some(out);
    }
    loop {
        let st = *i;
        while *i < b.len() && b[*i].is_ascii_alphabetic() {
            *i += 1;
        }
        let word: String = b[st..*i].iter().collect();
        let act = match word.as_str() {
            "collect" => Act::Collect,
            "fail" => Act::Fail,
            "xcfg" => Act::Foreign(1, 0, 0),
            "xwd" => Act::Foreign(2, 0, 0),
            "xcb" | "xnx" => {
                if b.get(*i) != Some(&':') {
                    return None;
                }
                *i += 1;
                let a = parse_num(b, i)?;
                if b.get(*i) != Some(&':') {
                    return None;
                }
                *i += 1;
                Act::Foreign(if word == "xcb" { 0 } else { 3 }, a, parse_num(b, i)?)
            }
            "pay" | "dep" | "wd" => {
                if b.get(*i) != Some(&':') {
                    return None;
                }
                *i += 1;
                let n = parse_num(b, i)?;
                match word.as_str() {
                    "pay" => Act::Pay(n),
                    "dep" => Act::Deposit(n),
                    _ => Act::Withdraw(n),
                }
            }
            "out" => {
                if b.get(*i) != Some(&':') {
                    return None;
                }
                *i += 1;
                let t = parse_num(b, i)? as usize;
                if b.get(*i) != Some(&':') {
                    return None;
                }
                *i += 1;
                Act::Out(t, parse_num(b, i)?)
            }
            "loan" => {
                if b.get(*i) != Some(&':') {
                    return None;
                }
                *i += 1;
                let n = parse_num(b, i)?;
                if b.get(*i) != Some(&':') {
                    return None;
                }
                *i += 1;
                Act::Loan(n, parse_list(b, i)?)
            }
            _ => return None,
        };
        out.push(act);
        match b.get(*i) {
            Some(&';') => *i += 1,
            Some(&']') => {
                *i += 1;
                return Some(out);
            }
            _ => return None,
        }
    }
}

/// payload of a router flash loan: messages executed AS THE ROUTER (same grammar as the Lean driver)
#[derive(Clone, Debug)]
pub enum RAct {
    Fund(u128),
    Out(usize, u128),
    Pay(u128),
    Collect,
    Deposit(u128),
    Fail,
    Adv(Vec<Act>),
    Complete(usize, u128),
    RLoan(u128, Vec<RAct>),
}

pub fn show_racts(a: &[RAct]) -> String {
    let parts: Vec<String> = a
        .iter()
        .map(|x| match x {
            RAct::Fund(n) => format!("fund:{n}"),
            RAct::Out(t, n) => format!("out:{t}:{n}"),
            RAct::Pay(n) => format!("pay:{n}"),
            RAct::Collect => "collect".into(),
            RAct::Deposit(n) => format!("dep:{n}"),
            RAct::Fail => "fail".into(),
            RAct::Adv(acts) => format!("adv:{}", show_acts(acts)),
            RAct::Complete(i, n) => format!("complete:{i}:{n}"),
            RAct::RLoan(n, pl) => format!("rloan:{n}:{}", show_racts(pl)),
        })
        .collect();
    format!("[{}]", parts.join(";"))
}

pub fn parse_racts(s: &str) -> Option<Vec<RAct>> {
    let b: Vec<char> = s.chars().collect();
    let mut i = 0usize;
    let r = parse_rlist(&b, &mut i)?;
    if i == b.len() {
        Some(r)
    } else {
        None
    }
}
fn colon(b: &[char], i: &mut usize) -> Option<()> {
    if b.get(*i) != Some(&':') {
        return None;
    }
    *i += 1;
    Some(())
}
fn parse_rlist(b: &[char], i: &mut usize) -> Option<Vec<RAct>> {
    if b.get(*i) != Some(&'[') {
        return None;
    }
    *i += 1;
    let mut out = vec![];
    if b.get(*i) == Some(&']') {
        *i += 1;
        return Some(out);
    }
    loop {
        let st = *i;
        while *i < b.len() && b[*i].is_ascii_alphabetic() {
            *i += 1;
        }
        let word: String = b[st..*i].iter().collect();
        let act = match word.as_str() {
            "collect" => RAct::Collect,
            "fail" => RAct::Fail,
            "fund" | "pay" | "dep" => {
                colon(b, i)?;
                let n = parse_num(b, i)?;
                match word.as_str() {
                    "fund" => RAct::Fund(n),
                    "pay" => RAct::Pay(n),
                    _ => RAct::Deposit(n),
                }
            }
            "out" | "complete" => {
                colon(b, i)?;
                let t = parse_num(b, i)? as usize;
                colon(b, i)?;
                let n = parse_num(b, i)?;
                if word == "out" {
                    RAct::Out(t, n)
                } else {
                    RAct::Complete(t, n)
                }
            }
            "adv" => {
                colon(b, i)?;
                RAct::Adv(parse_list(b, i)?)
            }
            "rloan" => {
                colon(b, i)?;
                let n = parse_num(b, i)?;
                colon(b, i)?;
                RAct::RLoan(n, parse_rlist(b, i)?)
            }
            _ => return None,
        };
        out.push(act);
        match b.get(*i) {
            Some(&';') => *i += 1,
            Some(&']') => {
                *i += 1;
                return Some(out);
            }
            _ => return None,
        }
    }
}

#[derive(Clone, Debug, PartialEq, Default)]
pub struct Obs {
    pub bal: u128,
    pub pend: u128,
    pub all: u128,
    pub burned: u128,
    pub sup: u128,
    pub lpv: u128,
    pub ctr: u128,
    pub ab: Vec<u128>,
    pub lb: Vec<u128>,
    pub asup: u128,
    pub share: String,
    pub pb: u128,
    pub tog: (bool, bool, bool),
    pub fees: (u128, u128, u128),
    /// `ujunk` balances: accounts 0..5, the owner, the vault
    pub junk: Vec<u128>,
}
impl Obs {
    fn show(&self) -> String {
        let j = |v: &Vec<u128>| v.iter().map(|x| x.to_string()).collect::<Vec<_>>().join(",");
        format!(
            "bal={} pend={} all={} burned={} sup={} lpv={} ctr={} ab={} lb={} asup={} share={} pb={} tog={}{}{} fees={},{},{} junk={}",
            self.bal, self.pend, self.all, self.burned, self.sup, self.lpv, self.ctr, j(&self.ab), j(&self.lb), self.asup, self.share, self.pb,
            self.tog.0 as u8, self.tog.1 as u8, self.tog.2 as u8, self.fees.0, self.fees.1, self.fees.2, j(&self.junk)
        )
    }
}

pub struct World {
    app: App,
    kind: u8,
    vault: Addr,
    lp: Addr,
    asset_token: Option<Addr>,
    adv: Addr,
    router: Addr,
    owner: Addr,
    accts: Vec<Addr>,
    fees: (u128, u128, u128),
    // ghost sums for the C07 monitors
    charged: u128,
    sent_to_collector: u128,
    burned_sum: u128,
    first_deposit_done: bool,
    last_deposit: Option<(usize, u128, u128)>, // who, amount, minted
}

/// stray coins attached to a message: (selector, amount); selector 0 = the vault asset's native denom, 1 = `ujunk`
pub type Stray = Option<(u8, u128)>;
/// the ops that are execute messages of the vault / the router sent by an account of the harness
const STRAY_OPS: [&str; 11] = ["deposit", "collect", "setfees", "toggles", "loan", "rloan", "rloan0", "rloan2", "xnext", "xcomplete", "xafter"];
/// index of the owner / the vault in `Obs::junk`
const J_OWNER: usize = 6;
const J_VAULT: usize = 7;

/// `+<sel>:<amount>`
pub fn parse_stray(t: &str) -> Option<(u8, u128)> {
    let (a, b) = t.strip_prefix('+')?.split_once(':')?;
    let (sel, n): (u8, u128) = (a.parse().ok()?, b.parse().ok()?);
    if sel > 1 || n == 0 || !a.bytes().all(|c| c.is_ascii_digit()) || !b.bytes().all(|c| c.is_ascii_digit()) {
        return None;
    }
    Some((sel, n))
}

#[derive(Default)]
pub struct VaultEngine {
    w: Option<World>,
    last: Obs,
    len: u64,
}

fn u512(x: u128) -> Uint512 {
    Uint512::from(x)
}

impl World {
    fn new(kind: u8, fees: (u128, u128, u128), bals: &[u128]) -> World {
        let owner = Addr::unchecked("owner");
        let mut accts: Vec<Addr> = ACCTS.iter().map(|a| Addr::unchecked(*a)).collect();
        let mut app = AppBuilder::new().with_bank(BankKeeper::new()).build(|_r, _a, _s| {});
        let vault_id = app.store_code(Box::new(
            ContractWrapper::new(vault::contract::execute, vault::contract::instantiate, vault::contract::query)
                .with_reply(vault::reply::reply),
        ));
        let token_id = app.store_code(Box::new(ContractWrapper::new(
            terraswap_token::contract::execute,
            terraswap_token::contract::instantiate,
            terraswap_token::contract::query,
        )));
        let cw20_id = app.store_code(Box::new(ContractWrapper::new(
            cw20_base::contract::execute,
            cw20_base::contract::instantiate,
            cw20_base::contract::query,
        )));
        let adv_id = app.store_code(adv_contract());
        let adv = app.instantiate_contract(adv_id, owner.clone(), &Empty {}, &[], "adv", None).unwrap();
        accts[3] = adv.clone();
        // the vault router in front of a stub factory (registered below, once the vault exists)
        let factory_id = app.store_code(stub_factory_contract());
        let factory = app.instantiate_contract(factory_id, owner.clone(), &Empty {}, &[], "stub-factory", None).unwrap();
        let router_id = app.store_code(Box::new(ContractWrapper::new(
            vault_router::contract::execute,
            vault_router::contract::instantiate,
            vault_router::contract::query,
        )));
        let router = app
            .instantiate_contract(
                router_id,
                owner.clone(),
                &rmsg::InstantiateMsg { owner: owner.to_string(), vault_factory_addr: factory.to_string() },
                &[],
                "router",
                None,
            )
            .unwrap();
        accts[ROUTER] = router.clone();
        for a in accts[..4].iter().chain(std::iter::once(&owner)) {
            app.sudo(cw_multi_test::SudoMsg::Bank(cw_multi_test::BankSudo::Mint { to_address: a.to_string(), amount: coins(1u128 << 100, JUNK()) }))
                .unwrap();
        }
        let mut asset_token = None;
        let asset_info = if kind == 0 {
            for (i, a) in accts.iter().enumerate() {
                if bals[i] > 0 {
                    app.sudo(cw_multi_test::SudoMsg::Bank(cw_multi_test::BankSudo::Mint {
                        to_address: a.to_string(),
                        amount: coins(bals[i], DENOM()),
                    }))
                    .unwrap();
                }
            }
            AssetInfo::NativeToken { denom: DENOM().into() }
        } else {
            let init: Vec<Cw20Coin> = accts
                .iter()
                .enumerate()
                .filter(|(i, _)| bals[*i] > 0)
                .map(|(i, a)| Cw20Coin { address: a.to_string(), amount: Uint128::new(bals[i]) })
                .collect();
            let t = app
                .instantiate_contract(
                    cw20_id,
                    owner.clone(),
                    &cw20_base::msg::InstantiateMsg {
                        name: "asset".into(),
                        symbol: "ASSET".into(),
                        decimals: 6,
                        initial_balances: init,
                        mint: None,
                        marketing: None,
                    },
                    &[],
                    "asset",
                    None,
                )
                .unwrap();
            asset_token = Some(t.clone());
            AssetInfo::Token { contract_addr: t.to_string() }
        };
        let vault = app
            .instantiate_contract(
                vault_id,
                owner.clone(),
                &vmsg::InstantiateMsg {
                    owner: owner.to_string(),
                    asset_info: asset_info.clone(),
                    token_id,
                    vault_fees: VaultFee {
                        protocol_fee: Fee { share: Decimal::raw(fees.0) },
                        flash_loan_fee: Fee { share: Decimal::raw(fees.1) },
                        burn_fee: Fee { share: Decimal::raw(fees.2) },
                    },
                    fee_collector_addr: accts[4].to_string(),
                    token_factory_lp: false,
                },
                &[],
                "vault",
                None,
            )
            .unwrap();
        app.execute_contract(
            owner.clone(),
            factory.clone(),
            &StubFactoryMsg::Register { asset_info: asset_info.clone(), vault: vault.to_string() },
            &[],
        )
        .unwrap();
        let cfg: vmsg::Config = app.wrap().query_wasm_smart(&vault, &vmsg::QueryMsg::Config {}).unwrap();
        let lp = match cfg.lp_asset {
            AssetInfo::Token { contract_addr } => Addr::unchecked(contract_addr),
            AssetInfo::NativeToken { .. } => panic!("native lp"),
        };
        World {
            app,
            kind,
            vault,
            lp,
            asset_token,
            adv,
            router,
            owner,
            accts,
            fees,
            charged: 0,
            sent_to_collector: 0,
            burned_sum: 0,
            first_deposit_done: false,
            last_deposit: None,
        }
    }

    fn asset_bal(&self, a: &Addr) -> u128 {
        match &self.asset_token {
            None => self.app.wrap().query_balance(a, DENOM()).unwrap().amount.u128(),
            Some(t) => cw20_bal(&self.app, t, a),
        }
    }

    fn observe(&self) -> Obs {
        let q = self.app.wrap();
        let pend: vmsg::ProtocolFeesResponse =
            q.query_wasm_smart(&self.vault, &vmsg::QueryMsg::ProtocolFees { all_time: false }).unwrap();
        let all: vmsg::ProtocolFeesResponse =
            q.query_wasm_smart(&self.vault, &vmsg::QueryMsg::ProtocolFees { all_time: true }).unwrap();
        let burned: vmsg::ProtocolFeesResponse = q.query_wasm_smart(&self.vault, &vmsg::QueryMsg::BurnedFees {}).unwrap();
        let ti: cw20::TokenInfoResponse = q.query_wasm_smart(&self.lp, &Cw20QueryMsg::TokenInfo {}).unwrap();
        let sup = ti.total_supply.u128();
        let ctr = match q.query_wasm_raw(&self.vault, b"loan_counter".to_vec()).unwrap() {
            Some(raw) => String::from_utf8(raw).unwrap().trim().parse::<u128>().unwrap_or(999),
            None => 999,
        };
        let bal = self.asset_bal(&self.vault);
        let ab: Vec<u128> = self.accts.iter().map(|a| self.asset_bal(a)).collect();
        let lb: Vec<u128> = self.accts[..4].iter().map(|a| cw20_bal(&self.app, &self.lp, a)).collect();
        let asup = match &self.asset_token {
            None => bal + ab.iter().sum::<u128>() + self.asset_bal(&self.owner),
            Some(t) => {
                let ti: cw20::TokenInfoResponse = q.query_wasm_smart(t, &Cw20QueryMsg::TokenInfo {}).unwrap();
                ti.total_supply.u128()
            }
        };
        let share_amt = if sup >= 1_000_000 { 1_000_000 } else { sup };
        let share = if sup == 0 {
            "na".to_string()
        } else {
            match guarded(|| q.query_wasm_smart::<Uint128>(&self.vault, &vmsg::QueryMsg::Share { amount: Uint128::new(share_amt) })) {
                Outcome::Ok(v) => v.to_string(),
                _ => "err".into(),
            }
        };
        let pb: vmsg::PaybackAmountResponse = q
            .query_wasm_smart(&self.vault, &vmsg::QueryMsg::GetPaybackAmount { amount: Uint128::new(1_000_000_007) })
            .unwrap();
        let cfg: vmsg::Config = q.query_wasm_smart(&self.vault, &vmsg::QueryMsg::Config {}).unwrap();
        Obs {
            tog: (cfg.deposit_enabled, cfg.withdraw_enabled, cfg.flash_loan_enabled),
            fees: (
                cfg.fees.protocol_fee.share.atomics().u128(),
                cfg.fees.flash_loan_fee.share.atomics().u128(),
                cfg.fees.burn_fee.share.atomics().u128(),
            ),
            bal,
            pend: pend.fees.amount.u128(),
            all: all.fees.amount.u128(),
            burned: burned.fees.amount.u128(),
            sup,
            lpv: cw20_bal(&self.app, &self.lp, &self.vault),
            ctr,
            ab,
            lb,
            asup,
            share,
            pb: pb.payback_amount.u128(),
            junk: self
                .accts
                .iter()
                .chain([&self.owner, &self.vault])
                .map(|a| q.query_balance(a, JUNK()).unwrap().amount.u128())
                .collect(),
        }
    }

    fn pay_msg(&self, to: &Addr, n: u128) -> CosmosMsg {
        match &self.asset_token {
            None => BankMsg::Send { to_address: to.to_string(), amount: coins(n, DENOM()) }.into(),
            Some(t) => WasmMsg::Execute {
                contract_addr: t.to_string(),
                msg: to_json_binary(&Cw20ExecuteMsg::Transfer { recipient: to.to_string(), amount: n.into() }).unwrap(),
                funds: vec![],
            }
            .into(),
        }
    }

    fn acts_to_msgs(&self, acts: &[Act]) -> Vec<CosmosMsg> {
        let mut out = vec![];
        for a in acts {
            match a {
                Act::Pay(n) => out.push(self.pay_msg(&self.vault, *n)),
                Act::Deposit(n) => {
                    if let Some(t) = &self.asset_token {
                        out.push(
                            WasmMsg::Execute {
                                contract_addr: t.to_string(),
                                msg: to_json_binary(&Cw20ExecuteMsg::IncreaseAllowance {
                                    spender: self.vault.to_string(),
                                    amount: (*n).into(),
                                    expires: None,
                                })
                                .unwrap(),
                                funds: vec![],
                            }
                            .into(),
                        );
                    }
                    out.push(
                        WasmMsg::Execute {
                            contract_addr: self.vault.to_string(),
                            msg: to_json_binary(&vmsg::ExecuteMsg::Deposit { amount: (*n).into() }).unwrap(),
                            funds: if self.kind == 0 && *n > 0 { coins(*n, DENOM()) } else { vec![] },
                        }
                        .into(),
                    );
                }
                Act::Withdraw(lp) => out.push(
                    WasmMsg::Execute {
                        contract_addr: self.lp.to_string(),
                        msg: to_json_binary(&Cw20ExecuteMsg::Send {
                            contract: self.vault.to_string(),
                            amount: (*lp).into(),
                            msg: to_json_binary(&vmsg::Cw20HookMsg::Withdraw {}).unwrap(),
                        })
                        .unwrap(),
                        funds: vec![],
                    }
                    .into(),
                ),
                Act::Collect => out.push(
                    WasmMsg::Execute {
                        contract_addr: self.vault.to_string(),
                        msg: to_json_binary(&vmsg::ExecuteMsg::CollectProtocolFees {}).unwrap(),
                        funds: vec![],
                    }
                    .into(),
                ),
                Act::Out(t, n) => {
                    if *t < 3 {
                        out.push(self.pay_msg(&self.accts[*t], *n))
                    } else {
                        out.push(self.fail_msg())
                    }
                }
                Act::Fail => out.push(self.fail_msg()),
                Act::Loan(n, cb) => out.push(self.loan_msg(*n, cb)),
                Act::Foreign(3, a, b) => {
                    // the router's NextLoan sent by the borrower contract, which names ITSELF as the source vault of
                    // the registered asset; the payload would have the router pay `a` to account `b`
                    let to = self.accts[(*b as usize).min(2)].clone();
                    let msg = to_json_binary(&rmsg::ExecuteMsg::NextLoan {
                        initiator: self.accts[3].clone(),
                        source_vault: self.accts[3].to_string(),
                        source_vault_asset_info: self.asset_info(),
                        payload: vec![self.pay_msg(&to, *a)],
                        to_loan: vec![],
                        loaned_assets: vec![],
                    })
                    .unwrap();
                    out.push(WasmMsg::Execute { contract_addr: self.router.to_string(), msg, funds: vec![] }.into());
                }
                Act::Foreign(k, a, b) => {
                    let msg = match k {
                        0 => to_json_binary(&vmsg::ExecuteMsg::Callback(vmsg::CallbackMsg::AfterTrade { old_balance: (*a).into(), loan_amount: (*b).into() })),
                        1 => to_json_binary(&vmsg::ExecuteMsg::UpdateConfig(vmsg::UpdateConfigParams {
                            flash_loan_enabled: None,
                            deposit_enabled: None,
                            withdraw_enabled: None,
                            new_owner: Some(self.accts[3].to_string()),
                            new_vault_fees: None,
                            new_fee_collector_addr: None,
                        })),
                        _ => to_json_binary(&vmsg::ExecuteMsg::Withdraw {}),
                    }
                    .unwrap();
                    out.push(WasmMsg::Execute { contract_addr: self.vault.to_string(), msg, funds: vec![] }.into());
                }
            }
        }
        out
    }

    fn asset_info(&self) -> AssetInfo {
        match &self.asset_token {
            None => AssetInfo::NativeToken { denom: DENOM().into() },
            Some(t) => AssetInfo::Token { contract_addr: t.to_string() },
        }
    }

    fn asset(&self, n: u128) -> Asset {
        Asset { info: self.asset_info(), amount: n.into() }
    }

    fn wasm(&self, to: &Addr, msg: Binary) -> CosmosMsg {
        WasmMsg::Execute { contract_addr: to.to_string(), msg, funds: vec![] }.into()
    }

    /// router `FlashLoan{assets, msgs = payload}`
    fn router_loan_msg(&self, assets: Vec<Asset>, payload: &[RAct]) -> rmsg::ExecuteMsg {
        rmsg::ExecuteMsg::FlashLoan { assets, msgs: self.racts_to_msgs(payload) }
    }

    /// the payload's messages; the ROUTER executes them
    fn racts_to_msgs(&self, acts: &[RAct]) -> Vec<CosmosMsg> {
        let mut out = vec![];
        for a in acts {
            match a {
                RAct::Fund(n) => out.push(self.wasm(
                    &self.adv,
                    to_json_binary(&AdvMsg::Run { msgs: vec![self.pay_msg(&self.router, *n)] }).unwrap(),
                )),
                RAct::Out(t, n) => {
                    if *t < 3 {
                        out.push(self.pay_msg(&self.accts[*t], *n))
                    } else {
                        out.push(self.fail_msg())
                    }
                }
                RAct::Pay(n) => out.push(self.pay_msg(&self.vault, *n)),
                RAct::Collect => out.push(self.wasm(&self.vault, to_json_binary(&vmsg::ExecuteMsg::CollectProtocolFees {}).unwrap())),
                RAct::Deposit(n) => {
                    if let Some(t) = &self.asset_token {
                        out.push(self.wasm(
                            t,
                            to_json_binary(&Cw20ExecuteMsg::IncreaseAllowance { spender: self.vault.to_string(), amount: (*n).into(), expires: None })
                                .unwrap(),
                        ));
                    }
                    out.push(
                        WasmMsg::Execute {
                            contract_addr: self.vault.to_string(),
                            msg: to_json_binary(&vmsg::ExecuteMsg::Deposit { amount: (*n).into() }).unwrap(),
                            funds: if self.kind == 0 && *n > 0 { coins(*n, DENOM()) } else { vec![] },
                        }
                        .into(),
                    );
                }
                RAct::Fail => out.push(self.fail_msg()),
                RAct::Adv(acts) => out.push(self.wasm(&self.adv, to_json_binary(&AdvMsg::Run { msgs: self.acts_to_msgs(acts) }).unwrap())),
                RAct::Complete(i, n) => {
                    if *i < 4 {
                        out.push(self.wasm(
                            &self.router,
                            to_json_binary(&rmsg::ExecuteMsg::CompleteLoan {
                                initiator: self.accts[*i].clone(),
                                loaned_assets: vec![(self.vault.to_string(), self.asset(*n))],
                            })
                            .unwrap(),
                        ))
                    } else {
                        out.push(self.fail_msg())
                    }
                }
                RAct::RLoan(n, pl) => {
                    out.push(self.wasm(&self.router, to_json_binary(&self.router_loan_msg(vec![self.asset(*n)], pl)).unwrap()))
                }
            }
        }
        out
    }

    /// execute `msg` on the router as account `who` (0..2 directly, 3 = the borrower contract via `Run`)
    fn call_router(&mut self, who: usize, msg: &rmsg::ExecuteMsg, funds: &[Coin]) -> bool {
        let r = if who < 3 {
            let (a, r) = (self.accts[who].clone(), self.router.clone());
            guarded(|| self.app.execute_contract(a, r, msg, funds))
        } else {
            // the borrower contract attaches the coins (its own) to the message it sends
            let inner: CosmosMsg =
                WasmMsg::Execute { contract_addr: self.router.to_string(), msg: to_json_binary(msg).unwrap(), funds: funds.to_vec() }.into();
            let run = AdvMsg::Run { msgs: vec![inner] };
            let (a, adv) = (self.accts[0].clone(), self.adv.clone());
            guarded(|| self.app.execute_contract(a, adv, &run, &[]))
        };
        matches!(r, Outcome::Ok(_))
    }

    fn fail_msg(&self) -> CosmosMsg {
        WasmMsg::Execute { contract_addr: self.adv.to_string(), msg: to_json_binary(&AdvMsg::Fail {}).unwrap(), funds: vec![] }.into()
    }

    fn loan_msg(&self, n: u128, cb: &[Act]) -> CosmosMsg {
        self.loan_msg_with(n, cb, vec![])
    }

    /// the borrower contract's FlashLoan message, with coins (its own) attached
    fn loan_msg_with(&self, n: u128, cb: &[Act], funds: Vec<Coin>) -> CosmosMsg {
        let inner = AdvMsg::Run { msgs: self.acts_to_msgs(cb) };
        WasmMsg::Execute {
            contract_addr: self.vault.to_string(),
            msg: to_json_binary(&vmsg::ExecuteMsg::FlashLoan { amount: n.into(), msg: to_json_binary(&inner).unwrap() }).unwrap(),
            funds,
        }
        .into()
    }
}

pub fn cw20_bal(app: &App, token: &Addr, a: &Addr) -> u128 {
    let r: cw20::BalanceResponse = app.wrap().query_wasm_smart(token, &Cw20QueryMsg::Balance { address: a.to_string() }).unwrap();
    r.balance.u128()
}

fn fee_of(share: u128, amt: u128) -> u128 {
    (u512(amt) * u512(share) / u512(E18)).to_string().parse().unwrap()
}

impl VaultEngine {
    fn exec_op(&mut self, ws: &[&str], stray: Stray, mon: &mut Monitor) -> Result<bool, ()> {
        // returns Ok(success) ; Err(()) = bad op line
        let w = self.w.as_mut().ok_or(())?;
        let before = self.last.clone();
        let nums = |from: usize| -> Option<Vec<u128>> { parse_u128s(&ws[from..]) };
        let ok: bool;
        if stray.is_some() && !STRAY_OPS.contains(&ws[0]) {
            return Err(());
        }
        // the coins attached to the message on top of what it asks for
        let extra: Vec<Coin> = match stray {
            Some((0, n)) => coins(n, DENOM()),
            Some((_, n)) => coins(n, JUNK()),
            None => vec![],
        };
        match ws[0] {
            "deposit" => {
                let a = nums(1).ok_or(())?;
                if a.len() != 3 || a[0] > 3 {
                    return Err(());
                }
                let who = w.accts[a[0] as usize].clone();
                let (amount, sent) = (a[1], a[2]);
                let r = guarded(|| -> Result<(), String> {
                    if let Some(t) = &w.asset_token {
                        // (also for 0: creates the allowance entry, so TransferFrom(0) is well defined)
                        w.app
                            .execute_contract(
                                who.clone(),
                                t.clone(),
                                &Cw20ExecuteMsg::IncreaseAllowance { spender: w.vault.to_string(), amount: sent.into(), expires: None },
                                &[],
                            )
                            .map_err(|e| e.to_string())?;
                    }
                    let mut funds = if w.kind == 0 && sent > 0 { coins(sent, DENOM()) } else { vec![] };
                    match stray {
                        // one coin per denom: stray coins of the asset's denom join the deposit's own coin
                        Some((0, n)) if w.kind == 0 => funds = coins(sent + n, DENOM()),
                        _ => funds.extend(extra.iter().cloned()),
                    }
                    let r = w
                        .app
                        .execute_contract(who.clone(), w.vault.clone(), &vmsg::ExecuteMsg::Deposit { amount: amount.into() }, &funds)
                        .map(|_| ())
                        .map_err(|e| e.to_string());
                    if r.is_err() {
                        if let Some(t) = &w.asset_token {
                            if sent > 0 {
                                // remove the lingering allowance of a failed deposit
                                let _ = w.app.execute_contract(
                                    who.clone(),
                                    t.clone(),
                                    &Cw20ExecuteMsg::DecreaseAllowance { spender: w.vault.to_string(), amount: sent.into(), expires: None },
                                    &[],
                                );
                            }
                        }
                    }
                    r
                });
                ok = matches!(r, Outcome::Ok(()));
            }
            "withdraw" => {
                let a = nums(1).ok_or(())?;
                if a.len() != 2 || a[0] > 3 {
                    return Err(());
                }
                let who = w.accts[a[0] as usize].clone();
                // C14: the Share query for exactly this amount, immediately before
                let quoted = guarded(|| {
                    w.app.wrap().query_wasm_smart::<Uint128>(&w.vault, &vmsg::QueryMsg::Share { amount: a[1].into() })
                });
                let r = guarded(|| {
                    w.app.execute_contract(
                        who.clone(),
                        w.lp.clone(),
                        &Cw20ExecuteMsg::Send {
                            contract: w.vault.to_string(),
                            amount: a[1].into(),
                            msg: to_json_binary(&vmsg::Cw20HookMsg::Withdraw {}).unwrap(),
                        },
                        &[],
                    )
                });
                ok = matches!(r, Outcome::Ok(_));
                if ok {
                    let after = w.asset_bal(&who);
                    let paid = after.saturating_sub(before.ab[a[0] as usize]);
                    if let Outcome::Ok(qv) = quoted {
                        mon.check("C14", "vault_share_eq_withdraw", qv.u128() == paid, || {
                            format!("Share({}) = {} but withdraw paid {}", a[1], qv, paid)
                        });
                    }
                }
            }
            "collect" => {
                let r = guarded(|| w.app.execute_contract(w.accts[1].clone(), w.vault.clone(), &vmsg::ExecuteMsg::CollectProtocolFees {}, &extra));
                ok = matches!(r, Outcome::Ok(_));
            }
            "setfees" => {
                let a = nums(1).ok_or(())?;
                if a.len() != 3 {
                    return Err(());
                }
                let r = guarded(|| {
                    w.app.execute_contract(
                        w.owner.clone(),
                        w.vault.clone(),
                        &vmsg::ExecuteMsg::UpdateConfig(vmsg::UpdateConfigParams {
                            flash_loan_enabled: None,
                            deposit_enabled: None,
                            withdraw_enabled: None,
                            new_owner: None,
                            new_fee_collector_addr: None,
                            new_vault_fees: Some(VaultFee {
                                protocol_fee: Fee { share: Decimal::raw(a[0]) },
                                flash_loan_fee: Fee { share: Decimal::raw(a[1]) },
                                burn_fee: Fee { share: Decimal::raw(a[2]) },
                            }),
                        }),
                        &extra,
                    )
                });
                ok = matches!(r, Outcome::Ok(_));
                if ok {
                    w.fees = (a[0], a[1], a[2]);
                }
            }
            "toggles" => {
                let a = nums(1).ok_or(())?;
                if a.len() != 3 {
                    return Err(());
                }
                let r = guarded(|| {
                    w.app.execute_contract(
                        w.owner.clone(),
                        w.vault.clone(),
                        &vmsg::ExecuteMsg::UpdateConfig(vmsg::UpdateConfigParams {
                            flash_loan_enabled: Some(a[2] != 0),
                            deposit_enabled: Some(a[0] != 0),
                            withdraw_enabled: Some(a[1] != 0),
                            new_owner: None,
                            new_fee_collector_addr: None,
                            new_vault_fees: None,
                        }),
                        &extra,
                    )
                });
                ok = matches!(r, Outcome::Ok(_));
            }
            "loan" => {
                if ws.len() != 3 {
                    return Err(());
                }
                let n: u128 = ws[1].parse().map_err(|_| ())?;
                let cb = parse_acts(ws[2]).ok_or(())?;
                let msg = AdvMsg::Run { msgs: vec![w.loan_msg_with(n, &cb, extra.clone())] };
                let r = guarded(|| w.app.execute_contract(w.accts[0].clone(), w.adv.clone(), &msg, &[]));
                ok = matches!(r, Outcome::Ok(_));
            }
            "donate" => {
                let a = nums(1).ok_or(())?;
                if a.len() != 2 || a[0] > 3 {
                    return Err(());
                }
                let who = w.accts[a[0] as usize].clone();
                let m = w.pay_msg(&w.vault.clone(), a[1]);
                let r = guarded(|| w.app.execute(who, m));
                ok = matches!(r, Outcome::Ok(_));
            }
            "rloan" => {
                // rloan <initiator> <amount> <payload>
                if ws.len() != 4 {
                    return Err(());
                }
                let i: usize = ws[1].parse().map_err(|_| ())?;
                let n: u128 = ws[2].parse().map_err(|_| ())?;
                let pl = parse_racts(ws[3]).ok_or(())?;
                if i > 3 {
                    return Err(());
                }
                let msg = w.router_loan_msg(vec![w.asset(n)], &pl);
                ok = w.call_router(i, &msg, &extra);
            }
            "rloan0" => {
                if ws.len() != 3 {
                    return Err(());
                }
                let i: usize = ws[1].parse().map_err(|_| ())?;
                let pl = parse_racts(ws[2]).ok_or(())?;
                if i > 3 {
                    return Err(());
                }
                let msg = w.router_loan_msg(vec![], &pl);
                ok = w.call_router(i, &msg, &extra);
            }
            "rloan2" => {
                if ws.len() != 5 {
                    return Err(());
                }
                let i: usize = ws[1].parse().map_err(|_| ())?;
                let a1: u128 = ws[2].parse().map_err(|_| ())?;
                let a2: u128 = ws[3].parse().map_err(|_| ())?;
                let pl = parse_racts(ws[4]).ok_or(())?;
                if i > 3 {
                    return Err(());
                }
                let msg = w.router_loan_msg(vec![w.asset(a1), w.asset(a2)], &pl);
                ok = w.call_router(i, &msg, &extra);
            }
            "rfund" => {
                let a = nums(1).ok_or(())?;
                if a.len() != 2 || a[0] > 3 {
                    return Err(());
                }
                let who = w.accts[a[0] as usize].clone();
                let m = w.pay_msg(&w.router.clone(), a[1]);
                let r = if a[0] < 3 {
                    guarded(|| w.app.execute(who, m))
                } else {
                    let run = AdvMsg::Run { msgs: vec![m] };
                    guarded(|| w.app.execute_contract(w.accts[0].clone(), w.adv.clone(), &run, &[]))
                };
                ok = matches!(r, Outcome::Ok(_));
            }
            "xnext" => {
                // a stranger calls the router's NextLoan directly, naming the real vault as source
                // (a 5th token `self`: the stranger names ITSELF as the source vault of the registered asset)
                if ws.len() != 4 && !(ws.len() == 5 && ws[4] == "self") {
                    return Err(());
                }
                let i: usize = ws[1].parse().map_err(|_| ())?;
                let n: u128 = ws[2].parse().map_err(|_| ())?;
                let pl = parse_racts(ws[3]).ok_or(())?;
                if i > 3 {
                    return Err(());
                }
                let msg = rmsg::ExecuteMsg::NextLoan {
                    initiator: w.accts[i].clone(),
                    source_vault: if ws.len() == 5 { w.accts[i].to_string() } else { w.vault.to_string() },
                    source_vault_asset_info: w.asset_info(),
                    payload: w.racts_to_msgs(&pl),
                    to_loan: vec![],
                    loaned_assets: vec![(w.vault.to_string(), w.asset(n))],
                };
                ok = w.call_router(i, &msg, &extra);
            }
            "xcomplete" => {
                // a stranger calls the router's CompleteLoan directly
                let a = nums(1).ok_or(())?;
                if a.len() != 3 || a[0] > 3 || a[1] > 3 {
                    return Err(());
                }
                let msg = rmsg::ExecuteMsg::CompleteLoan {
                    initiator: w.accts[a[1] as usize].clone(),
                    loaned_assets: vec![(w.vault.to_string(), w.asset(a[2]))],
                };
                ok = w.call_router(a[0] as usize, &msg, &extra);
            }
            "wdirect" => {
                let a = nums(1).ok_or(())?;
                if a.len() != 3 || a[0] > 3 || a[1] > 3 {
                    return Err(());
                }
                let who = w.accts[a[0] as usize].clone();
                let funds: Vec<Coin> = match a[1] {
                    0 => coins(a[2], DENOM()),
                    1 => coins(a[2], JUNK()),
                    2 => vec![],
                    _ => vec![coin(a[2], DENOM()), coin(a[2], JUNK())],
                };
                let r = guarded(|| w.app.execute_contract(who.clone(), w.vault.clone(), &vmsg::ExecuteMsg::Withdraw {}, &funds));
                ok = matches!(r, Outcome::Ok(_));
                mon.stat(&format!("wdirect_coins_{}", ["asset_denom", "junk", "none", "asset_denom+junk"][a[1] as usize]));
                if (a[1] == 1 || (a[1] == 0 && w.kind == 0 && a[2] <= before.ab[a[0] as usize])) && a[2] > 0 && a[2] <= before.lpv {
                    mon.stat("wdirect_one_held_coin_amount_within_locked_lp");
                }
            }
            "wfake" => {
                let a = nums(1).ok_or(())?;
                if a.len() != 2 || a[0] > 3 {
                    return Err(());
                }
                let who = w.accts[a[0] as usize].clone();
                let r = match w.asset_token.clone() {
                    Some(t) => guarded(|| {
                        w.app.execute_contract(
                            who.clone(),
                            t,
                            &Cw20ExecuteMsg::Send { contract: w.vault.to_string(), amount: a[1].into(), msg: to_json_binary(&vmsg::Cw20HookMsg::Withdraw {}).unwrap() },
                            &[],
                        )
                    }),
                    None => guarded(|| Err::<AppResponse, _>("a native asset has no Send")),
                };
                ok = matches!(r, Outcome::Ok(_));
                mon.stat(if w.kind == 0 { "wfake_native_asset" } else { "wfake_cw20_asset" });
            }
            "xafter" => {
                let a = nums(1).ok_or(())?;
                if a.len() != 3 || a[0] > 3 {
                    return Err(());
                }
                let who = w.accts[a[0] as usize].clone();
                let msg = vmsg::ExecuteMsg::Callback(vmsg::CallbackMsg::AfterTrade { old_balance: a[1].into(), loan_amount: a[2].into() });
                let r = guarded(|| w.app.execute_contract(who.clone(), w.vault.clone(), &msg, &extra));
                ok = matches!(r, Outcome::Ok(_));
            }
            _ => return Err(()),
        }
        Ok(ok)
    }

    fn monitors(&mut self, ws: &[&str], stray: Stray, ok: bool, before: &Obs, after: &Obs, mon: &mut Monitor) {
        let w = self.w.as_mut().unwrap();
        let line = match stray {
            Some((sel, n)) => format!("{} +{sel}:{n}", ws.join(" ")),
            None => ws.join(" "),
        };
        let ctx = |what: &str| format!("{what}: op `{line}` before [{}] after [{}]", before.show(), after.show());
        // ---- coins attached to the message on top of what it asks for: who pays, which contract receives
        let (a_own, a_junk) = match stray {
            Some((0, n)) => (n, 0),
            Some((_, n)) => (0, n),
            None => (0, 0),
        };
        let sender: usize = match ws[0] {
            "deposit" | "rloan" | "rloan0" | "rloan2" | "xnext" | "xcomplete" | "xafter" => ws[1].parse().unwrap_or(0),
            "collect" => 1,
            "setfees" | "toggles" => J_OWNER,
            "loan" => 3,
            _ => 0,
        };
        let to_router = matches!(ws[0], "rloan" | "rloan0" | "rloan2" | "xnext" | "xcomplete");
        let kind = w.kind;
        // what the sender holds of the asset (the owner holds none); coins of the asset's denom exist only for a native asset
        let sender_has = |a: u128| (a == 0 || (kind == 0 && sender < 4 && before.ab[sender] >= a)) && before.junk[sender] >= a_junk;
        if let Some((sel, _)) = stray {
            mon.stat(&format!("stray_{}_{}_{}", ws[0], if sel == 0 { "asset_denom" } else { "junk" }, if ok { "ok" } else { "err" }));
            if sel == 0 && kind == 1 {
                mon.stat("stray_asset_denom_on_cw20_vault");
            }
        }
        // ---- every op
        if ws[0] == "loan" {
            // payback exactness: a callback that only repays X succeeds iff X >= quoted payback
            if let Some(cb) = parse_acts(ws[2]) {
                if let [Act::Pay(x)] = cb[..] {
                    let n: u128 = ws[1].parse().unwrap();
                    let pb = n + fee_of(before.fees.0, n) + fee_of(before.fees.1, n) + fee_of(before.fees.2, n);
                    // coins attached to the vault's FlashLoan are a donation: they leave the borrower and cannot repay anything
                    let pre = before.tog.2 && n > 0 && n <= before.bal && x > 0 && sender_has(a_own) && before.ab[3] - a_own + n >= x;
                    if pre {
                        mon.check("C06", "payback_exact", ok == (x >= pb), || ctx(&format!("repay-only callback with X={x}, quoted payback {pb}")));
                        mon.stat(if x == pb { "payback_at_exact" } else if x + 1 == pb { "payback_one_less" } else { "payback_other" });
                    }
                }
            }
        }
        if ws[0] == "rloan" {
            // router payback exactness: a payload that only funds the router with X succeeds iff
            // router_pre_balance + loan + X >= quoted payback
            if let Some(pl) = parse_racts(ws[3]) {
                let res = if ok { "ok" } else { "err" };
                for a in &pl {
                    let k = match a {
                        RAct::Fund(_) => continue,
                        RAct::Out(..) => "out",
                        RAct::Pay(_) => "pay",
                        RAct::Collect => "collect",
                        RAct::Deposit(_) => "deposit",
                        RAct::Fail => "fail",
                        RAct::Adv(_) => "adv",
                        RAct::Complete(..) => "complete",
                        RAct::RLoan(..) => "nested",
                    };
                    mon.stat(&format!("rloan_{res}_with_{k}"));
                }
                if ws[1] == "3" {
                    mon.stat(&format!("rloan_{res}_initiator_is_contract"));
                }
                if let [RAct::Fund(x)] = pl[..] {
                    let n: u128 = ws[2].parse().unwrap();
                    let pb = n + fee_of(before.fees.0, n) + fee_of(before.fees.1, n) + fee_of(before.fees.2, n);
                    // coins of the asset's denom attached to the router's FlashLoan are the router's during the transaction
                    let pre = before.tog.2
                        && n > 0
                        && n <= before.bal
                        && x > 0
                        && sender_has(a_own)
                        && before.ab[3] >= x + if sender == 3 { a_own } else { 0 };
                    if pre {
                        let have = before.ab[ROUTER] + a_own + n + x;
                        mon.check("C06", "router_payback_exact", ok == (have >= pb), || {
                            ctx(&format!("fund-only payload: router holds {} + {a_own} attached + {n} + {x} = {have}, quoted payback {pb}", before.ab[ROUTER]))
                        });
                        if a_own > 0 {
                            mon.stat(if have == pb { "router_payback_at_exact_with_attached" } else if have + 1 == pb { "router_payback_one_less_with_attached" } else { "router_payback_other_with_attached" });
                        }
                        mon.stat(if have == pb { "router_payback_at_exact" } else if have + 1 == pb { "router_payback_one_less" } else { "router_payback_other" });
                        if before.ab[ROUTER] > 0 {
                            mon.stat("router_payback_prefunded");
                        }
                    }
                }
            }
        }
        match ws[0] {
            "xnext" | "xcomplete" => {
                mon.check("C06", "router_callbacks_guarded", !ok, || ctx("NextLoan / CompleteLoan accepted from a stranger"));
                if before.ab[ROUTER] > 0 {
                    mon.stat("router_guard_probe_with_funds");
                }
            }
            // nothing but the LP token's `Send` withdraws; the loan-settling callback is the vault's own
            "wdirect" | "wfake" => {
                mon.check("C05", "withdraw_only_through_lp_token", !ok, || ctx("Withdraw accepted without the LP token's Send"));
            }
            "xafter" => {
                mon.check("C06", "vault_callback_guarded", !ok, || ctx("Callback(AfterTrade) accepted from a stranger"));
            }
            "rloan2" => mon.check("C06", "router_multi_asset_refused", !ok, || ctx("router accepted a loan of two assets")),
            "rloan0" => {
                // no message is emitted, the payload is not run; coins attached to the call stay with the router
                let mut exp = before.clone();
                if ok && stray.is_some() {
                    exp.ab[sender] = exp.ab[sender].wrapping_sub(a_own);
                    exp.ab[ROUTER] += a_own;
                    exp.junk[sender] = exp.junk[sender].wrapping_sub(a_junk);
                    exp.junk[ROUTER] += a_junk;
                }
                let refused_for_funds = !ok && !(sender_has(a_own));
                mon.check("C06", "router_zero_assets_noop", (ok && *after == exp) || refused_for_funds, || ctx("router loan of zero assets did something"))
            }
            _ => {}
        }
        if !ok {
            mon.check("C06", "failed_op_changes_nothing", before == after, || ctx("a failed transaction changed an observable"));
            mon.check("C05", "failed_op_changes_nothing", before == after, || ctx("a failed transaction changed an observable"));
            w.last_deposit = None;
            return;
        }
        // ---- the unrelated denom: attached coins land on (and stay with) the contract the message is sent to;
        // nothing else ever moves them (evaluated on balances, for every successful op)
        {
            let mut expj = before.junk.clone();
            if a_junk > 0 {
                expj[sender] = expj[sender].wrapping_sub(a_junk);
                expj[if to_router { ROUTER } else { J_VAULT }] += a_junk;
            }
            for p in ["C05", "C06", "C07"] {
                mon.check(p, "foreign_coins_stay_with_receiver", after.junk == expj, || ctx(&format!("expected ujunk balances {expj:?}")));
            }
        }
        // ---- a vault's reserves and ledgers change only as the op itself allows: messages that do not move the
        // asset (config changes, a router call without assets, a transfer to the router) leave balance, fee
        // ledgers, share supply and share balances alone — except that coins of the asset's denom attached to
        // a vault message are in the vault (a donation), attached to a router message in the router
        if matches!(ws[0], "setfees" | "toggles" | "rloan0" | "rfund") {
            let to_vault = if to_router { 0 } else { a_own };
            let mut exp = before.ab.clone();
            if a_own > 0 {
                if sender < 6 {
                    exp[sender] = exp[sender].wrapping_sub(a_own);
                }
                if to_router {
                    exp[ROUTER] += a_own;
                }
            }
            if ws[0] == "rfund" {
                let (who, n): (usize, u128) = (ws[1].parse().unwrap(), ws[2].parse().unwrap());
                exp[who] -= n;
                exp[ROUTER] += n;
            }
            let same = after.bal == before.bal + to_vault
                && after.pend == before.pend
                && after.all == before.all
                && after.burned == before.burned
                && after.sup == before.sup
                && after.lb == before.lb
                && after.lpv == before.lpv
                && after.ab == exp;
            for p in ["C05", "C07"] {
                mon.check(p, "vault_untouched_by_non_asset_ops", same, || ctx(&format!("expected balance {} and account balances {exp:?}", before.bal + to_vault)));
            }
        }
        let (r0, r1) = (before.bal - before.pend.min(before.bal), after.bal - after.pend.min(after.bal));
        mon.check("C07", "vault_pending_le_balance", after.pend <= after.bal, || ctx("pending protocol fees exceed the balance"));
        if before.sup > 0 {
            // share price: (bal-pend)/sup never decreases
            mon.check("C05", "share_price_monotone", u512(r0) * u512(after.sup) <= u512(r1) * u512(before.sup), || ctx("share price decreased"));
            mon.check("C05", "min_liquidity_locked", after.lpv == 1000 && before.lpv == 1000, || ctx("vault's own LP stake is not the locked minimum"));
        }
        // ---- ghost ledgers (C07, vault part)
        let dcol = after.ab[4].saturating_sub(before.ab[4]);
        mon.check("C07", "vault_collector_never_pays", after.ab[4] >= before.ab[4], || ctx("collector balance decreased"));
        w.sent_to_collector += dcol;
        match ws[0] {
            "deposit" => {
                let who: usize = ws[1].parse().unwrap();
                let amount: u128 = ws[2].parse().unwrap();
                let minted = after.lb[who].saturating_sub(before.lb[who]);
                if before.sup == 0 {
                    mon.check("C05", "first_deposit_locks_minimum", after.lpv == 1000 && minted + 1000 == amount && after.sup == amount, || ctx("first deposit split"));
                    w.first_deposit_done = true;
                } else {
                    mon.check("C05", "deposit_le_pro_rata", u512(minted) * u512(r0) <= u512(amount) * u512(before.sup), || ctx("deposit minted more than pro rata"));
                }
                mon.check("C05", "deposit_moves_exact_amount", after.bal == before.bal + amount && before.ab[who] == after.ab[who] + amount, || ctx("deposit moved a different amount"));
                w.last_deposit = Some((who, amount, minted));
                mon.stat("mon_deposit_ok");
            }
            "withdraw" => {
                let who: usize = ws[1].parse().unwrap();
                let lp: u128 = ws[2].parse().unwrap();
                let paid = after.ab[who].saturating_sub(before.ab[who]);
                mon.check("C05", "withdraw_le_pro_rata", u512(paid) * u512(before.sup) <= u512(r0) * u512(lp), || ctx("withdrawal paid more than pro rata"));
                mon.check("C05", "withdraw_burns_lp", before.sup == after.sup + lp && before.lb[who] == after.lb[who] + lp && before.bal == after.bal + paid, || ctx("withdraw bookkeeping"));
                if let Some((dwho, damount, dminted)) = w.last_deposit {
                    if dwho == who && lp <= dminted {
                        mon.check("C05", "deposit_then_withdraw_no_gain", paid <= damount, || ctx("deposit-then-withdraw returned more than deposited"));
                        mon.stat("mon_deposit_then_withdraw");
                    }
                }
                w.last_deposit = None;
            }
            "collect" => {
                // coins of the asset's denom attached to the message (sent by account 1) are a donation to the vault
                mon.check("C07", "vault_collect_exact", dcol == before.pend && after.pend == 0 && before.bal + a_own == after.bal + before.pend, || ctx("collect did not transfer exactly the pending fees"));
                mon.check("C07", "vault_collect_keeps_reserves", r0 + a_own == r1 && before.sup == after.sup, || ctx("collect changed LP reserves"));
                mon.check(
                    "C07",
                    "vault_collect_only_collector",
                    (0..6).filter(|i| *i != 4).all(|i| before.ab[i] == after.ab[i] + if i == sender { a_own } else { 0 }),
                    || ctx("collect paid someone else"),
                );
                w.last_deposit = None;
            }
            "loan" | "rloan" => {
                let n: u128 = ws[if ws[0] == "loan" { 1 } else { 2 }].parse().unwrap();
                let (pf, ff, bf) = (fee_of(before.fees.0, n), fee_of(before.fees.1, n), fee_of(before.fees.2, n));
                w.charged += pf;
                w.burned_sum += bf;
                // coins attached to the vault's own FlashLoan are in the vault before old_balance is read: they stay
                let donated = if ws[0] == "loan" { a_own } else { 0 };
                mon.check("C06", "loan_balance_ge_fees", after.bal >= before.bal + donated + pf + ff, || ctx("vault balance did not grow by protocol + flash-loan fee"));
                mon.check("C06", "loan_fees_exact", after.all == before.all + pf && after.burned == before.burned + bf, || ctx("recorded fees differ from floor(share*loan)"));
                mon.check("C06", "loan_burn_destroyed", before.asup == after.asup + bf, || ctx("burn fee did not leave circulation"));
                mon.check("C06", "loan_no_mint", after.sup <= before.sup, || ctx("LP minted during a loan"));
                mon.check("C06", "loan_counter_zero", after.ctr == 0, || ctx("loan counter not back to zero"));
                w.last_deposit = None;
                mon.stat("mon_loan_ok");
                if ws[0] == "rloan" {
                    mon.stat("mon_rloan_ok");
                    let i: usize = ws[1].parse().unwrap();
                    let pl = parse_racts(ws[3]).unwrap();
                    // the router keeps nothing - also nothing of what it held before the loan
                    mon.check("C06", "router_keeps_nothing", after.ab[ROUTER] == 0, || ctx("router holds funds after a completed loan"));
                    if before.ab[ROUTER] > 0 {
                        mon.stat("mon_rloan_ok_prefunded");
                    }
                    // payloads that only move plain funds: everything is determined
                    let simple = pl.iter().all(|a| matches!(a, RAct::Fund(_) | RAct::Out(..) | RAct::Pay(_)));
                    if simple {
                        let pb = n + pf + ff + bf;
                        let mut exp = before.ab.clone();
                        // coins of the asset's denom the initiator attached are the router's while the loan runs
                        exp[i] -= a_own;
                        let mut router = before.ab[ROUTER] as i128 + a_own as i128 + n as i128;
                        let mut paid = 0u128;
                        for a in &pl {
                            match a {
                                RAct::Fund(x) => {
                                    exp[3] -= *x;
                                    router += *x as i128;
                                }
                                RAct::Out(t, x) => {
                                    exp[*t] += *x;
                                    router -= *x as i128;
                                }
                                RAct::Pay(x) => {
                                    paid += *x;
                                    router -= *x as i128;
                                }
                                _ => {}
                            }
                        }
                        let rest = router - pb as i128;
                        exp[ROUTER] = 0;
                        if rest >= 0 {
                            exp[i] += rest as u128;
                        }
                        mon.check(
                            "C06",
                            "router_pays_quote_and_forwards_rest",
                            rest >= 0 && after.bal + bf + n == before.bal + paid + pb && after.ab == exp,
                            || ctx(&format!("router held {router} at CompleteLoan, quote {pb}: expected the vault to get exactly the quote and balances {exp:?}")),
                        );
                        mon.stat(if rest > 0 { "mon_rloan_profit_forwarded" } else { "mon_rloan_no_profit" });
                        if stray.is_some() {
                            // the property read on balances alone: the initiator's balance changes by exactly the payload's
                            // profit (what the router held + loan + fundings - sends - payments - quote: the attached
                            // coins are back with it), each vault gained exactly its retained fees (+ what the payload
                            // paid in), the router holds nothing it did not hold before
                            let profit = router - a_own as i128 - pb as i128;
                            let d_init = after.ab[i] as i128 - before.ab[i] as i128
                                + if i == 3 { pl.iter().map(|a| if let RAct::Fund(x) = a { *x as i128 } else { 0 }).sum::<i128>() } else { 0 }
                                - pl.iter().map(|a| if let RAct::Out(t, x) = a { if *t == i { *x as i128 } else { 0 } } else { 0 }).sum::<i128>();
                            mon.check("C06", "router_attached_coins_back_with_initiator", d_init == profit, || {
                                ctx(&format!("initiator {i} attached {a_own} of the asset / {a_junk} ujunk: balance change {d_init}, payload profit {profit}"))
                            });
                            mon.check("C06", "router_vault_gains_only_retained_fees", after.bal == before.bal + pf + ff + paid, || {
                                ctx(&format!("vault expected to gain protocol {pf} + flash-loan {ff} + paid in {paid}"))
                            });
                            mon.check("C06", "router_holds_nothing_new", after.ab[ROUTER] == 0 && after.junk[ROUTER] == before.junk[ROUTER] + a_junk, || {
                                ctx("router balance after a loan with coins attached")
                            });
                            mon.stat("mon_rloan_ok_with_attached_coins_simple_payload");
                        }
                    }
                    if a_own > 0 {
                        mon.stat(if a_own > n { "mon_rloan_ok_attached_above_loan" } else if a_own + 10 >= pf + ff + bf && a_own <= pf + ff + bf + 10 { "mon_rloan_ok_attached_about_fee" } else if a_own == 1 { "mon_rloan_ok_attached_one" } else { "mon_rloan_ok_attached_other" });
                    }
                }
            }
            _ => {
                w.last_deposit = None;
            }
        }
        if ws[0] != "collect" && ws[0] != "loan" && ws[0] != "rloan" {
            mon.check("C07", "vault_only_collect_pays_collector", dcol == 0, || ctx("collector balance moved outside a collection"));
        }
        mon.check("C07", "vault_pending_ledger", after.pend + w.sent_to_collector == w.charged, || {
            ctx(&format!("pending != charged {} - sent {}", w.charged, w.sent_to_collector))
        });
        mon.check("C07", "vault_all_time_eq_charged", after.all == w.charged && after.all >= before.all, || ctx("all-time counter"));
        mon.check("C07", "vault_burned_eq_sum", after.burned == w.burned_sum && after.burned >= before.burned, || ctx("burned counter"));
    }
}

impl Engine for VaultEngine {
    fn exec(&mut self, line: &str, mon: &mut Monitor) -> String {
        let mut ws: Vec<&str> = line.split_whitespace().collect();
        if ws.is_empty() {
            return "bad-op".into();
        }
        // a trailing `+<sel>:<amount>`: coins attached to the message on top of what it asks for
        let mut stray: Stray = None;
        if ws[0] != "init" && ws.last().map_or(false, |t| t.starts_with('+')) {
            match parse_stray(ws[ws.len() - 1]) {
                Some(x) => stray = Some(x),
                None => return "bad-op".into(),
            }
            ws.pop();
            if ws.is_empty() {
                return "bad-op".into();
            }
        }
        if ws[0] == "init" {
            // init vault kind=K p=.. f=.. b=.. bals=a,b,c,d,e,r
            let mut kind = 0u8;
            let mut fees = (0u128, 0u128, 0u128);
            let mut bals = vec![0u128; 6];
            DN.store(0, std::sync::atomic::Ordering::Relaxed);
            for t in &ws[2..] {
                let kv: Vec<&str> = t.split('=').collect();
                if kv.len() != 2 {
                    return "bad-op".into();
                }
                match kv[0] {
                    "kind" => kind = kv[1].parse().unwrap_or(0),
                    "p" => fees.0 = kv[1].parse().unwrap_or(0),
                    "f" => fees.1 = kv[1].parse().unwrap_or(0),
                    "b" => fees.2 = kv[1].parse().unwrap_or(0),
                    "bals" => bals = kv[1].split(',').map(|x| x.parse().unwrap_or(0)).collect(),
                    "dn" => DN.store(kv[1].parse().unwrap_or(0), std::sync::atomic::Ordering::Relaxed),
                    _ => return "bad-op".into(),
                }
            }
            if bals.len() != 6 {
                return "bad-op".into();
            }
            self.w = Some(World::new(kind, fees, &bals));
            self.last = self.w.as_ref().unwrap().observe();
            return format!("ok {}", self.last.show());
        }
        let before = self.last.clone();
        match self.exec_op(&ws, stray, mon) {
            Err(()) => "bad-op".into(),
            Ok(ok) => {
                let after = self.w.as_ref().unwrap().observe();
                self.monitors(&ws, stray, ok, &before, &after, mon);
                self.last = after;
                mon.stat(&format!("{}_{}", ws[0], if ok { "ok" } else { "err" }));
                format!("{} {}", if ok { "ok" } else { "err" }, self.last.show())
            }
        }
    }

    fn next_op(&mut self, rng: &mut Rng, step: u64) -> Option<String> {
        let line = self.gen_op(rng, step)?;
        if step == 0 || line.contains(" +") {
            return Some(line);
        }
        // any execute message can carry coins it does not ask for: about 5 % of the messages do
        let op = line.split_whitespace().next().unwrap_or("");
        if !STRAY_OPS.contains(&op) || !rng.chance(1, 20) {
            return Some(line);
        }
        let w = self.w.as_ref()?;
        let o = &self.last;
        let sender: usize = match op {
            "collect" => 1,
            "setfees" | "toggles" => J_OWNER,
            "loan" => 3,
            _ => line.split_whitespace().nth(1).and_then(|x| x.parse().ok()).unwrap_or(0),
        };
        // the asset's own denom: mostly where the sender can hold it (native asset, accounts 0..3)
        let own = if w.kind == 0 && sender < 4 { rng.chance(1, 2) } else { rng.chance(1, 8) };
        let have = if own { o.ab.get(sender).copied().unwrap_or(0) } else { o.junk[sender] };
        let amt = match rng.below(8) {
            0 | 1 => 1,
            2 | 3 => rng.u128() % 1000 + 1,
            4 => have.max(1),
            5 => have + 1,
            _ => rng.u128() % have.max(1) + 1,
        };
        if op == "deposit" && own && w.kind == 0 && rng.chance(1, 2) {
            // part of the deposit arrives as a second coin of the asset's denom: the two add up to the amount
            let t: Vec<&str> = line.split_whitespace().collect();
            let amount: u128 = t[2].parse().unwrap_or(0);
            if amount > 1 {
                let part = amt.min(amount - 1).max(1);
                return Some(format!("deposit {} {amount} {} +0:{part}", t[1], amount - part));
            }
        }
        if op == "deposit" && !own && rng.chance(1, 3) {
            // coins of ANOTHER denom that would complete the announced amount: they must not count
            let t: Vec<&str> = line.split_whitespace().collect();
            let amount: u128 = t[2].parse().unwrap_or(0);
            if amount > 1 && rng.chance(1, 3) {
                // … or ARE the announced amount: the whole deposit paid in the other denom, nothing of the asset
                return Some(format!("deposit {} {amount} 0 +1:{amount}", t[1]));
            }
            if amount > 1 {
                let part = amt.min(amount - 1).max(1);
                return Some(format!("deposit {} {amount} {} +1:{part}", t[1], amount - part));
            }
        }
        Some(format!("{line} +{}:{amt}", if own { 0 } else { 1 }))
    }
}

impl VaultEngine {
    fn gen_op(&mut self, rng: &mut Rng, step: u64) -> Option<String> {
        if step == 0 {
            self.len = rng.range(6, 40);
            let kind = rng.below(2);
            let (p, f, b) = if rng.chance(1, 8) { (0, 0, 0) } else { rng.valid_fees() };
            let big = rng.chance(1, 4);
            let bals: Vec<String> = (0..6)
                .map(|i| {
                    if i == 4 {
                        "0".to_string()
                    } else if i == ROUTER {
                        // the router mostly starts empty, sometimes with stray funds
                        if rng.chance(1, 6) { (rng.u128() % 5000 + 1).to_string() } else { "0".to_string() }
                    } else if big {
                        (1u128 << 110).to_string()
                    } else {
                        (rng.log_uniform(70) + 5_000_000).to_string()
                    }
                })
                .collect();
            return Some(format!("init vault kind={kind} p={p} f={f} b={b} bals={} dn={}", bals.join(","), rng.below(DENOM_SETS.len() as u64)));
        }
        if step > self.len {
            return None;
        }
        let o = self.last.clone();
        let w = self.w.as_ref()?;
        let who = rng.below(4) as usize;
        let payback = |n: u128| n + fee_of(w.fees.0, n) + fee_of(w.fees.1, n) + fee_of(w.fees.2, n);
        let small = |rng: &mut Rng, cap: u128| -> u128 {
            if cap == 0 {
                0
            } else {
                match rng.below(4) {
                    0 => rng.u128() % cap + 1,
                    1 => cap,
                    2 => (rng.log_uniform(40)).min(cap),
                    _ => rng.u128() % cap.min(10_000_000) + 1,
                }
            }
        };
        let r = rng.below(100);
        if o.sup == 0 || r < 22 {
            // deposit
            let cap = o.ab[who];
            let mut amount = if o.sup == 0 { small(rng, cap).max(1001).min(cap.max(1)) } else { small(rng, cap) };
            let mut sent = amount;
            match rng.below(20) {
                0 => sent = amount.saturating_sub(1),
                1 => amount = 0,
                2 => {
                    amount = 1000;
                    sent = 1000
                }
                3 => {
                    amount = cap + 1;
                    sent = amount
                }
                _ => {}
            }
            if amount == 0 {
                sent = 0;
            }
            return Some(format!("deposit {who} {amount} {sent}"));
        }
        if r < 40 {
            let have = o.lb[who];
            let lp = match rng.below(10) {
                0 => have + 1,
                1 => 0,
                2 => have,
                3 => 1,
                _ => small(rng, have),
            };
            return Some(format!("withdraw {who} {lp}"));
        }
        if r < 47 {
            return Some("collect".into());
        }
        if r < 51 {
            let (p, f, b) = if rng.chance(1, 4) { (rng.fee_share(), rng.fee_share(), rng.fee_share()) } else { rng.valid_fees() };
            return Some(format!("setfees {p} {f} {b}"));
        }
        if r < 54 {
            let on = |rng: &mut Rng| if rng.chance(4, 5) { 1 } else { 0 };
            return Some(format!("toggles {} {} {}", on(rng), on(rng), on(rng)));
        }
        if r < 58 {
            let n = small(rng, o.ab[who]);
            return Some(format!("donate {who} {n}"));
        }
        if r < 61 {
            // stray funds for the router
            let n = match rng.below(8) {
                0 => 0,
                1 => o.ab[who] + 1,
                2 => small(rng, o.ab[who]),
                _ => rng.u128() % 3000 + 1,
            };
            return Some(format!("rfund {who} {n}"));
        }
        if r >= 97 {
            // entry points the vault must refuse: direct Withdraw {} with 0 / 1 / 2 coins, the Withdraw hook
            // from the asset token, the loan-settling callback from outside
            let amt = match rng.below(8) {
                0 => 1,
                1 => 999,
                2 => 1000,
                3 | 4 => o.lb[who].max(1),
                5 => (o.sup / (1 + rng.below(8) as u128)).max(1),
                6 => small(rng, o.ab[who]).max(1),
                _ => rng.u128() % 100_000 + 1,
            };
            return Some(match rng.below(6) {
                0..=2 => {
                    let sel = match rng.below(10) {
                        0..=3 => 0,
                        4..=7 => 1,
                        8 => 2,
                        _ => 3,
                    };
                    format!("wdirect {who} {sel} {amt}")
                }
                3 => format!("wfake {who} {}", if rng.chance(1, 6) { 0 } else { amt }),
                _ => {
                    let old = match rng.below(4) {
                        0 => 0,
                        1 => o.bal,
                        2 => o.bal.saturating_sub(small(rng, o.bal)),
                        _ => o.bal.saturating_add(1),
                    };
                    format!("xafter {who} {old} {}", if rng.chance(1, 4) { 0 } else { small(rng, o.bal) })
                }
            });
        }
        if r < 64 {
            // router calls that must be refused (or do nothing); probe the guards while the router holds funds
            if o.ab[ROUTER] == 0 && rng.chance(2, 3) {
                return Some(format!("rfund {who} {}", rng.u128() % 3000 + 1));
            }
            let have = o.ab[ROUTER];
            return Some(match rng.below(6) {
                0 | 1 => {
                    // NextLoan by a stranger: empty payload and a loan size whose payback the router can cover
                    let a = if have > 1 && rng.chance(3, 4) { rng.u128() % (have / 2) + 1 } else { 0 };
                    format!("xnext {who} {a} []{}", if rng.chance(1, 3) { " self" } else { "" })
                }
                2 => {
                    let k = if have > 0 { rng.u128() % have + 1 } else { 1 };
                    let a = if rng.chance(1, 2) { 0 } else { have.saturating_sub(k) / 2 };
                    format!("xnext {who} {a} {}{}", show_racts(&[RAct::Out(rng.below(3) as usize, k)]), if rng.chance(1, 3) { " self" } else { "" })
                }
                3 | 4 => {
                    let a = if have > 1 && rng.chance(3, 4) { rng.u128() % (have / 2) + 1 } else { 0 };
                    format!("xcomplete {who} {} {a}", rng.below(4))
                }
                _ => {
                    if rng.chance(1, 2) {
                        format!("rloan0 {who} {}", show_racts(&[RAct::Out(0, have.max(1))]))
                    } else {
                        format!("rloan2 {who} {} {} []", small(rng, o.bal), small(rng, o.bal))
                    }
                }
            });
        }
        // loan
        let n = match rng.below(10) {
            0 => o.bal,
            1 => o.bal + 1,
            2 => 0,
            _ => small(rng, o.bal),
        };
        let pb = payback(n);
        if rng.chance(1, 12) && o.bal > 10 {
            // nested-loan fee skimming: the inner loan repays itself in full; the outer repayment is
            // short by (up to) the inner loan's retained fees. Must revert (nested loans are refused).
            let n1 = (o.bal / 100).max(1);
            let n2 = o.bal - n1;
            let inner_fees = payback(n2) - n2;
            let short = match rng.below(3) {
                0 => inner_fees,
                1 => inner_fees / 2,
                _ => 0,
            };
            let cb = vec![Act::Loan(n2, vec![Act::Pay(payback(n2))]), Act::Pay(payback(n1).saturating_sub(short).max(1))];
            return Some(format!("loan {n1} {}", show_acts(&cb)));
        }
        if rng.chance(27, 100) {
            // through the vault router; one in five with coins ATTACHED to the router's FlashLoan message, mostly of
            // the loaned asset's denom: 1, small, about the fee, larger than the loan, more than the initiator holds
            let mut o2 = o.clone();
            let mut suffix = String::new();
            if rng.chance(1, 5) {
                let fee = pb - n;
                let have = o.ab[who];
                let own = if w.kind == 0 { rng.chance(3, 4) } else { rng.chance(1, 8) };
                let amt = match rng.below(9) {
                    0 => 1,
                    1 | 2 => rng.u128() % 1000 + 1,
                    3 | 4 => (fee + rng.below(3) as u128).saturating_sub(1).max(1),
                    5 | 6 => n + rng.u128() % 1000 + 1,
                    7 => (fee / 2).max(1),
                    _ => have + 1,
                };
                let amt = if own && rng.chance(9, 10) { amt.min(have.max(1)) } else { amt };
                if own {
                    if w.kind == 0 && amt <= have {
                        // the router holds them while the payload runs: aim the funding at the payback boundary
                        o2.ab[ROUTER] += amt;
                    }
                    suffix = format!(" +0:{amt}");
                } else {
                    suffix = format!(" +1:{amt}");
                }
            }
            let pl = gen_payload(rng, &o2, n, pb, 0);
            return Some(format!("rloan {who} {n} {}{suffix}", show_racts(&pl)));
        }
        let cb = gen_cb(rng, &o, n, pb, 0);
        Some(format!("loan {n} {}", show_acts(&cb)))
    }
}

/// borrower callbacks: mostly around the exact payback boundary, with re-entrancy mixed in
fn gen_cb(rng: &mut Rng, o: &Obs, n: u128, pb: u128, depth: u32) -> Vec<Act> {
    let mut acts = vec![];
    let extra = rng.below(if depth >= 2 { 2 } else { 4 });
    let mut owed = pb; // what must flow back in for the balance check, adjusted for what we take out
    for _ in 0..extra {
        match rng.below(10) {
            9 => {
                // guarded entry points from inside the callback; settling one's own loan by hand
                // (AfterTrade with made-up numbers) is then followed by what it would unlock
                match rng.below(4) {
                    0 | 1 => {
                        let (a, b) = match rng.below(4) {
                            0 => (0, 0),
                            1 => (o.bal, n),
                            2 => (o.bal.saturating_sub(n), n),
                            _ => (rng.u128() % (o.bal + 1), rng.u128() % (n + 1)),
                        };
                        acts.push(Act::Foreign(0, a, b));
                        if rng.chance(2, 3) {
                            acts.push(Act::Deposit(if rng.chance(1, 2) { n.max(1) } else { rng.u128() % 1_000_000 + 1 }));
                        }
                    }
                    2 => acts.push(Act::Foreign(1, 0, 0)),
                    _ if rng.chance(1, 2) => acts.push(Act::Foreign(3, (o.ab[ROUTER].max(n) / (1 + rng.below(4) as u128)).max(1), rng.below(3) as u128)),
                    _ => acts.push(Act::Foreign(2, 0, 0)),
                }
            }
            0 => {
                let lp = o.lb[3];
                if lp > 0 {
                    let x = rng.u128() % lp + 1;
                    acts.push(Act::Withdraw(x));
                    // the withdrawal takes assets out of the vault: estimate (upper bound) to repay
                    owed = owed.saturating_add(o.bal);
                }
            }
            1 => acts.push(Act::Collect),
            2 => acts.push(Act::Deposit(rng.u128() % 1_000_000 + 1)),
            3 => acts.push(Act::Out(rng.below(4) as usize, rng.u128() % 1000 + 1)),
            4 => {
                if rng.chance(1, 3) {
                    acts.push(Act::Fail)
                }
            }
            5 | 6 => {
                if depth < 3 {
                    let m = rng.u128() % (o.bal.saturating_sub(n) + 1) + rng.below(2) as u128;
                    let inner_pb = m + m / 50;
                    let inner = gen_cb(rng, o, m, inner_pb, depth + 1);
                    acts.push(Act::Loan(m, inner));
                }
            }
            _ => acts.push(Act::Pay(rng.u128() % 1000 + 1)),
        }
    }
    if acts.iter().any(|a| matches!(a, Act::Collect)) {
        owed = owed.saturating_add(o.pend);
    }
    let pay = match rng.below(12) {
        0 => owed.saturating_sub(1),
        1 => owed + 1,
        2 => n,
        3 => 0,
        4 => owed.saturating_add(rng.u128() % 1000),
        _ => owed,
    };
    if pay > 0 || rng.chance(1, 2) {
        let pos = if acts.is_empty() { 0 } else { rng.below(acts.len() as u64 + 1) as usize };
        acts.insert(pos, Act::Pay(pay));
    }
    acts
}

/// router payloads: mostly a single funding around the exact payback boundary (profit / exact / one
/// unit short, with and without stray router funds), otherwise mixed with sends, direct payments,
/// collections, deposits, failures, borrower-contract subtrees, early CompleteLoan, nested router loans
fn gen_payload(rng: &mut Rng, o: &Obs, n: u128, pb: u128, depth: u32) -> Vec<RAct> {
    let pre = o.ab[ROUTER];
    // what still has to reach the router so that it holds exactly the payback at CompleteLoan
    let mut need = pb.saturating_sub(n).saturating_sub(pre);
    let mut acts = vec![];
    let extra = if rng.chance(45, 100) { 0 } else { rng.range(1, if depth >= 1 { 2 } else { 3 }) };
    for _ in 0..extra {
        match rng.below(11) {
            0 | 1 => {
                let x = rng.u128() % 1000 + 1;
                acts.push(RAct::Out(rng.below(4) as usize, x));
                need = need.saturating_add(x);
            }
            2 => {
                let x = rng.u128() % 1000 + 1;
                acts.push(RAct::Pay(x));
                need = need.saturating_add(x);
            }
            3 => {
                // collecting during the loan lowers the vault's balance: pay the pending fees back in
                acts.push(RAct::Collect);
                if o.pend > 0 {
                    acts.push(RAct::Pay(o.pend));
                    need = need.saturating_add(o.pend);
                }
            }
            4 => acts.push(RAct::Deposit(rng.u128() % 1_000_000 + 1)),
            5 => {
                if rng.chance(1, 2) {
                    acts.push(RAct::Fail)
                }
            }
            6 => {
                if depth < 2 {
                    let m = rng.u128() % (o.bal.saturating_sub(n) + 1) + rng.below(2) as u128;
                    let inner = gen_payload(rng, o, m, m + m / 50, depth + 1);
                    acts.push(RAct::RLoan(m, inner));
                }
            }
            7 | 8 => {
                // the borrower contract acts during the router's loan
                let sub = match rng.below(6) {
                    0 => vec![Act::Collect, Act::Pay(o.pend.max(1))],
                    1 => vec![Act::Pay(rng.u128() % 1000 + 1)],
                    2 => {
                        let lp = o.lb[3];
                        if lp > 0 && o.sup > 0 {
                            let x = rng.u128() % lp + 1;
                            let est = (u512(o.bal) * u512(x) / u512(o.sup)).to_string().parse::<u128>().unwrap_or(u128::MAX / 4) + 1;
                            vec![Act::Withdraw(x), Act::Pay(est)]
                        } else {
                            vec![Act::Out(rng.below(3) as usize, rng.u128() % 1000 + 1)]
                        }
                    }
                    3 => vec![Act::Loan(rng.u128() % (o.bal + 1), vec![Act::Pay(1)])],
                    4 => vec![Act::Deposit(rng.u128() % 1000 + 1)],
                    _ => vec![Act::Out(rng.below(3) as usize, rng.u128() % 1000 + 1)],
                };
                acts.push(RAct::Adv(sub));
            }
            9 => acts.push(RAct::Complete(rng.below(5) as usize, rng.u128() % 1000)),
            _ => {
                let x = rng.u128() % 1000 + 1;
                acts.push(RAct::Fund(x));
                need = need.saturating_sub(x);
            }
        }
    }
    let fund = match rng.below(12) {
        0 | 1 => need.saturating_sub(1),
        2 => need + 1,
        3 => 0,
        4 | 5 => need.saturating_add(rng.u128() % 5000 + 1),
        _ => need,
    };
    if fund > 0 || rng.chance(1, 3) {
        let pos = if acts.is_empty() { 0 } else { rng.below(acts.len() as u64 + 1) as usize };
        acts.insert(pos, RAct::Fund(fund));
    }
    acts
}
