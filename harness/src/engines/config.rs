//! Engine `config` (C18): every path that writes a bounded configuration parameter, driven on the real
//! contracts with values on / just inside / just outside each bound (18-decimal granularity).
//!
//! ```text
//! init config h=<height>
//! pair_inst  via=<direct|factory> fees=p,s,b type=<cp|stable:AMP> tf=<0|1>
//! pair_upd   via=<direct|factory> i=N fees=<p,s,b|->
//! trio_inst  via=<direct|factory> fees=p,s,b amp=A tf=<0|1>
//! trio_upd   via=<direct|factory> i=N fees=<p,s,b|-> ramp=<future_a,future_block|->
//! vault_inst via=<direct|factory> fees=p,f,b asset=<plain|ibc|factory|twoslash|factorybad|ibc2|cw20> tf=<0|1> [lp=<stock|lenient>]
//!            lp=lenient: the LP-token code id handed to the vault (or configured in a second vault factory)
//!            is a cw20 that accepts ANY symbol — the code id is a deployment parameter; with the stock
//!            cw20-base a vault over a token-factory asset cannot exist (symbol `uLP-factory/` refused)
//! vault_upd  via=<direct|factory> i=N fees=<p,f,b|-> [tog=<f><d><w>, each -|0|1: switches written by the same message]
//! dist_inst  grace=G dur=D          dist_upd grace=<G|-> dur=<D|->
//! lair_inst  growth=R n=N cw20=<0|1> [via=<chain|entry>]   lair_upd growth=<R|->
//!            via=entry: the lair's entry points are called directly on mock dependencies (no chain
//!            around them): cw-multi-test 0.16 refuses responses with an empty attribute value, which
//!            hides what `instantiate` does with an empty bonding-asset list
//! coll_inst                          coll_upd take=<R|->
//! mig k=<p|t|v|d|l|c> i=N from=x.y.z  the contract's `migrate` entry point after its stored cw2 version has been
//!            set to `from` (raw storage write in the preparatory step; the current storage layout is kept): sent
//!            by the wasm admin, for factory-made pools / vaults through the factory's Migrate* message. The
//!            outcome (refused: version not lower, or an older-layout migration that cannot parse the current
//!            layout; accepted otherwise) is printed as `done` either way — what is judged is the stored Config
//! advance N
//! ```
//! Observation = outcome + canonical dump of every stored Config (`p0=… t0=… v0=… d=… l=… c=…`).
use crate::common::*;
use cosmwasm_std::testing::{mock_dependencies, mock_env, mock_info, MockApi, MockQuerier, MockStorage};
use cosmwasm_std::{Addr, Coin, Decimal, Order, OwnedDeps, Storage, Uint64};
use cw_multi_test::{App, AppBuilder, BankKeeper, ContractWrapper, Executor};
use white_whale_std::epoch_manager::epoch_manager::EpochConfig;
use white_whale_std::fee::{Fee, VaultFee};
use white_whale_std::pool_network::asset::{AssetInfo, PairInfo, PairType, TrioInfo};
use white_whale_std::pool_network::{factory as pf, pair, trio};
use white_whale_std::vault_network::{vault, vault_factory as vf};
use white_whale_std::{fee_collector as fc, fee_distributor as fd, whale_lair as wl};

const E18: u128 = 1_000_000_000_000_000_000;
const DAY: u64 = 86_400_000_000_000;
const MAX_AMP: u64 = 1_000_000;
const MAX_GRACE: u64 = 30;

fn nat(d: &str) -> AssetInfo {
    AssetInfo::NativeToken { denom: d.into() }
}
fn tok(a: &Addr) -> AssetInfo {
    AssetInfo::Token { contract_addr: a.to_string() }
}
fn fee(x: u128) -> Fee {
    Fee { share: Decimal::raw(x) }
}
fn letters(mut n: u64, len: usize) -> String {
    let mut s = vec![];
    for _ in 0..len {
        s.push(b'a' + (n % 26) as u8);
        n /= 26;
    }
    String::from_utf8(s).unwrap()
}

#[derive(Clone, Copy, PartialEq, Eq, Debug)]
enum Class {
    Plain,
    Ibc,
    Factory,
    TwoSlash,
    FactoryBad,
    Ibc2,
    Cw20,
}
impl Class {
    fn parse(s: &str) -> Option<Class> {
        Some(match s {
            "plain" => Class::Plain,
            "ibc" => Class::Ibc,
            "factory" => Class::Factory,
            "twoslash" => Class::TwoSlash,
            "factorybad" => Class::FactoryBad,
            "ibc2" => Class::Ibc2,
            "cw20" => Class::Cw20,
            _ => return None,
        })
    }
    fn name(self) -> &'static str {
        match self {
            Class::Plain => "plain",
            Class::Ibc => "ibc",
            Class::Factory => "factory",
            Class::TwoSlash => "twoslash",
            Class::FactoryBad => "factorybad",
            Class::Ibc2 => "ibc2",
            Class::Cw20 => "cw20",
        }
    }
}

type EntryDeps = OwnedDeps<MockStorage, MockApi, MockQuerier>;

fn copy_storage(s: &MockStorage) -> MockStorage {
    let mut n = MockStorage::new();
    for (k, v) in s.range(None, None, Order::Ascending) {
        n.set(&k, &v);
    }
    n
}

/// a cw20 LP-token code that accepts any symbol / name (the stock code otherwise)
fn lenient_token_instantiate(
    deps: cosmwasm_std::DepsMut,
    env: cosmwasm_std::Env,
    info: cosmwasm_std::MessageInfo,
    mut msg: white_whale_std::pool_network::token::InstantiateMsg,
) -> Result<cosmwasm_std::Response, cw20_base::ContractError> {
    msg.symbol = "uLP".into();
    msg.name = "lenient lp".into();
    terraswap_token::contract::instantiate(deps, env, info, msg)
}

struct Ids {
    token: u64,
    lenient: u64,
    pair: u64,
    trio: u64,
    vault: u64,
    dist: u64,
    lair: u64,
    coll: u64,
}

struct W {
    app: App,
    ids: Ids,
    admin: Addr,
    pfac: Addr,
    vfac: Addr,
    /// a second vault factory whose LP-token code is the lenient one
    vfac2: Addr,
    /// the lair driven at entry-point level (`lair_inst via=entry`); at most one of `lair`, `lair_entry`
    lair_entry: Option<EntryDeps>,
    /// vaults created through `vfac2`
    lenient_vaults: Vec<Addr>,
    pairs: Vec<(Addr, bool)>,
    trios: Vec<(Addr, bool)>,
    vaults: Vec<(Addr, bool, Class, String)>,
    dist: Option<Addr>,
    lair: Option<Addr>,
    coll: Option<Addr>,
    ctr: u64,
    /// assets created by the preparatory step of an op (before the judged transaction's snapshot)
    prep_token: Option<Addr>,
    prep_asset: Option<AssetInfo>,
}

type Snap = Vec<(String, Vec<Coin>, Vec<(Vec<u8>, Vec<u8>)>)>;

impl W {
    fn build(height: u64) -> W {
        let admin = Addr::unchecked("admin");
        let a2 = admin.clone();
        let mut app = AppBuilder::new().with_bank(BankKeeper::new()).build(|r, _a, s| {
            r.bank
                .init_balance(
                    s,
                    &a2,
                    ["ua", "ub", "uc", "uluna", "uusd"].iter().map(|d| Coin::new(1_000_000, *d)).collect(),
                )
                .unwrap();
        });
        app.update_block(|b| b.height = height);
        let token = app.store_code(Box::new(ContractWrapper::new(
            terraswap_token::contract::execute,
            terraswap_token::contract::instantiate,
            terraswap_token::contract::query,
        )));
        let lenient = app.store_code(Box::new(ContractWrapper::new(
            terraswap_token::contract::execute,
            lenient_token_instantiate,
            terraswap_token::contract::query,
        )));
        let pair = app.store_code(Box::new(
            ContractWrapper::new(
                terraswap_pair::contract::execute,
                terraswap_pair::contract::instantiate,
                terraswap_pair::contract::query,
            )
            .with_reply(terraswap_pair::contract::reply)
            .with_migrate(terraswap_pair::contract::migrate),
        ));
        let trio = app.store_code(Box::new(
            ContractWrapper::new(
                stableswap_3pool::contract::execute,
                stableswap_3pool::contract::instantiate,
                stableswap_3pool::contract::query,
            )
            .with_reply(stableswap_3pool::contract::reply)
            .with_migrate(stableswap_3pool::contract::migrate),
        ));
        let pfac_id = app.store_code(Box::new(
            ContractWrapper::new(
                terraswap_factory::contract::execute,
                terraswap_factory::contract::instantiate,
                terraswap_factory::contract::query,
            )
            .with_reply(terraswap_factory::contract::reply),
        ));
        let vault = app.store_code(Box::new(
            ContractWrapper::new(::vault::contract::execute, ::vault::contract::instantiate, ::vault::contract::query)
                .with_reply(::vault::reply::reply)
                .with_migrate(::vault::contract::migrate),
        ));
        let vfac_id = app.store_code(Box::new(
            ContractWrapper::new(
                vault_factory::contract::execute,
                vault_factory::contract::instantiate,
                vault_factory::contract::query,
            )
            .with_reply(vault_factory::reply::reply),
        ));
        let dist = app.store_code(Box::new(
            ContractWrapper::new(
                fee_distributor::contract::execute,
                fee_distributor::contract::instantiate,
                fee_distributor::contract::query,
            )
            .with_reply(fee_distributor::contract::reply)
            .with_migrate(fee_distributor::contract::migrate),
        ));
        let lair = app.store_code(Box::new(
            ContractWrapper::new(whale_lair::contract::execute, whale_lair::contract::instantiate, whale_lair::contract::query)
                .with_migrate(whale_lair::contract::migrate),
        ));
        let coll = app.store_code(Box::new(
            ContractWrapper::new(
                fee_collector::contract::execute,
                fee_collector::contract::instantiate,
                fee_collector::contract::query,
            )
            .with_reply(fee_collector::contract::reply)
            .with_migrate(fee_collector::contract::migrate),
        ));
        let pfac = app
            .instantiate_contract(
                pfac_id,
                admin.clone(),
                &pf::InstantiateMsg {
                    pair_code_id: pair,
                    trio_code_id: trio,
                    token_code_id: token,
                    fee_collector_addr: "collector".into(),
                },
                &[],
                "pfac",
                None,
            )
            .unwrap();
        for d in ["ua", "ub", "uluna"] {
            app.execute_contract(
                admin.clone(),
                pfac.clone(),
                &pf::ExecuteMsg::AddNativeTokenDecimals { denom: d.into(), decimals: 6 },
                &[Coin::new(1, d)],
            )
            .unwrap();
        }
        let vfac = app
            .instantiate_contract(
                vfac_id,
                admin.clone(),
                &vf::InstantiateMsg {
                    owner: admin.to_string(),
                    vault_id: vault,
                    token_id: token,
                    fee_collector_addr: "collector".into(),
                },
                &[],
                "vfac",
                None,
            )
            .unwrap();
        let vfac2 = app
            .instantiate_contract(
                vfac_id,
                admin.clone(),
                &vf::InstantiateMsg {
                    owner: admin.to_string(),
                    vault_id: vault,
                    token_id: lenient,
                    fee_collector_addr: "collector".into(),
                },
                &[],
                "vfac2",
                None,
            )
            .unwrap();
        W {
            app,
            ids: Ids { token, lenient, pair, trio, vault, dist, lair, coll },
            admin,
            pfac,
            vfac,
            vfac2,
            lair_entry: None,
            lenient_vaults: vec![],
            pairs: vec![],
            trios: vec![],
            vaults: vec![],
            dist: None,
            lair: None,
            coll: None,
            ctr: 0,
            prep_token: None,
            prep_asset: None,
        }
    }

    /// writes one item of a contract's raw storage from outside any contract (cw-multi-test keeps a contract's
    /// storage under the length-prefixed namespaces `wasm` / `contract_data/<addr>`); verified by reading it back
    fn raw_set(&mut self, addr: &Addr, key: &[u8], value: &[u8]) -> bool {
        let mut full = vec![];
        for ns in [b"wasm".as_slice(), format!("contract_data/{addr}").as_bytes()] {
            full.extend_from_slice(&(ns.len() as u16).to_be_bytes());
            full.extend_from_slice(ns);
        }
        full.extend_from_slice(key);
        self.app.init_modules(|_, _, storage| storage.set(&full, value));
        self.app.dump_wasm_raw(addr).into_iter().any(|(k, v)| k.as_slice() == key && v.as_slice() == value)
    }
    /// "deployed by release `from`": the stored cw2 version becomes `from` (name kept)
    fn set_stored_version(&mut self, addr: &Addr, from: &str) -> bool {
        let raw = match self.app.dump_wasm_raw(addr).into_iter().find(|(k, _)| k.as_slice() == b"contract_info") {
            Some((_, v)) => v,
            None => return false,
        };
        let v: serde_json::Value = match serde_json::from_slice(&raw) {
            Ok(v) => v,
            Err(_) => return false,
        };
        let name = v.get("contract").and_then(|x| x.as_str()).unwrap_or("").to_string();
        let info = serde_json::json!({ "contract": name, "version": from });
        self.raw_set(addr, b"contract_info", &serde_json::to_vec(&info).unwrap())
    }
    /// the contract a `mig` line names, and whether a factory made it
    fn mig_target(&self, ws: &[&str]) -> Option<(Addr, bool)> {
        let i: usize = kv(ws, "i").and_then(|x| x.parse().ok()).unwrap_or(0);
        match kv(ws, "k")? {
            "p" => self.pairs.get(i).map(|(a, f)| (a.clone(), *f)),
            "t" => self.trios.get(i).map(|(a, f)| (a.clone(), *f)),
            "v" => self.vaults.get(i).map(|(a, f, _, _)| (a.clone(), *f)),
            "d" => self.dist.clone().map(|a| (a, false)),
            "l" => self.lair.clone().map(|a| (a, false)),
            "c" => self.coll.clone().map(|a| (a, false)),
            _ => None,
        }
    }

    fn fresh_token(&mut self) -> Addr {
        self.ctr += 1;
        let sym = format!("T{}", letters(self.ctr, 4));
        self.app
            .instantiate_contract(
                self.ids.token,
                self.admin.clone(),
                &white_whale_std::pool_network::token::InstantiateMsg {
                    name: format!("token {sym}"),
                    symbol: sym,
                    decimals: 6,
                    initial_balances: vec![],
                    mint: None,
                },
                &[],
                "tok",
                None,
            )
            .unwrap()
    }

    /// preparatory transactions of an op: fresh cw20 tokens / denoms for factory-created contracts
    fn prepare(&mut self, ws: &[&str]) {
        self.prep_token = None;
        self.prep_asset = None;
        match ws[0] {
            "pair_inst" | "trio_inst" if kv(ws, "via") == Some("factory") => {
                let t = self.fresh_token();
                self.prep_token = Some(t);
            }
            "vault_inst" => {
                if let Some(c) = kv(ws, "asset").and_then(Class::parse) {
                    let a = self.asset_of(c);
                    self.prep_asset = Some(a);
                }
            }
            "mig" => {
                if let (Some((addr, _)), Some(from)) = (self.mig_target(ws), kv(ws, "from")) {
                    let from = from.to_string();
                    self.set_stored_version(&addr, &from);
                } else if let (Some("l"), Some(from), Some(deps)) = (kv(ws, "k"), kv(ws, "from"), self.lair_entry.as_mut()) {
                    let _ = cw2::set_contract_version(&mut deps.storage, "white_whale-whale_lair", from);
                }
            }
            _ => {}
        }
    }

    fn asset_of(&mut self, c: Class) -> AssetInfo {
        self.ctr += 1;
        let n = self.ctr;
        match c {
            Class::Plain => nat(&format!("u{}", letters(n, 5))),
            Class::Ibc => nat(&format!("ibc/{:064X}", n as u128 + (0xABCDu128 << 112))),
            // token-factory subdenoms may contain `/` and `.` (seed C18-P): same class, three spellings
            Class::Factory => nat(&match n % 3 {
                0 => format!("factory/migaloo1creatoraddress/u{}", letters(n, 5)),
                1 => format!("factory/migaloo1creatoraddress/pool/{}", letters(n, 5)),
                _ => format!("factory/migaloo1creatoraddress/u{}.v1/x", letters(n, 4)),
            }),
            Class::TwoSlash => nat(&format!("gamm/pool/{}", letters(n, 5))),
            Class::FactoryBad => nat(&format!("factory/u{}", letters(n, 5))),
            Class::Ibc2 => nat(&format!("ibc/{:063X}/x", n as u128 + (0xABCDu128 << 112))),
            Class::Cw20 => {
                let t = self.fresh_token();
                tok(&t)
            }
        }
    }

    fn snapshot(&self) -> Snap {
        let mut out: Snap = vec![];
        let mut i = 0;
        loop {
            let addr = Addr::unchecked(format!("contract{i}"));
            if self.app.contract_data(&addr).is_err() {
                break;
            }
            let mut b = self.app.wrap().query_all_balances(&addr).unwrap();
            b.sort_by(|x, y| x.denom.cmp(&y.denom));
            out.push((addr.to_string(), b, self.app.dump_wasm_raw(&addr)));
            i += 1;
        }
        out
    }

    // ---------------------------------------------------------------- canonical dump + ConfigOk on the real stored configs
    fn dump(&self, mon: &mut Monitor) -> String {
        let q = self.app.wrap();
        let mut out: Vec<String> = vec![];
        for (i, (a, _)) in self.pairs.iter().enumerate() {
            let c: pair::Config = q.query_wasm_smart(a, &pair::QueryMsg::Config {}).unwrap();
            let pi: PairInfo = q.query_wasm_smart(a, &pair::QueryMsg::Pair {}).unwrap();
            let (p, s, b) = (
                c.pool_fees.protocol_fee.share.atomics().u128(),
                c.pool_fees.swap_fee.share.atomics().u128(),
                c.pool_fees.burn_fee.share.atomics().u128(),
            );
            let amp = match pi.pair_type {
                PairType::ConstantProduct => None,
                PairType::StableSwap { amp } => Some(amp),
            };
            mon.check("C18", "config_ok_pair_fees", p < E18 && s < E18 && b < E18 && p + s + b < E18, || {
                format!("pair {a} stores fees {p},{s},{b}")
            });
            if let Some(amp) = amp {
                mon.check("C18", "config_ok_pair_amp", (1..=MAX_AMP).contains(&amp), || format!("pair {a} stores amp {amp}"));
            }
            out.push(format!("p{i}={p}/{s}/{b}/{}", amp.map(|a| a.to_string()).unwrap_or("cp".into())));
        }
        for (i, (a, _)) in self.trios.iter().enumerate() {
            let c: trio::Config = q.query_wasm_smart(a, &trio::QueryMsg::Config {}).unwrap();
            let (p, s, b) = (
                c.pool_fees.protocol_fee.share.atomics().u128(),
                c.pool_fees.swap_fee.share.atomics().u128(),
                c.pool_fees.burn_fee.share.atomics().u128(),
            );
            mon.check("C18", "config_ok_trio_fees", p < E18 && s < E18 && b < E18 && p + s + b < E18, || {
                format!("trio {a} stores fees {p},{s},{b}")
            });
            mon.check(
                "C18",
                "config_ok_trio_amp",
                (1..=MAX_AMP).contains(&c.initial_amp) && (1..=MAX_AMP).contains(&c.future_amp),
                || format!("trio {a} stores amp {} -> {}", c.initial_amp, c.future_amp),
            );
            out.push(format!(
                "t{i}={p}/{s}/{b}/{}/{}/{}/{}",
                c.initial_amp, c.future_amp, c.initial_amp_block, c.future_amp_block
            ));
        }
        for (i, (a, _, class, denom)) in self.vaults.iter().enumerate() {
            let c: vault::Config = q.query_wasm_smart(a, &vault::QueryMsg::Config {}).unwrap();
            let (p, f, b) = (
                c.fees.protocol_fee.share.atomics().u128(),
                c.fees.flash_loan_fee.share.atomics().u128(),
                c.fees.burn_fee.share.atomics().u128(),
            );
            mon.check("C18", "config_ok_vault_fees", p < E18 && f < E18 && b < E18 && p + f + b < E18, || {
                format!("vault {a} stores fees {p},{f},{b}")
            });
            // a token-factory asset is a native denom of the documented shape factory/{creator}/{subdenom}
            let tf_asset = denom.starts_with("factory/");
            mon.check("C18", "config_ok_vault_no_burn_on_factory_asset", !tf_asset || b == 0, || {
                format!("vault {a} over {denom} stores burn fee {b}")
            });
            // stronger than the property, what the code itself aims at (`has_factory_token` also classes
            // any denom with two slashes as a factory token): a stat, not a monitor
            if *class == Class::Ibc2 && b > 0 {
                mon.stat("obs_code_classed_factory_denom_stores_burn_fee");
            }
            if tf_asset {
                mon.stat("vault_over_token_factory_asset_observed");
            }
            out.push(format!("v{i}={p}/{f}/{b}"));
        }
        match &self.dist {
            Some(a) => {
                let c: fd::Config = q.query_wasm_smart(a, &fd::QueryMsg::Config {}).unwrap();
                let (g, d) = (c.grace_period.u64(), c.epoch_config.duration.u64());
                mon.check("C18", "config_ok_grace", (1..=MAX_GRACE).contains(&g), || format!("distributor stores grace {g}"));
                mon.check("C18", "config_ok_epoch_duration", d >= DAY, || format!("distributor stores duration {d}"));
                out.push(format!("d={g}/{d}"));
            }
            None => out.push("d=-".into()),
        }
        let lair_cfg: Option<wl::Config> = match (&self.lair, &self.lair_entry) {
            (Some(a), _) => Some(q.query_wasm_smart(a, &wl::QueryMsg::Config {}).unwrap()),
            (None, Some(deps)) => Some(
                cosmwasm_std::from_json(whale_lair::contract::query(deps.as_ref(), mock_env(), wl::QueryMsg::Config {}).unwrap()).unwrap(),
            ),
            (None, None) => None,
        };
        match lair_cfg {
            Some(c) => {
                let r = c.growth_rate.atomics().u128();
                let natives = c.bonding_assets.iter().filter(|x| matches!(x, AssetInfo::NativeToken { .. })).count();
                mon.check("C18", "config_ok_growth_rate", r <= E18, || format!("lair stores growth rate {r}"));
                mon.check("C18", "config_ok_bonding_assets", natives <= 2 && natives == c.bonding_assets.len(), || {
                    format!("lair stores bonding assets {:?}", c.bonding_assets)
                });
                out.push(format!("l={r}/{}", c.bonding_assets.len()));
            }
            None => out.push("l=-".into()),
        }
        match &self.coll {
            Some(a) => {
                let c: fc::Config = q.query_wasm_smart(a, &fc::QueryMsg::Config {}).unwrap();
                let t = c.take_rate.atomics().u128();
                mon.check("C18", "config_ok_take_rate", t < E18, || format!("collector stores take rate {t}"));
                out.push(format!("c={t}"));
            }
            None => out.push("c=-".into()),
        }
        out.join(" ")
    }
}

fn kv<'a>(ws: &'a [&'a str], k: &str) -> Option<&'a str> {
    ws.iter().find_map(|t| t.split_once('=').filter(|(a, _)| *a == k).map(|(_, v)| v))
}
fn triple(s: &str) -> Option<Option<(u128, u128, u128)>> {
    if s == "-" {
        return Some(None);
    }
    let v: Vec<u128> = s.split(',').map(|x| x.parse().ok()).collect::<Option<_>>()?;
    if v.len() != 3 {
        return None;
    }
    Some(Some((v[0], v[1], v[2])))
}
fn opt_u<T: std::str::FromStr>(s: &str) -> Option<Option<T>> {
    if s == "-" {
        Some(None)
    } else {
        s.parse().ok().map(Some)
    }
}
fn pfee(t: (u128, u128, u128)) -> pair::PoolFee {
    pair::PoolFee { protocol_fee: fee(t.0), swap_fee: fee(t.1), burn_fee: fee(t.2) }
}
fn tfee(t: (u128, u128, u128)) -> trio::PoolFee {
    trio::PoolFee { protocol_fee: fee(t.0), swap_fee: fee(t.1), burn_fee: fee(t.2) }
}
fn vfee(t: (u128, u128, u128)) -> VaultFee {
    VaultFee { protocol_fee: fee(t.0), flash_loan_fee: fee(t.1), burn_fee: fee(t.2) }
}

pub struct Config {
    w: Option<W>,
    len: u64,
    last_grace: Option<u64>,
    probed: bool,
}

/// One-off observation, recorded as a stat (not a monitor): the separate `epoch-manager` contract — not
/// among the property's anchors — stores whatever `EpochConfig.duration` it is given, on instantiate
/// and on update.
fn probe_epoch_manager(mon: &mut Monitor) {
    use white_whale_std::epoch_manager::epoch_manager as em;
    let admin = Addr::unchecked("admin");
    let mut app = AppBuilder::new().with_bank(BankKeeper::new()).build(|_r, _a, _s| {});
    let id = app.store_code(Box::new(ContractWrapper::new(
        epoch_manager::contract::execute,
        epoch_manager::contract::instantiate,
        epoch_manager::contract::query,
    )));
    let start = app.block_info().time.plus_seconds(10);
    let r = app.instantiate_contract(
        id,
        admin.clone(),
        &em::InstantiateMsg {
            start_epoch: em::EpochV2 { id: 0, start_time: start },
            epoch_config: EpochConfig { duration: Uint64::new(1), genesis_epoch: Uint64::new(start.nanos()) },
        },
        &[],
        "em",
        None,
    );
    match r {
        Ok(a) => {
            mon.stat("obs_epoch_manager_instantiate_accepts_duration_1ns");
            let r2 = app.execute_contract(
                admin,
                a.clone(),
                &em::ExecuteMsg::UpdateConfig {
                    owner: None,
                    epoch_config: Some(EpochConfig { duration: Uint64::new(0), genesis_epoch: Uint64::new(start.nanos()) }),
                },
                &[],
            );
            let c: em::ConfigResponse = app.wrap().query_wasm_smart(&a, &em::QueryMsg::Config {}).unwrap();
            if r2.is_ok() && c.epoch_config.duration.u64() == 0 {
                mon.stat("obs_epoch_manager_update_accepts_duration_0");
            }
        }
        Err(_) => mon.stat("obs_epoch_manager_instantiate_rejects_duration_1ns"),
    }
}

impl Config {
    pub fn new(_v: &str) -> Self {
        Config { w: None, len: 0, last_grace: None, probed: false }
    }

    /// run one op on the world; Ok(()) / Err(text)
    fn apply(w: &mut W, ws: &[&str]) -> Option<Result<(), String>> {
        let admin = w.admin.clone();
        fn ex<T, E: std::fmt::Display>(r: Result<T, E>) -> Result<(), String> {
            r.map(|_| ()).map_err(|e| format!("{e:#}"))
        }
        let via_factory = || -> Option<bool> {
            match kv(ws, "via")? {
                "direct" => Some(false),
                "factory" => Some(true),
                _ => None,
            }
        };
        Some(match ws[0] {
            "advance" => {
                let n: u64 = ws.get(1)?.parse().ok()?;
                w.app.update_block(|b| {
                    b.height += n;
                    b.time = b.time.plus_seconds(5 * n);
                });
                Ok(())
            }
            "pair_inst" => {
                let via = via_factory()?;
                let fees = triple(kv(ws, "fees")?)??;
                let ty = kv(ws, "type")?;
                let pair_type = if ty == "cp" {
                    PairType::ConstantProduct
                } else {
                    PairType::StableSwap { amp: ty.strip_prefix("stable:")?.parse().ok()? }
                };
                let tf = kv(ws, "tf")? == "1";
                if via {
                    let t = w.prep_token.take()?;
                    let infos = [nat("uluna"), tok(&t)];
                    let r = ex(w.app.execute_contract(
                        admin,
                        w.pfac.clone(),
                        &pf::ExecuteMsg::CreatePair {
                            asset_infos: infos.clone(),
                            pool_fees: pfee(fees),
                            pair_type,
                            token_factory_lp: tf,
                        },
                        &[],
                    ));
                    if r.is_ok() {
                        let pi: PairInfo =
                            w.app.wrap().query_wasm_smart(&w.pfac, &pf::QueryMsg::Pair { asset_infos: infos }).unwrap();
                        w.pairs.push((Addr::unchecked(pi.contract_addr), true));
                    }
                    r
                } else {
                    let r = w.app.instantiate_contract(
                        w.ids.pair,
                        admin,
                        &pair::InstantiateMsg {
                            asset_infos: [nat("uluna"), nat("uusd")],
                            token_code_id: w.ids.token,
                            asset_decimals: [6, 6],
                            pool_fees: pfee(fees),
                            fee_collector_addr: "collector".into(),
                            pair_type,
                            token_factory_lp: tf,
                        },
                        &[],
                        "pair",
                        Some("admin".to_string()),
                    );
                    if let Ok(a) = &r {
                        w.pairs.push((a.clone(), false));
                    }
                    ex(r)
                }
            }
            "pair_upd" => {
                let via = via_factory()?;
                let i: usize = kv(ws, "i")?.parse().ok()?;
                let fees = triple(kv(ws, "fees")?)?;
                let (addr, _) = w.pairs.get(i)?.clone();
                if via {
                    ex(w.app.execute_contract(
                        admin,
                        w.pfac.clone(),
                        &pf::ExecuteMsg::UpdatePairConfig {
                            pair_addr: addr.to_string(),
                            owner: None,
                            fee_collector_addr: None,
                            pool_fees: fees.map(pfee),
                            feature_toggle: None,
                        },
                        &[],
                    ))
                } else {
                    ex(w.app.execute_contract(
                        admin,
                        addr,
                        &pair::ExecuteMsg::UpdateConfig {
                            owner: None,
                            fee_collector_addr: None,
                            pool_fees: fees.map(pfee),
                            feature_toggle: None,
                        },
                        &[],
                    ))
                }
            }
            "trio_inst" => {
                let via = via_factory()?;
                let fees = triple(kv(ws, "fees")?)??;
                let amp: u64 = kv(ws, "amp")?.parse().ok()?;
                let tf = kv(ws, "tf")? == "1";
                if via {
                    let t = w.prep_token.take()?;
                    let infos = [nat("ua"), nat("ub"), tok(&t)];
                    let r = ex(w.app.execute_contract(
                        admin,
                        w.pfac.clone(),
                        &pf::ExecuteMsg::CreateTrio {
                            asset_infos: infos.clone(),
                            pool_fees: tfee(fees),
                            amp_factor: amp,
                            token_factory_lp: tf,
                        },
                        &[],
                    ));
                    if r.is_ok() {
                        let ti: TrioInfo =
                            w.app.wrap().query_wasm_smart(&w.pfac, &pf::QueryMsg::Trio { asset_infos: infos }).unwrap();
                        w.trios.push((Addr::unchecked(ti.contract_addr), true));
                    }
                    r
                } else {
                    let r = w.app.instantiate_contract(
                        w.ids.trio,
                        admin,
                        &trio::InstantiateMsg {
                            asset_infos: [nat("ua"), nat("ub"), nat("uc")],
                            token_code_id: w.ids.token,
                            asset_decimals: [6, 6, 6],
                            pool_fees: tfee(fees),
                            fee_collector_addr: "collector".into(),
                            amp_factor: amp,
                            token_factory_lp: tf,
                        },
                        &[],
                        "trio",
                        Some("admin".to_string()),
                    );
                    if let Ok(a) = &r {
                        w.trios.push((a.clone(), false));
                    }
                    ex(r)
                }
            }
            "trio_upd" => {
                let via = via_factory()?;
                let i: usize = kv(ws, "i")?.parse().ok()?;
                let fees = triple(kv(ws, "fees")?)?;
                let ramp = match kv(ws, "ramp")? {
                    "-" => None,
                    s => {
                        let (a, b) = s.split_once(',')?;
                        Some(trio::RampAmp { future_a: a.parse().ok()?, future_block: b.parse().ok()? })
                    }
                };
                let (addr, _) = w.trios.get(i)?.clone();
                if via {
                    ex(w.app.execute_contract(
                        admin,
                        w.pfac.clone(),
                        &pf::ExecuteMsg::UpdateTrioConfig {
                            trio_addr: addr.to_string(),
                            owner: None,
                            fee_collector_addr: None,
                            pool_fees: fees.map(tfee),
                            feature_toggle: None,
                            amp_factor: ramp,
                        },
                        &[],
                    ))
                } else {
                    ex(w.app.execute_contract(
                        admin,
                        addr,
                        &trio::ExecuteMsg::UpdateConfig {
                            owner: None,
                            fee_collector_addr: None,
                            pool_fees: fees.map(tfee),
                            feature_toggle: None,
                            amp_factor: ramp,
                        },
                        &[],
                    ))
                }
            }
            "vault_inst" => {
                let via = via_factory()?;
                let fees = triple(kv(ws, "fees")?)??;
                let class = Class::parse(kv(ws, "asset")?)?;
                let tf = kv(ws, "tf")? == "1";
                let lenient = match kv(ws, "lp") {
                    None | Some("stock") => false,
                    Some("lenient") => true,
                    _ => return None,
                };
                let (fac, token_id) = if lenient { (w.vfac2.clone(), w.ids.lenient) } else { (w.vfac.clone(), w.ids.token) };
                let asset = w.prep_asset.take()?;
                let denom = match &asset {
                    AssetInfo::NativeToken { denom } => denom.clone(),
                    AssetInfo::Token { contract_addr } => format!("cw20:{contract_addr}"),
                };
                if via {
                    let r = ex(w.app.execute_contract(
                        admin,
                        fac.clone(),
                        &vf::ExecuteMsg::CreateVault { asset_info: asset.clone(), fees: vfee(fees), token_factory_lp: tf },
                        &[],
                    ));
                    if r.is_ok() {
                        let a: Option<String> =
                            w.app.wrap().query_wasm_smart(&fac, &vf::QueryMsg::Vault { asset_info: asset }).unwrap();
                        let a = Addr::unchecked(a.unwrap());
                        if lenient {
                            w.lenient_vaults.push(a.clone());
                        }
                        w.vaults.push((a, true, class, denom));
                    }
                    r
                } else {
                    let r = w.app.instantiate_contract(
                        w.ids.vault,
                        admin.clone(),
                        &vault::InstantiateMsg {
                            owner: admin.to_string(),
                            asset_info: asset,
                            token_id,
                            vault_fees: vfee(fees),
                            fee_collector_addr: "collector".into(),
                            token_factory_lp: tf,
                        },
                        &[],
                        "vault",
                        Some("admin".to_string()),
                    );
                    if let Ok(a) = &r {
                        w.vaults.push((a.clone(), false, class, denom));
                    }
                    ex(r)
                }
            }
            "vault_upd" => {
                let via = via_factory()?;
                let i: usize = kv(ws, "i")?.parse().ok()?;
                let fees = triple(kv(ws, "fees")?)?;
                let addr = w.vaults.get(i)?.0.clone();
                // `tog=<f><d><w>` (optional; each `-` unset, `0` off, `1` on): the switches the SAME message writes next to
                // the fees (seed C18-Q: the burn-fee rule applied only while flash loans are enabled)
                let tog: Vec<Option<bool>> = match kv(ws, "tog") {
                    Some(t) if t.len() == 3 => t.chars().map(|c| match c { '0' => Some(false), '1' => Some(true), _ => None }).collect(),
                    _ => vec![None, None, None],
                };
                let params = vault::UpdateConfigParams {
                    flash_loan_enabled: tog[0],
                    deposit_enabled: tog[1],
                    withdraw_enabled: tog[2],
                    new_owner: None,
                    new_vault_fees: fees.map(vfee),
                    new_fee_collector_addr: None,
                };
                if via {
                    let fac = if w.lenient_vaults.contains(&addr) { w.vfac2.clone() } else { w.vfac.clone() };
                    ex(w.app.execute_contract(
                        admin,
                        fac,
                        &vf::ExecuteMsg::UpdateVaultConfig { vault_addr: addr.to_string(), params },
                        &[],
                    ))
                } else {
                    ex(w.app.execute_contract(admin, addr, &vault::ExecuteMsg::UpdateConfig(params), &[]))
                }
            }
            "dist_inst" => {
                let g: u64 = kv(ws, "grace")?.parse().ok()?;
                let d: u64 = kv(ws, "dur")?.parse().ok()?;
                let r = w.app.instantiate_contract(
                    w.ids.dist,
                    admin,
                    &fd::InstantiateMsg {
                        bonding_contract_addr: "lair".into(),
                        fee_collector_addr: "collector".into(),
                        grace_period: Uint64::new(g),
                        epoch_config: EpochConfig { duration: Uint64::new(d), genesis_epoch: Uint64::new(1_700_000_000_000_000_000) },
                        distribution_asset: nat("uwhale"),
                    },
                    &[],
                    "dist",
                    Some("admin".to_string()),
                );
                if let Ok(a) = &r {
                    w.dist = Some(a.clone());
                }
                ex(r)
            }
            "dist_upd" => {
                let g: Option<u64> = opt_u(kv(ws, "grace")?)?;
                let d: Option<u64> = opt_u(kv(ws, "dur")?)?;
                let addr = match &w.dist {
                    Some(a) => a.clone(),
                    None => return Some(Err("no distributor".into())),
                };
                ex(w.app.execute_contract(
                    admin,
                    addr,
                    &fd::ExecuteMsg::UpdateConfig {
                        owner: None,
                        bonding_contract_addr: None,
                        fee_collector_addr: None,
                        grace_period: g.map(Uint64::new),
                        distribution_asset: None,
                        epoch_config: d.map(|d| EpochConfig {
                            duration: Uint64::new(d),
                            genesis_epoch: Uint64::new(1_700_000_000_000_000_000),
                        }),
                    },
                    &[],
                ))
            }
            "lair_inst" => {
                let r: u128 = kv(ws, "growth")?.parse().ok()?;
                let n: usize = kv(ws, "n")?.parse().ok()?;
                let cw20 = kv(ws, "cw20")? == "1";
                let mut assets: Vec<AssetInfo> = (0..n).map(|i| nat(&format!("ubond{}", letters(i as u64, 2)))).collect();
                if cw20 && !assets.is_empty() {
                    let l = assets.len();
                    assets[l - 1] = AssetInfo::Token { contract_addr: "sometoken".into() };
                }
                let msg = wl::InstantiateMsg { unbonding_period: Uint64::new(1_000_000), growth_rate: Decimal::raw(r), bonding_assets: assets };
                match kv(ws, "via") {
                    None | Some("chain") => {
                        let res = w.app.instantiate_contract(w.ids.lair, admin, &msg, &[], "lair", Some("admin".to_string()));
                        if let Ok(a) = &res {
                            w.lair = Some(a.clone());
                            w.lair_entry = None;
                        }
                        ex(res)
                    }
                    Some("entry") => {
                        let mut deps = mock_dependencies();
                        match whale_lair::contract::instantiate(deps.as_mut(), mock_env(), mock_info("admin", &[]), msg) {
                            Ok(_) => {
                                w.lair_entry = Some(deps);
                                w.lair = None;
                                Ok(())
                            }
                            Err(e) => Err(e.to_string()),
                        }
                    }
                    _ => return None,
                }
            }
            "lair_upd" => {
                let r: Option<u128> = opt_u(kv(ws, "growth")?)?;
                let msg = wl::ExecuteMsg::UpdateConfig {
                    owner: None,
                    unbonding_period: None,
                    growth_rate: r.map(Decimal::raw),
                    fee_distributor_addr: None,
                };
                if let Some(deps) = w.lair_entry.as_mut() {
                    // no chain around the entry point: emulate the transaction's atomicity
                    let backup = copy_storage(&deps.storage);
                    return Some(match whale_lair::contract::execute(deps.as_mut(), mock_env(), mock_info("admin", &[]), msg) {
                        Ok(_) => Ok(()),
                        Err(e) => {
                            deps.storage = backup;
                            Err(e.to_string())
                        }
                    });
                }
                let addr = match &w.lair {
                    Some(a) => a.clone(),
                    None => return Some(Err("no lair".into())),
                };
                ex(w.app.execute_contract(admin, addr, &msg, &[]))
            }
            "coll_inst" => {
                let r = w.app.instantiate_contract(w.ids.coll, admin, &fc::InstantiateMsg {}, &[], "coll", Some("admin".to_string()));
                if let Ok(a) = &r {
                    w.coll = Some(a.clone());
                }
                ex(r)
            }
            "mig" => {
                let k = kv(ws, "k")?;
                kv(ws, "from")?;
                if k == "l" && w.lair.is_none() {
                    // the lair driven at entry-point level
                    let deps = match w.lair_entry.as_mut() {
                        Some(d) => d,
                        None => return Some(Err("no lair".into())),
                    };
                    let backup = copy_storage(&deps.storage);
                    return Some(match whale_lair::contract::migrate(deps.as_mut(), mock_env(), wl::MigrateMsg {}) {
                        Ok(_) => Ok(()),
                        Err(e) => {
                            deps.storage = backup;
                            Err(e.to_string())
                        }
                    });
                }
                let (addr, via) = match w.mig_target(ws) {
                    Some(x) => x,
                    None => return Some(Err("no such contract".into())),
                };
                let code = w.app.contract_data(&addr).ok()?.code_id as u64;
                if via {
                    match k {
                        "p" => ex(w.app.execute_contract(admin, w.pfac.clone(), &pf::ExecuteMsg::MigratePair { contract: addr.to_string(), code_id: Some(code) }, &[])),
                        "t" => ex(w.app.execute_contract(admin, w.pfac.clone(), &pf::ExecuteMsg::MigrateTrio { contract: addr.to_string(), code_id: Some(code) }, &[])),
                        _ => {
                            let fac = if w.lenient_vaults.contains(&addr) { w.vfac2.clone() } else { w.vfac.clone() };
                            ex(w.app.execute_contract(admin, fac, &vf::ExecuteMsg::MigrateVaults { vault_addr: Some(addr.to_string()), vault_code_id: code }, &[]))
                        }
                    }
                } else {
                    let msg = cosmwasm_std::to_json_binary(&cosmwasm_std::Empty {}).ok()?;
                    ex(w.app.execute(admin.clone(), cosmwasm_std::WasmMsg::Migrate { contract_addr: addr.to_string(), new_code_id: code, msg }.into()))
                }
            }
            "coll_upd" => {
                let t: Option<u128> = opt_u(kv(ws, "take")?)?;
                let addr = match &w.coll {
                    Some(a) => a.clone(),
                    None => return Some(Err("no collector".into())),
                };
                ex(w.app.execute_contract(
                    admin,
                    addr,
                    &fc::ExecuteMsg::UpdateConfig {
                        owner: None,
                        pool_router: None,
                        fee_distributor: None,
                        pool_factory: None,
                        vault_factory: None,
                        take_rate: t.map(Decimal::raw),
                        take_rate_dao_address: None,
                        is_take_rate_active: None,
                    },
                    &[],
                ))
            }
            _ => return None,
        })
    }

    // ---------------------------------------------------------------- value generators (boundary heavy)
    fn share(rng: &mut Rng) -> u128 {
        match rng.below(12) {
            0 | 1 => 0,
            2 => 1,
            3 => E18 - 1,
            4 => E18,
            5 => E18 + 1,
            6 => E18 / 2,
            7 => E18 / 3,
            8 => u128::MAX,
            _ => rng.fee_share() % (E18 / 20),
        }
    }
    fn fees(rng: &mut Rng) -> (u128, u128, u128) {
        match rng.below(10) {
            // sum on / just inside / just outside the bound
            0..=2 => {
                let a = rng.u128() % (E18 / 2);
                let b = rng.u128() % (E18 / 2 - 2);
                let d = [0u128, 1, 2][rng.below(3) as usize];
                let c = E18 + 1 - a - b - d; // sum = E18+1, E18, E18-1
                let mut v = [a, b, c];
                let k = rng.below(3) as usize;
                v.swap(0, k);
                (v[0], v[1], v[2])
            }
            3..=5 => rng.valid_fees(),
            6 => (0, 0, 0),
            _ => (Self::share(rng), Self::share(rng), Self::share(rng)),
        }
    }
    fn fees_str(f: (u128, u128, u128)) -> String {
        format!("{},{},{}", f.0, f.1, f.2)
    }
    fn amp(rng: &mut Rng) -> u64 {
        match rng.below(10) {
            0 => 0,
            1 => 1,
            2 => 2,
            3 => MAX_AMP - 1,
            4 => MAX_AMP,
            5 => MAX_AMP + 1,
            6 => u64::MAX,
            7 => 10_000_000,
            _ => rng.range(5, 5000),
        }
    }
}

impl Engine for Config {
    fn exec(&mut self, line: &str, mon: &mut Monitor) -> String {
        let ws: Vec<&str> = line.split_whitespace().collect();
        if ws.is_empty() {
            return "bad-op".into();
        }
        if ws[0] == "init" {
            if ws.get(1) != Some(&"config") {
                return "bad-op".into();
            }
            let Some(h) = kv(&ws, "h").and_then(|v| v.parse::<u64>().ok()) else { return "bad-op".into() };
            if !self.probed {
                self.probed = true;
                probe_epoch_manager(mon);
            }
            let w = W::build(h);
            let d = w.dump(mon);
            self.w = Some(w);
            self.last_grace = None;
            return format!("ok {d}");
        }
        let Some(w) = self.w.as_mut() else { return "bad-op".into() };
        w.prepare(&ws);
        let before_snap = w.snapshot();
        let before_dump = w.dump(&mut Monitor::default());
        let had_dist = w.dist.clone();
        let out = match guarded(|| -> Result<Option<Result<(), String>>, String> { Ok(Self::apply(w, &ws)) }) {
            Outcome::Ok(None) => return "bad-op".into(),
            Outcome::Ok(Some(Ok(()))) => "ok",
            Outcome::Ok(Some(Err(e))) => {
                let kind = if e.contains("Invalid fee") {
                    "invalid_fee"
                } else if e.to_lowercase().contains("amp") {
                    "amp"
                } else if e.contains("grace") || e.contains("Grace") {
                    "grace"
                } else if e.contains("epoch duration") || e.contains("InvalidEpochDuration") {
                    "duration"
                } else if e.contains("growth") || e.contains("Growth") {
                    "growth"
                } else if e.contains("take rate") || e.contains("TakeRate") {
                    "take_rate"
                } else if e.contains("nauthorized") {
                    "unauthorized"
                } else {
                    "other"
                };
                mon.stat(&format!("err_{}_{}", ws[0], kind));
                "err"
            }
            Outcome::Err(_) => "err",
            Outcome::Panic => {
                mon.stat(&format!("panic_{}", ws[0]));
                "panic"
            }
        };
        let dump = w.dump(mon);
        if ws[0] == "mig" {
            // ---- C18 across a migration: whatever the handler did with the stored version, every stored
            // configuration is what it was (and ConfigOk has just been evaluated on it)
            mon.stat(&format!("mig_{}_{}_from_{}", kv(&ws, "k").unwrap_or("?"), out, kv(&ws, "from").unwrap_or("?")));
            mon.check("C18", "migrate_keeps_config", dump == before_dump, || format!("`{line}` ({out}): configs {before_dump}  ->  {dump}"));
            return format!("done {dump}");
        }
        if out != "ok" {
            let after_snap = w.snapshot();
            mon.check("C18", "rejected_config_unchanged", dump == before_dump, || {
                format!("`{line}` was rejected but configs changed: {before_dump}  ->  {dump}")
            });
            mon.check("C18", "rejected_storage_unchanged", after_snap == before_snap, || {
                format!("`{line}` was rejected but raw storage / balances changed")
            });
        } else {
            mon.stat(&format!("ok_{}", ws[0]));
        }
        if ws[0] == "vault_inst" {
            mon.stat(&format!("vault_inst_{}_{}", kv(&ws, "asset").unwrap_or("?"), out));
        }
        // grace period never decreases on a given distributor
        if let (Some(a), Some(b)) = (&had_dist, &w.dist) {
            if a == b {
                let g: fd::Config = w.app.wrap().query_wasm_smart(b, &fd::QueryMsg::Config {}).unwrap();
                if let Some(prev) = self.last_grace {
                    mon.check("C18", "grace_never_decreases", g.grace_period.u64() >= prev, || {
                        format!("`{line}`: grace {} -> {}", prev, g.grace_period.u64())
                    });
                }
            }
        }
        self.last_grace = w.dist.as_ref().map(|d| {
            let g: fd::Config = w.app.wrap().query_wasm_smart(d, &fd::QueryMsg::Config {}).unwrap();
            g.grace_period.u64()
        });
        if dump.is_empty() {
            out.to_string()
        } else {
            format!("{out} {dump}")
        }
    }

    fn next_op(&mut self, rng: &mut Rng, step: u64) -> Option<String> {
        if step == 0 {
            self.len = rng.range(12, 40);
            return Some("init config h=12345".into());
        }
        if step > self.len {
            return None;
        }
        let w = self.w.as_ref()?;
        let via = |rng: &mut Rng| if rng.chance(1, 2) { "direct" } else { "factory" };
        let tf = |rng: &mut Rng| if rng.chance(1, 12) { 1 } else { 0 };
        let opt_fees = |rng: &mut Rng| if rng.chance(1, 6) { "-".to_string() } else { Self::fees_str(Self::fees(rng)) };
        let h = w.app.block_info().height;
        for _ in 0..20 {
            let line = match rng.below(19) {
                0 => {
                    let ty = if rng.chance(1, 3) { "cp".to_string() } else { format!("stable:{}", Self::amp(rng)) };
                    let f = if rng.chance(1, 2) { rng.valid_fees() } else { Self::fees(rng) };
                    format!("pair_inst via={} fees={} type={} tf={}", via(rng), Self::fees_str(f), ty, tf(rng))
                }
                1 | 2 if !w.pairs.is_empty() => {
                    let i = rng.below(w.pairs.len() as u64) as usize;
                    // mostly the path that owns the pair, sometimes the other one (must be refused)
                    let v = if rng.chance(5, 6) == w.pairs[i].1 { "factory" } else { "direct" };
                    format!("pair_upd via={} i={} fees={}", v, i, opt_fees(rng))
                }
                3 => {
                    let f = if rng.chance(1, 2) { rng.valid_fees() } else { Self::fees(rng) };
                    format!("trio_inst via={} fees={} amp={} tf={}", via(rng), Self::fees_str(f), Self::amp(rng), tf(rng))
                }
                4 | 5 | 6 if !w.trios.is_empty() => {
                    let i = rng.below(w.trios.len() as u64) as usize;
                    let v = if rng.chance(5, 6) == w.trios[i].1 { "factory" } else { "direct" };
                    let ramp = if rng.chance(1, 4) {
                        "-".to_string()
                    } else {
                        let c: trio::Config = w.app.wrap().query_wasm_smart(&w.trios[i].0, &trio::QueryMsg::Config {}).unwrap();
                        let cur = c.future_amp.max(1);
                        let fa = match rng.below(12) {
                            0 => cur * 10,
                            1 => cur * 10 + 1,
                            2 => cur / 10,
                            3 => (cur / 10).saturating_sub(1),
                            4 => cur,
                            5 => cur + 1,
                            6 => cur.saturating_sub(1),
                            7 => (cur * 10).min(MAX_AMP),
                            _ => Self::amp(rng),
                        };
                        let fb = match rng.below(6) {
                            0 => h + 9_999,
                            1 => h + 10_000,
                            2 => h + 10_001,
                            3 => h,
                            4 => 0,
                            _ => h + rng.range(10_000, 50_000),
                        };
                        format!("{fa},{fb}")
                    };
                    let f = if rng.chance(1, 2) { "-".to_string() } else { opt_fees(rng) };
                    format!("trio_upd via={} i={} fees={} ramp={}", v, i, f, ramp)
                }
                7 => {
                    let class = *rng.pick(&[
                        Class::Plain,
                        Class::Plain,
                        Class::Ibc,
                        Class::Factory,
                        Class::Factory,
                        Class::TwoSlash,
                        Class::FactoryBad,
                        Class::Ibc2,
                        Class::Ibc2,
                        Class::Cw20,
                    ]);
                    let mut f = if rng.chance(1, 2) { rng.valid_fees() } else { Self::fees(rng) };
                    if rng.chance(1, 2) {
                        f.2 = 0;
                    }
                    let lp = if rng.chance(if class == Class::Factory { 2 } else { 1 }, 4) { "lenient" } else { "stock" };
                    format!("vault_inst via={} fees={} asset={} tf={} lp={lp}", via(rng), Self::fees_str(f), class.name(), tf(rng))
                }
                8 | 9 if !w.vaults.is_empty() => {
                    let i = rng.below(w.vaults.len() as u64) as usize;
                    let v = if rng.chance(5, 6) == w.vaults[i].1 { "factory" } else { "direct" };
                    // one update in two also writes the switches (any combination), so that fee updates meet vaults
                    // with flash loans / deposits / withdrawals off and switches flipped in the same message
                    let tog = if rng.chance(1, 2) {
                        let c = |rng: &mut Rng| ["-", "0", "1", "0"][rng.below(4) as usize];
                        format!(" tog={}{}{}", c(rng), c(rng), c(rng))
                    } else {
                        String::new()
                    };
                    format!("vault_upd via={} i={} fees={}{}", v, i, opt_fees(rng), tog)
                }
                10 => {
                    let g = *rng.pick(&[0u64, 1, 2, 5, 29, 30, 31, u64::MAX, 10]);
                    let d = *rng.pick(&[DAY - 1, DAY, DAY + 1, 0, 2 * DAY, DAY, u64::MAX]);
                    format!("dist_inst grace={g} dur={d}")
                }
                11 | 12 if w.dist.is_some() => {
                    let cur = self.last_grace.unwrap_or(1);
                    let g = match rng.below(12) {
                        0 => "-".to_string(),
                        1 => cur.saturating_sub(1).to_string(),
                        2 => cur.to_string(),
                        3 => (cur + 1).to_string(),
                        4 => "0".into(),
                        5 => "1".into(),
                        6 => "29".into(),
                        7 => "30".into(),
                        8 => "31".into(),
                        9 => u64::MAX.to_string(),
                        _ => rng.range(1, 32).to_string(),
                    };
                    let d = match rng.below(8) {
                        0 => (DAY - 1).to_string(),
                        1 => DAY.to_string(),
                        2 => (DAY + 1).to_string(),
                        3 => "0".into(),
                        4 => (3 * DAY).to_string(),
                        _ => "-".to_string(),
                    };
                    format!("dist_upd grace={g} dur={d}")
                }
                13 => {
                    let r = *rng.pick(&[0u128, 1, E18 - 1, E18, E18 + 1, E18 / 10, u128::MAX, 2 * E18]);
                    let n = *rng.pick(&[0u64, 1, 2, 2, 3, 4]);
                    format!(
                        "lair_inst growth={r} n={n} cw20={} via={}",
                        if rng.chance(1, 8) { 1 } else { 0 },
                        if rng.chance(1, 2) { "entry" } else { "chain" }
                    )
                }
                14 if w.lair.is_some() || w.lair_entry.is_some() => {
                    let r = *rng.pick(&[0u128, 1, E18 - 1, E18, E18 + 1, E18 / 10, u128::MAX, 2 * E18]);
                    format!("lair_upd growth={}", if rng.chance(1, 8) { "-".to_string() } else { r.to_string() })
                }
                15 => {
                    if w.coll.is_none() || rng.chance(1, 6) {
                        "coll_inst".to_string()
                    } else {
                        let t = *rng.pick(&[0u128, 1, E18 - 1, E18, E18 + 1, E18 / 10, u128::MAX, E18 / 2]);
                        format!("coll_upd take={}", if rng.chance(1, 8) { "-".to_string() } else { t.to_string() })
                    }
                }
                16 => format!("advance {}", *rng.pick(&[1u64, 10, 5_000, 10_000, 25_000])),
                17 | 18 => {
                    // a migration of one of the deployed contracts, "from" releases on both sides of every
                    // version threshold the handlers test, the current one and a later one (refused)
                    let mut ks: Vec<(&str, usize)> = vec![];
                    for i in 0..w.pairs.len() {
                        ks.push(("p", i));
                    }
                    for i in 0..w.trios.len() {
                        ks.push(("t", i));
                    }
                    for i in 0..w.vaults.len() {
                        ks.push(("v", i));
                    }
                    if w.dist.is_some() {
                        ks.push(("d", 0));
                    }
                    if w.lair.is_some() || w.lair_entry.is_some() {
                        ks.push(("l", 0));
                    }
                    if w.coll.is_some() {
                        ks.push(("c", 0));
                    }
                    if ks.is_empty() {
                        continue;
                    }
                    let (k, i) = *rng.pick(&ks);
                    let from = *rng.pick(&["0.8.0", "0.9.0", "0.9.1", "1.0.4", "1.0.5", "1.1.0", "1.1.3", "1.1.4", "1.2.0", "1.2.1", "1.3.0", "1.0.0", "99.0.0"]);
                    format!("mig k={k} i={i} from={from}")
                }
                _ => continue,
            };
            return Some(line);
        }
        Some("advance 1".into())
    }
}

/// Completeness of the write-path enumeration, enforced at compile time (wildcard-free matches): every
/// `ExecuteMsg` variant of the contracts holding a bounded parameter is mapped to the op that drives it,
/// or to the reason it cannot write one.  A new variant stops the harness from compiling.
#[allow(dead_code)]
pub mod completeness {
    use super::*;
    pub fn pair(m: &pair::ExecuteMsg) -> &'static str {
        match m {
            pair::ExecuteMsg::UpdateConfig { .. } => "pair_upd via=direct",
            pair::ExecuteMsg::Receive(_)
            | pair::ExecuteMsg::ProvideLiquidity { .. }
            | pair::ExecuteMsg::WithdrawLiquidity {}
            | pair::ExecuteMsg::Swap { .. }
            | pair::ExecuteMsg::CollectProtocolFees {} => "does not write Config",
        }
    }
    pub fn trio(m: &trio::ExecuteMsg) -> &'static str {
        match m {
            trio::ExecuteMsg::UpdateConfig { .. } => "trio_upd via=direct",
            trio::ExecuteMsg::Receive(_)
            | trio::ExecuteMsg::ProvideLiquidity { .. }
            | trio::ExecuteMsg::WithdrawLiquidity {}
            | trio::ExecuteMsg::Swap { .. }
            | trio::ExecuteMsg::CollectProtocolFees {} => "does not write Config",
        }
    }
    pub fn pool_factory(m: &pf::ExecuteMsg) -> &'static str {
        match m {
            pf::ExecuteMsg::CreatePair { .. } => "pair_inst via=factory",
            pf::ExecuteMsg::CreateTrio { .. } => "trio_inst via=factory",
            pf::ExecuteMsg::UpdatePairConfig { .. } => "pair_upd via=factory",
            pf::ExecuteMsg::UpdateTrioConfig { .. } => "trio_upd via=factory",
            pf::ExecuteMsg::UpdateConfig { .. }
            | pf::ExecuteMsg::AddNativeTokenDecimals { .. }
            | pf::ExecuteMsg::MigratePair { .. }
            | pf::ExecuteMsg::MigrateTrio { .. }
            | pf::ExecuteMsg::RemovePair { .. }
            | pf::ExecuteMsg::RemoveTrio { .. } => "no bounded parameter (migrations are not modelled)",
        }
    }
    pub fn vault(m: &vault::ExecuteMsg) -> &'static str {
        match m {
            vault::ExecuteMsg::UpdateConfig(_) => "vault_upd via=direct",
            vault::ExecuteMsg::Deposit { .. }
            | vault::ExecuteMsg::Withdraw {}
            | vault::ExecuteMsg::FlashLoan { .. }
            | vault::ExecuteMsg::CollectProtocolFees {}
            | vault::ExecuteMsg::Receive(_)
            | vault::ExecuteMsg::Callback(_) => "does not write Config",
        }
    }
    pub fn vault_factory(m: &vf::ExecuteMsg) -> &'static str {
        match m {
            vf::ExecuteMsg::CreateVault { .. } => "vault_inst via=factory",
            vf::ExecuteMsg::UpdateVaultConfig { .. } => "vault_upd via=factory",
            vf::ExecuteMsg::MigrateVaults { .. } | vf::ExecuteMsg::RemoveVault { .. } | vf::ExecuteMsg::UpdateConfig { .. } => {
                "no bounded parameter (migrations are not modelled)"
            }
        }
    }
    pub fn distributor(m: &fd::ExecuteMsg) -> &'static str {
        match m {
            fd::ExecuteMsg::UpdateConfig { .. } => "dist_upd",
            fd::ExecuteMsg::NewEpoch {} | fd::ExecuteMsg::Claim {} => "does not write Config",
        }
    }
    pub fn lair(m: &wl::ExecuteMsg) -> &'static str {
        match m {
            wl::ExecuteMsg::UpdateConfig { .. } => "lair_upd",
            wl::ExecuteMsg::Bond { .. } | wl::ExecuteMsg::Unbond { .. } | wl::ExecuteMsg::Withdraw { .. } => {
                "does not write Config"
            }
        }
    }
    pub fn collector(m: &fc::ExecuteMsg) -> &'static str {
        match m {
            fc::ExecuteMsg::UpdateConfig { .. } => "coll_upd",
            fc::ExecuteMsg::CollectFees { .. } | fc::ExecuteMsg::AggregateFees { .. } | fc::ExecuteMsg::ForwardFees { .. } => {
                "does not write Config"
            }
        }
    }
}
