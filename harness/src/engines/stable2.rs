//! Engine `stable2` (C03): the two-asset stableswap code of `terraswap_pair`.
//!  * pure calls through the cfg(wwcore_verif) hook: `compute_swap` (StableSwap arm),
//!    `calculate_stableswap_y`, `compute_d`, `compute_lp_mint_amount_for_stableswap_deposit`;
//!  * contract-level histories of provide / swap / withdraw on a real StableSwap pair in cw-multi-test;
//!  * property monitors (tagged "C03") that use an INDEPENDENT exact solver of the invariant
//!    polynomial (module `oracle` below) as a TEST ORACLE. The oracle is not part of any proof.
use crate::common::*;
use cosmwasm_std::{coin, to_json_binary, Addr, Decimal, Decimal256, Uint128, Uint256, Uint512};
use cw_multi_test::{App, AppBuilder, BankKeeper, ContractWrapper, Executor};
use std::str::FromStr;
use terraswap_pair::verif_hooks::{
    calculate_stableswap_y, compute_d, compute_lp_mint_amount_for_stableswap_deposit, compute_swap,
    StableSwapDirection, SwapComputation,
};
use white_whale_std::fee::Fee;
use white_whale_std::pool_network::asset::{Asset, AssetInfo, PairInfo, PairType};
use white_whale_std::pool_network::pair as p;
use white_whale_std::pool_network::pair::PoolFee;

const E18: u128 = 1_000_000_000_000_000_000;
/// the decimal pairs of the property's quantifier
const DEC_PAIRS: [(u8, u8); 6] = [(6, 6), (6, 8), (8, 6), (6, 18), (18, 6), (4, 5)];
/// rounding dust allowed by the monitors, in base units (see each monitor)
const DUST_K: u128 = 3;

// ------------------------------------------------------------------------------------------------
// TEST ORACLE: exact integer solver of the stableswap invariant (n = 2)
//     Ann·(x + y) + D = Ann·D + D³ / (4·x·y),        Ann = amp · n   (what the code's solvers aim at)
// on decimal-normalised reserves (18 decimals), in 512-bit integers (operands ≤ 2^149, intermediate
// products ≤ 2^470, i.e. ≈ 140 significant digits; every product is overflow-checked and a case that
// does not fit is skipped and counted). Used only to judge the real code's outputs.
// ------------------------------------------------------------------------------------------------
pub mod oracle {
    use cosmwasm_std::Uint512;
    pub type B = Uint512;
    pub fn b(x: u128) -> B {
        Uint512::from(x)
    }
    fn mul(a: B, c: B) -> Option<B> {
        a.checked_mul(c).ok()
    }
    fn add(a: B, c: B) -> Option<B> {
        a.checked_add(c).ok()
    }
    /// D³ + 4xy(Ann−1)·D ≤ 4xy·Ann·(x+y)   ⇔   f(D) ≤ 0   (f strictly increasing for D ≥ 0)
    fn d_pred(x: B, y: B, ann: B, d: B) -> Option<bool> {
        let xy4 = mul(mul(x, y)?, b(4))?;
        let lhs = add(mul(mul(d, d)?, d)?, mul(mul(xy4, ann - b(1))?, d)?)?;
        let rhs = mul(mul(xy4, ann)?, add(x, y)?)?;
        Some(lhs <= rhs)
    }
    /// ⌊D*⌋ for the exact root D* of the invariant at reserves (x, y) > 0; ann ≥ 1
    pub fn exact_d_floor(x: B, y: B, ann: u128) -> Option<B> {
        if x.is_zero() || y.is_zero() || ann == 0 {
            return None;
        }
        let ann = b(ann);
        let mut lo = B::zero(); // pred(lo) true
        let mut hi = add(add(x, y)?, b(1))?; // D* ≤ x + y  (AM-GM), so pred(hi) is false
        if d_pred(x, y, ann, hi)? {
            return None;
        }
        while hi - lo > b(1) {
            let mid = (lo + hi) >> 1;
            if d_pred(x, y, ann, mid)? {
                lo = mid;
            } else {
                hi = mid;
            }
        }
        Some(lo)
    }
    /// 4x'Ann·Y² + 4x'(Ann·x' + D)·Y ≤ D³ + 4x'·Ann·D·Y   ⇔   h(Y) ≤ 0
    fn y_pred(xp: B, d: B, ann: B, y: B) -> Option<bool> {
        let x4 = mul(xp, b(4))?;
        let lhs = add(mul(mul(mul(x4, ann)?, y)?, y)?, mul(mul(x4, add(mul(ann, xp)?, d)?)?, y)?)?;
        let rhs = add(mul(mul(d, d)?, d)?, mul(mul(mul(x4, ann)?, d)?, y)?)?;
        Some(lhs <= rhs)
    }
    /// ⌊Y*⌋ for the positive root Y* of the invariant in Y at fixed D and other reserve x' > 0
    pub fn exact_y_floor(xp: B, d: B, ann: u128) -> Option<B> {
        if xp.is_zero() || ann == 0 {
            return None;
        }
        let ann = b(ann);
        let mut lo = B::zero();
        let mut hi = add(d, b(1))?;
        let mut guard = 0;
        while y_pred(xp, d, ann, hi)? {
            lo = hi;
            hi = mul(hi, b(2))?;
            guard += 1;
            if guard > 400 {
                return None;
            }
        }
        while hi - lo > b(1) {
            let mid = (lo + hi) >> 1;
            if y_pred(xp, d, ann, mid)? {
                lo = mid;
            } else {
                hi = mid;
            }
        }
        Some(lo)
    }
    pub fn pow10(k: u32) -> B {
        b(10u128.pow(k))
    }
    /// raw base units -> 18-decimal normalised integer
    pub fn norm(raw: u128, dec: u8) -> Option<B> {
        if dec > 18 {
            return None;
        }
        mul(b(raw), pow10(18 - dec as u32))
    }
}
use oracle::{b, exact_d_floor, exact_y_floor, norm, pow10, B};

pub fn pool_fee(p: u128, s: u128, bf: u128) -> PoolFee {
    PoolFee {
        protocol_fee: Fee { share: Decimal::raw(p) },
        swap_fee: Fee { share: Decimal::raw(s) },
        burn_fee: Fee { share: Decimal::raw(bf) },
    }
}
fn fees_valid(p: u128, s: u128, bf: u128) -> bool {
    p < E18 && s < E18 && bf < E18 && p + s + bf < E18
}
fn in_dec_set(d0: u8, d1: u8) -> bool {
    DEC_PAIRS.contains(&(d0, d1))
}
fn whole(dec: u8) -> u128 {
    10u128.pow(dec as u32)
}

fn run_swap(a: &[u128]) -> Outcome<SwapComputation> {
    // a = op ap off p s b amp offPrec askPrec
    guarded(|| {
        compute_swap(
            Uint128::new(a[0]),
            Uint128::new(a[1]),
            Uint128::new(a[2]),
            pool_fee(a[3], a[4], a[5]),
            &PairType::StableSwap { amp: a[6] as u64 },
            a[7] as u8,
            a[8] as u8,
        )
    })
}
fn show_comp(c: &SwapComputation) -> String {
    format!(
        "{} {} {} {} {}",
        c.return_amount, c.spread_amount, c.swap_fee_amount, c.protocol_fee_amount, c.burn_fee_amount
    )
}
fn show_out<T>(o: &Outcome<T>, f: impl Fn(&T) -> String) -> String {
    match o {
        Outcome::Ok(c) => {
            let s = f(c);
            if s.is_empty() {
                "ok".into()
            } else {
                format!("ok {s}")
            }
        }
        Outcome::Err(_) => "err".into(),
        Outcome::Panic => "panic".into(),
    }
}

/// smallest k in 0..=8 such that the code's new ask reserve `y_code` (ask base units) is not below
/// the exact curve point by more than k base units "scaled by the local slope":
///     y_code·U  ≥  Y*(D* − k·U, x')  − k·U          U = one ask base unit, normalised
/// None = oracle not applicable (overflow / outside domain)
fn curve_slack_k(op: u128, ap: u128, off: u128, amp: u128, od: u8, ad: u8, y_code: u128) -> Option<u32> {
    let x = norm(op, od)?;
    let y = norm(ap, ad)?;
    let dx = norm(off, od)?;
    let u = pow10(18 - ad as u32);
    let ann = amp.checked_mul(2)?;
    let d = exact_d_floor(x, y, ann)?;
    let xp = x.checked_add(dx).ok()?;
    let yc = b(y_code).checked_mul(u).ok()?;
    for k in 0..=8u32 {
        let ku = u.checked_mul(b(k as u128)).ok()?;
        let dk = if d > ku { d - ku } else { B::zero() };
        let ystar = exact_y_floor(xp, dk, ann)?;
        let bound = if ystar > ku { ystar - ku } else { B::zero() };
        if yc >= bound {
            return Some(k);
        }
    }
    Some(99)
}


/// TEST ORACLE: rounding dust for statements about the invariant D at normalised reserves (x, y):
/// one base unit of either asset valued at the curve's local slope, plus one unit of D itself:
///     unit + (D*(x + u0, y) − D*(x, y)) + (D*(x, y + u1) − D*(x, y))
/// (`u0`, `u1` = one base unit of asset 0 / 1 in normalised atomics, `unit` = the larger of the two)
fn d_dust_unit(x: B, y: B, ann: u128, u0: B, u1: B) -> Option<B> {
    let d = exact_d_floor(x, y, ann)?;
    let dx = exact_d_floor(x.checked_add(u0).ok()?, y, ann)?;
    let dy = exact_d_floor(x, y.checked_add(u1).ok()?, ann)?;
    let unit = if u0 > u1 { u0 } else { u1 };
    let sx = if dx > d { dx - d } else { B::zero() };
    let sy = if dy > d { dy - d } else { B::zero() };
    unit.checked_add(sx).ok()?.checked_add(sy).ok()
}
/// smallest k in 0..=8 with  d_after·s_keep_num + k·dust·s_den ≥ d_before·s_den ... generic form:
///     lhs + k·dust·scale ≥ rhs ; 99 if none
fn need_k(lhs: B, rhs: B, dust: B, scale: B) -> u32 {
    for k in 0..=8u32 {
        if lhs + dust * scale * b(k as u128) >= rhs {
            return k;
        }
    }
    99
}

/// C03 on one real `compute_swap` (StableSwap) outcome
fn monitor_swap(mon: &mut Monitor, a: &[u128], out: &Outcome<SwapComputation>) {
    let (op, ap, off, pf, sf, bf, amp) = (a[0], a[1], a[2], a[3], a[4], a[5], a[6]);
    if a[7] > 255 || a[8] > 255 {
        return;
    }
    let (od, ad) = (a[7] as u8, a[8] as u8);
    let in_q = in_dec_set(od, ad)
        && (1..=1_000_000).contains(&amp)
        && fees_valid(pf, sf, bf)
        && op >= whole(od)
        && ap >= whole(ad)
        && off >= 1
        && op < (1u128 << 100)
        && ap < (1u128 << 100)
        && off < (1u128 << 100);
    if !in_q {
        mon.stat("swap_outside_quantifier");
        return;
    }
    mon.stat("swap_in_quantifier");
    let desc = || format!("ss_swap {:?} -> {}", a, show_out(out, show_comp));
    mon.check("C03", "swap_never_panics", !matches!(out, Outcome::Panic), desc);
    let c = match out {
        Outcome::Ok(c) => c,
        _ => {
            mon.stat("swap_in_quantifier_not_ok");
            return;
        }
    };
    let (ret, sfa, pfa, bfa) = (
        c.return_amount.u128(),
        c.swap_fee_amount.u128(),
        c.protocol_fee_amount.u128(),
        c.burn_fee_amount.u128(),
    );
    let gross = ret.saturating_add(sfa).saturating_add(pfa).saturating_add(bfa);
    // y as the real y-solver returns it for the same inputs
    let dec = |v: u128, pr: u8| Decimal256::from_atomics(Uint256::from(v), pr as u32);
    if let (Ok(opd), Ok(apd), Ok(offd)) = (dec(op, od), dec(ap, ad), dec(off, od)) {
        let y = guarded(|| calculate_stableswap_y(opd, apd, offd, &(amp as u64), ad, StableSwapDirection::Simulate));
        if let Outcome::Ok(y) = y {
            mon.check("C03", "ss_fee_split_gross", y.u128() <= ap && gross == ap - y.u128(), desc);
        }
    }
    let fee = |sh: u128| (Uint512::from(gross) * Uint512::from(sh) / Uint512::from(E18)).to_string();
    mon.check(
        "C03",
        "ss_fee_split_shares",
        sfa.to_string() == fee(sf) && pfa.to_string() == fee(pf) && bfa.to_string() == fee(bf),
        desc,
    );
    mon.check("C03", "ss_le_reserve", gross <= ap && ret <= ap, desc);
    if ret > 0 {
        mon.stat("swap_nonzero_return");
    }
    // curve point (TEST ORACLE)
    match ap.checked_sub(gross).and_then(|yc| curve_slack_k(op, ap, off, amp, od, ad, yc)) {
        None => mon.stat("swap_oracle_skipped"),
        Some(k) => {
            mon.stat(&format!("swap_curve_dust_k_{k}"));
            mon.check("C03", "swap_not_below_curve", (k as u128) <= DUST_K, || {
                format!("{} : ask reserve after swap below exact curve point by more than {} units·slope (needed k={})", desc(), DUST_K, k)
            });
        }
    }
    // monotonicity in the offer: consecutive offers and a larger one
    for delta in [1u128, 2, 1 + (off / 1000)] {
        let mut a2 = a.to_vec();
        a2[2] = match off.checked_add(delta) {
            Some(v) => v,
            None => continue,
        };
        if let Outcome::Ok(c2) = run_swap(&a2) {
            let r2 = c2.return_amount.u128();
            let g2 = r2
                .saturating_add(c2.swap_fee_amount.u128())
                .saturating_add(c2.protocol_fee_amount.u128())
                .saturating_add(c2.burn_fee_amount.u128());
            mon.check("C03", "swap_gross_monotone_in_offer", g2 >= gross, || {
                format!("{} ; offer+{} -> {}", desc(), delta, show_comp(&c2))
            });
            // the three fees are floored separately, so proceeds = gross − Σ⌊share·gross⌋ can step
            // down by up to 2 base units while the gross output grows: tagged apart from anything else
            let tag = if g2 >= gross && ret <= r2 + 2 { "fee_floor_dust" } else { "" };
            mon.check_tag("C03", "swap_monotone_in_offer", tag, r2 >= ret, || {
                format!("{} ; offer+{} -> {}", desc(), delta, show_comp(&c2))
            });
        }
    }
}


/// C03 on one real `compute_lp_mint_amount_for_stableswap_deposit` outcome (raw amounts, i.e. the
/// equal-decimals reading: D on raw amounts is the normalised D up to the common scale)
fn monitor_lp_mint(mon: &mut Monitor, a: &[u128], out: &Outcome<Option<Uint128>>) {
    let (amp, da, db, sa, sb, sup) = (a[0], a[1], a[2], a[3], a[4], a[5]);
    let lim = 1u128 << 100;
    let in_q = (1..=1_000_000).contains(&amp) && sa >= 1_000_000 && sb >= 1_000_000 && sa < lim && sb < lim && da < lim && db < lim && sup >= 1;
    if !in_q {
        mon.stat("lp_outside_quantifier");
        return;
    }
    mon.stat("lp_in_quantifier");
    let desc = || format!("ss_lp_mint {:?} -> {}", a, show_out(out, |m| format!("{m:?}")));
    let m = match out {
        Outcome::Ok(Some(m)) => m.u128(),
        Outcome::Ok(None) => {
            mon.stat("lp_none");
            return;
        }
        _ => {
            mon.stat("lp_in_quantifier_panic_or_err");
            return;
        }
    };
    let ampu = amp as u64;
    // the code's own D values
    let d0 = guarded(|| Ok::<_, ()>(compute_d(&ampu, Uint128::new(sa), Uint128::new(sb))));
    let d1 = guarded(|| Ok::<_, ()>(compute_d(&ampu, Uint128::new(sa + da), Uint128::new(sb + db))));
    if let (Outcome::Ok(Some(d0)), Outcome::Ok(Some(d1))) = (d0, d1) {
        let ok = d1 > d0 && b(m) * d0 <= b(sup) * (d1 - d0);
        mon.check("C03", "lp_mint_le_code_d", ok, desc);
    }
    // exact invariant per LP (TEST ORACLE): the holders of the S existing LP tokens own
    // D1*·S/(S+m) afterwards and D0* before; they may lose at most DUST_K dust units:
    //     D1*·S + k·dust·(S+m) ≥ D0*·(S+m)
    let ann = amp * 2;
    match (exact_d_floor(b(sa), b(sb), ann), exact_d_floor(b(sa + da), b(sb + db), ann), d_dust_unit(b(sa), b(sb), ann, b(1), b(1))) {
        (Some(e0), Some(e1), Some(dust)) => {
            let s1 = b(sup) + b(m);
            let need = need_k((e1 + b(1)) * b(sup), e0 * s1, dust, s1);
            mon.stat(&format!("lp_invariant_dust_k_{need}"));
            mon.check_tag("C03", "invariant_per_lp_on_deposit", "equal_decimals", (need as u128) <= DUST_K, || {
                format!("{} : exact D {} -> {} ; existing holders' invariant falls by more than {}·dust (dust unit {}, needed k={})", desc(), e0, e1, DUST_K, dust, need)
            });
        }
        _ => mon.stat("lp_oracle_skipped"),
    }
}

// ------------------------------------------------------------------------------------------------
// contract-level histories
// ------------------------------------------------------------------------------------------------
#[derive(Clone, Debug, Default, PartialEq)]
struct Snap {
    r0: u128,
    r1: u128,
    pf0: u128,
    pf1: u128,
    sup: u128,
    lp_pair: u128,
    users: [(u128, u128, u128); 3],
}
impl Snap {
    fn show(&self) -> String {
        let mut s = format!(
            "r0={} r1={} pf0={} pf1={} sup={} lpPair={}",
            self.r0, self.r1, self.pf0, self.pf1, self.sup, self.lp_pair
        );
        for (i, u) in self.users.iter().enumerate() {
            s += &format!(" u{i}a={} u{i}b={} u{i}lp={}", u.0, u.1, u.2);
        }
        s
    }
}

#[derive(Clone, Copy, Debug)]
struct Cfg {
    amp: u64,
    d0: u8,
    d1: u8,
    p: u128,
    s: u128,
    b: u128,
    /// asset kinds in the pool's own order: true = native coin, false = cw20 token (`k0=` / `k1=` on the init
    /// line; the model does not look at kinds: a pool must behave the same whatever its assets are)
    k: [bool; 2],
}

struct Pool {
    app: App,
    pair: Addr,
    lp: Addr,
    cfg: Cfg,
    tokens: [Option<Addr>; 2],
}
const DEN: [&str; 2] = ["ua", "ub"];

fn nat(d: &str) -> AssetInfo {
    AssetInfo::NativeToken { denom: d.into() }
}
fn user(i: usize) -> Addr {
    Addr::unchecked(format!("user{i}"))
}

impl Pool {
    fn new(cfg: Cfg, bal_a: u128, bal_b: u128) -> Option<Pool> {
        let mut app = AppBuilder::new().with_bank(BankKeeper::new()).build(|router, _api, storage| {
            for i in 0..3 {
                router
                    .bank
                    .init_balance(storage, &user(i), vec![coin(bal_a, "ua"), coin(bal_b, "ub")])
                    .unwrap();
            }
        });
        let pair_id = app.store_code(Box::new(
            ContractWrapper::new(
                terraswap_pair::contract::execute,
                terraswap_pair::contract::instantiate,
                terraswap_pair::contract::query,
            )
            .with_reply(terraswap_pair::contract::reply),
        ));
        let token_id = app.store_code(Box::new(ContractWrapper::new(
            terraswap_token::contract::execute,
            terraswap_token::contract::instantiate,
            terraswap_token::contract::query,
        )));
        let admin = Addr::unchecked("admin");
        let mut tokens: [Option<Addr>; 2] = [None, None];
        let bals = [bal_a, bal_b];
        for k in 0..2 {
            if !cfg.k[k] {
                let t = app
                    .instantiate_contract(
                        token_id,
                        admin.clone(),
                        &white_whale_std::pool_network::token::InstantiateMsg {
                            name: format!("token{k}"),
                            symbol: format!("TOK{}", ["A", "B"][k]),
                            decimals: if k == 0 { cfg.d0 } else { cfg.d1 },
                            initial_balances: (0..3).map(|i| cw20::Cw20Coin { address: user(i).to_string(), amount: bals[k].into() }).collect(),
                            mint: None,
                        },
                        &[],
                        format!("token{k}"),
                        None,
                    )
                    .ok()?;
                tokens[k] = Some(t);
            }
        }
        let ai = |k: usize| match &tokens[k] {
            Some(t) => AssetInfo::Token { contract_addr: t.to_string() },
            None => nat(DEN[k]),
        };
        let pair = app
            .instantiate_contract(
                pair_id,
                admin,
                &p::InstantiateMsg {
                    asset_infos: [ai(0), ai(1)],
                    token_code_id: token_id,
                    asset_decimals: [cfg.d0, cfg.d1],
                    pool_fees: pool_fee(cfg.p, cfg.s, cfg.b),
                    fee_collector_addr: "collector".into(),
                    pair_type: PairType::StableSwap { amp: cfg.amp },
                    token_factory_lp: false,
                },
                &[],
                "pair",
                None,
            )
            .ok()?;
        let info: PairInfo = app.wrap().query_wasm_smart(&pair, &p::QueryMsg::Pair {}).ok()?;
        let lp = match info.liquidity_token {
            AssetInfo::Token { contract_addr } => Addr::unchecked(contract_addr),
            _ => return None,
        };
        // every user lets the pair pull its cw20 tokens (what a frontend does before ProvideLiquidity)
        for k in 0..2 {
            if let Some(t) = &tokens[k] {
                for i in 0..3 {
                    app.execute_contract(
                        user(i),
                        t.clone(),
                        &cw20::Cw20ExecuteMsg::IncreaseAllowance { spender: pair.to_string(), amount: Uint128::MAX, expires: None },
                        &[],
                    )
                    .ok()?;
                }
            }
        }
        Some(Pool { app, pair, lp, cfg, tokens })
    }

    fn ai(&self, k: usize) -> AssetInfo {
        match &self.tokens[k] {
            Some(t) => AssetInfo::Token { contract_addr: t.to_string() },
            None => nat(DEN[k]),
        }
    }
    fn asset_bal(&self, who: &Addr, k: usize) -> u128 {
        match &self.tokens[k] {
            Some(t) => {
                let r: cw20::BalanceResponse =
                    self.app.wrap().query_wasm_smart(t, &cw20::Cw20QueryMsg::Balance { address: who.to_string() }).unwrap();
                r.balance.u128()
            }
            None => self.app.wrap().query_balance(who, DEN[k]).unwrap().amount.u128(),
        }
    }

    fn lp_bal(&self, who: &Addr) -> u128 {
        let r: cw20::BalanceResponse = self
            .app
            .wrap()
            .query_wasm_smart(&self.lp, &cw20::Cw20QueryMsg::Balance { address: who.to_string() })
            .unwrap();
        r.balance.u128()
    }

    /// public observables only: Pool and ProtocolFees queries, LP and bank balances
    fn snap_raw(&self) -> Snap {
        let pool: p::PoolResponse = self.app.wrap().query_wasm_smart(&self.pair, &p::QueryMsg::Pool {}).unwrap();
        let fees: p::ProtocolFeesResponse = self
            .app
            .wrap()
            .query_wasm_smart(&self.pair, &p::QueryMsg::ProtocolFees { asset_id: None, all_time: None })
            .unwrap();
        let amt = |v: &Vec<Asset>, k: usize| v.iter().find(|a| a.info == self.ai(k)).map(|a| a.amount.u128()).unwrap_or(0);
        let mut users = [(0, 0, 0); 3];
        for (i, u) in users.iter_mut().enumerate() {
            let w = user(i);
            *u = (self.asset_bal(&w, 0), self.asset_bal(&w, 1), self.lp_bal(&w));
        }
        Snap {
            r0: amt(&pool.assets, 0),
            r1: amt(&pool.assets, 1),
            pf0: amt(&fees.fees, 0),
            pf1: amt(&fees.fees, 1),
            sup: pool.total_share.u128(),
            lp_pair: self.lp_bal(&self.pair),
            users,
        }
    }

    /// `None` when one of the public queries fails or panics (e.g. `Pool` underflows)
    fn snap(&self) -> Option<Snap> {
        match guarded(|| Ok::<_, ()>(self.snap_raw())) {
            Outcome::Ok(s) => Some(s),
            _ => None,
        }
    }

    fn simulate(&self, dir: u128, off: u128) -> Option<p::SimulationResponse> {
        let pair = self.pair.clone();
        let q = p::QueryMsg::Simulation { offer_asset: Asset { info: self.ai(if dir == 0 { 0 } else { 1 }), amount: off.into() } };
        match guarded(|| self.app.wrap().query_wasm_smart::<p::SimulationResponse>(&pair, &q)) {
            Outcome::Ok(r) => Some(r),
            _ => None,
        }
    }

    fn provide(&mut self, u: usize, a: u128, bq: u128) -> Outcome<()> {
        let (pair, who) = (self.pair.clone(), user(u));
        let (i0, i1) = (self.ai(0), self.ai(1));
        // native legs travel as funds (a zero coin too, as before: the bank refuses it); cw20 legs are pulled
        // by the pair with TransferFrom AFTER it has computed the shares
        let mut funds = vec![];
        if self.cfg.k[0] {
            funds.push(coin(a, "ua"));
        }
        if self.cfg.k[1] {
            funds.push(coin(bq, "ub"));
        }
        let app = &mut self.app;
        guarded(move || {
            app.execute_contract(
                who,
                pair,
                &p::ExecuteMsg::ProvideLiquidity {
                    // the order in which the caller lists the assets must not matter: reverse it for a
                    // deterministic half of the deposits
                    assets: if (a ^ bq) & 1 == 1 {
                        [Asset { info: i1, amount: bq.into() }, Asset { info: i0, amount: a.into() }]
                    } else {
                        [Asset { info: i0, amount: a.into() }, Asset { info: i1, amount: bq.into() }]
                    },
                    slippage_tolerance: None,
                    receiver: None,
                },
                &funds,
            )
            .map(|_| ())
        })
    }
    fn swap(&mut self, u: usize, dir: u128, off: u128) -> Outcome<()> {
        let (pair, who) = (self.pair.clone(), user(u));
        let k = if dir == 0 { 0 } else { 1 };
        let d = DEN[k];
        if let Some(t) = self.tokens[k].clone() {
            // a cw20 offer arrives through the token's Send hook
            let app = &mut self.app;
            return guarded(move || {
                app.execute_contract(
                    who,
                    t,
                    &cw20::Cw20ExecuteMsg::Send {
                        contract: pair.to_string(),
                        amount: off.into(),
                        msg: to_json_binary(&p::Cw20HookMsg::Swap { belief_price: None, max_spread: Some(Decimal::percent(50)), to: None }).unwrap(),
                    },
                    &[],
                )
                .map(|_| ())
            });
        }
        let app = &mut self.app;
        guarded(move || {
            app.execute_contract(
                who,
                pair,
                &p::ExecuteMsg::Swap {
                    offer_asset: Asset { info: nat(d), amount: off.into() },
                    belief_price: None,
                    max_spread: Some(Decimal::percent(50)),
                    to: None,
                },
                &[coin(off, d)],
            )
            .map(|_| ())
        })
    }
    fn collect(&mut self, u: usize) -> Outcome<()> {
        let (pair, who) = (self.pair.clone(), user(u));
        let app = &mut self.app;
        guarded(move || app.execute_contract(who, pair, &p::ExecuteMsg::CollectProtocolFees {}, &[]).map(|_| ()))
    }
    fn withdraw(&mut self, u: usize, amt: u128) -> Outcome<()> {
        let (pair, lp, who) = (self.pair.clone(), self.lp.clone(), user(u));
        let app = &mut self.app;
        guarded(move || {
            app.execute_contract(
                who,
                lp,
                &cw20::Cw20ExecuteMsg::Send {
                    contract: pair.to_string(),
                    amount: amt.into(),
                    msg: to_json_binary(&p::Cw20HookMsg::WithdrawLiquidity {}).unwrap(),
                },
                &[],
            )
            .map(|_| ())
        })
    }
}

/// ⌊D*⌋ of the exact invariant on the decimal-normalised reported reserves (TEST ORACLE)
fn exact_d_norm(cfg: &Cfg, r0: u128, r1: u128) -> Option<B> {
    exact_d_floor(norm(r0, cfg.d0)?, norm(r1, cfg.d1)?, (cfg.amp as u128).checked_mul(2)?)
}

#[derive(Default)]
pub struct Stable2 {
    hist: bool,
    n: u64,
    pool: Option<Pool>,
    last: Snap,
    /// (user, snapshot before the provide, minted LP) of the immediately preceding successful provide
    just_provided: Option<(usize, Snap, u128)>,
    /// generator: the case's plan
    plan_len: u64,
    probe: bool,
    known_reported: u64,
}

impl Stable2 {
    pub fn new(variant: &str) -> Self {
        Stable2 { hist: variant == "hist", ..Default::default() }
    }

    fn decimals_tag(cfg: &Cfg) -> &'static str {
        if cfg.d0 != cfg.d1 {
            "unequal_decimals"
        } else {
            "equal_decimals"
        }
    }

    /// report a tagged failure; failures carrying the known-finding tag are capped so that they can
    /// never crowd anything else out of the report
    fn check_tagged(&mut self, mon: &mut Monitor, monitor: &str, tag: &str, ok: bool, what: impl FnOnce() -> String) {
        if !ok && tag == "unequal_decimals" {
            self.known_reported += 1;
            if self.known_reported > 12 {
                mon.stat(&format!("{monitor}_unequal_decimals_failures_not_listed"));
                return;
            }
        }
        mon.check_tag("C03", monitor, tag, ok, what);
    }

    /// invariant per LP token must not fall: D_after·S_before + dust·S_after ≥ D_before·S_after
    fn monitor_invariant_per_lp(&mut self, mon: &mut Monitor, cfg: &Cfg, monitor: &str, before: &Snap, after: &Snap, line: &str) {
        if before.sup == 0 || after.sup == 0 {
            return;
        }
        if before.r0 < whole(cfg.d0) || before.r1 < whole(cfg.d1) || !in_dec_set(cfg.d0, cfg.d1) {
            mon.stat("hist_lp_outside_quantifier");
            return;
        }
        let (e0, e1) = match (exact_d_norm(cfg, before.r0, before.r1), exact_d_norm(cfg, after.r0, after.r1)) {
            (Some(a), Some(c)) => (a, c),
            _ => {
                mon.stat("hist_lp_oracle_skipped");
                return;
            }
        };
        // holders of the min(S0, S1) tokens that exist before and after must not lose more than
        // DUST_K dust units of invariant:  D1·S0 + k·dust·max(S0,S1) ≥ D0·S1
        let dust = match (norm(before.r0, cfg.d0), norm(before.r1, cfg.d1)) {
            (Some(x), Some(y)) => d_dust_unit(x, y, cfg.amp as u128 * 2, pow10(18 - cfg.d0 as u32), pow10(18 - cfg.d1 as u32)),
            _ => None,
        };
        let dust = match dust {
            Some(d) => d,
            None => {
                mon.stat("hist_lp_oracle_skipped");
                return;
            }
        };
        let smax = b(before.sup.max(after.sup));
        let need = need_k((e1 + b(1)) * b(before.sup), e0 * b(after.sup), dust, smax);
        mon.stat(&format!("hist_{monitor}_{}_dust_k_{need}", Self::decimals_tag(cfg)));
        let ok = (need as u128) <= DUST_K;
        let tag = Self::decimals_tag(cfg);
        self.check_tagged(mon, monitor, tag, ok, || {
            format!(
                "{line}: exact D (normalised) {e0} -> {e1}, LP supply {} -> {}: invariant per LP token fell (cfg {:?})",
                before.sup, after.sup, cfg
            )
        });
    }

    fn exec_hist_op(&mut self, ws: &[&str], mon: &mut Monitor) -> String {
        let line = ws.join(" ");
        if ws.len() < 4 || self.pool.is_none() {
            return "bad-op".into();
        }
        let u = match ws[2] {
            "u0" => 0usize,
            "u1" => 1,
            "u2" => 2,
            _ => return "bad-op".into(),
        };
        let args = match parse_u128s(&ws[4..]) {
            Some(a) => a,
            None => return "bad-op".into(),
        };
        let before = self.last.clone();
        let cfg = self.pool.as_ref().unwrap().cfg;
        let prev_provide = self.just_provided.take();
        let out;
        match (ws[3], args.len()) {
            ("provide", 2) => {
                out = self.pool.as_mut().unwrap().provide(u, args[0], args[1]);
                let after = match self.pool.as_ref().unwrap().snap() {
                    Some(a) => a,
                    None => {
                        mon.check("C03", "pool_queries_answer", false, || format!("{line}: Pool / ProtocolFees / balance query failed after the operation"));
                        return "query-failed".into();
                    }
                };
                if let Outcome::Ok(_) = out {
                    mon.stat("hist_provide_ok");
                    let minted = after.users[u].2.saturating_sub(before.users[u].2);
                    if before.sup > 0 {
                        self.monitor_invariant_per_lp(mon, &cfg, "invariant_per_lp_on_deposit", &before, &after, &line);
                        self.just_provided = Some((u, before.clone(), minted));
                    }
                }
                self.last = after;
            }
            ("swap", 2) if args[0] <= 1 => {
                let (dir, off) = (args[0], args[1]);
                let sim = self.pool.as_ref().unwrap().simulate(dir, off);
                let sim1 = off.checked_add(1).and_then(|o| self.pool.as_ref().unwrap().simulate(dir, o));
                out = self.pool.as_mut().unwrap().swap(u, dir, off);
                let after = match self.pool.as_ref().unwrap().snap() {
                    Some(a) => a,
                    None => {
                        mon.check("C03", "pool_queries_answer", false, || format!("{line}: Pool / ProtocolFees / balance query failed after the operation"));
                        return "query-failed".into();
                    }
                };
                if let Outcome::Ok(_) = out {
                    mon.stat("hist_swap_ok");
                    let (od, ad) = if dir == 0 { (cfg.d0, cfg.d1) } else { (cfg.d1, cfg.d0) };
                    let (ro, ra, ra_after, pf_b, pf_a) = if dir == 0 {
                        (before.r0, before.r1, after.r1, before.pf1, after.pf1)
                    } else {
                        (before.r1, before.r0, after.r0, before.pf0, after.pf0)
                    };
                    let got = if dir == 0 { after.users[u].1.saturating_sub(before.users[u].1) } else { after.users[u].0.saturating_sub(before.users[u].0) };
                    let in_q = ro >= whole(od) && ra >= whole(ad) && in_dec_set(cfg.d0, cfg.d1);
                    let desc = || format!("{line}: reserves {ro}/{ra} -> ask {ra_after}, trader got {got} (cfg {:?})", cfg);
                    if in_q {
                        mon.check("C03", "ss_le_reserve", got <= ra, desc);
                        if let Some(s) = &sim {
                            let pfd = pf_a.saturating_sub(pf_b);
                            let burn = ra.checked_sub(ra_after).and_then(|d| d.checked_sub(got.saturating_add(pfd)));
                            let sim_ok = got == s.return_amount.u128()
                                && pfd == s.protocol_fee_amount.u128()
                                && burn == Some(s.burn_fee_amount.u128());
                            mon.check("C03", "hist_swap_matches_simulation", sim_ok, desc);
                            // the same fact is the two-asset stableswap clause of C14 (quotes are honest)
                            mon.check("C14", "ss_pair_sim_eq_exec", sim_ok, desc);
                            let gross = got.saturating_add(s.swap_fee_amount.u128()).saturating_add(pfd).saturating_add(s.burn_fee_amount.u128());
                            if gross <= ra {
                                match curve_slack_k(ro, ra, off, cfg.amp as u128, od, ad, ra - gross) {
                                    None => mon.stat("hist_swap_oracle_skipped"),
                                    Some(k) => {
                                        mon.stat(&format!("hist_swap_curve_dust_k_{k}"));
                                        mon.check("C03", "swap_not_below_curve", (k as u128) <= DUST_K, || {
                                            format!("{} : below the exact curve point by more than {} units·slope (needed k={})", desc(), DUST_K, k)
                                        });
                                    }
                                }
                            }
                            if let Some(s1) = &sim1 {
                                let g = |r: &p::SimulationResponse| {
                                    r.return_amount.u128().saturating_add(r.swap_fee_amount.u128()).saturating_add(r.protocol_fee_amount.u128()).saturating_add(r.burn_fee_amount.u128())
                                };
                                mon.check("C03", "swap_gross_monotone_in_offer", g(s1) >= g(s), || {
                                    format!("{} ; simulate(offer) gross {} , simulate(offer+1) gross {}", desc(), g(s), g(s1))
                                });
                                let tag = if g(s1) >= g(s) && s.return_amount.u128() <= s1.return_amount.u128() + 2 { "fee_floor_dust" } else { "" };
                                mon.check_tag("C03", "swap_monotone_in_offer", tag, s1.return_amount >= s.return_amount, || {
                                    format!("{} ; simulate(offer) = {} , simulate(offer+1) = {}", desc(), s.return_amount, s1.return_amount)
                                });
                            }
                        }
                    } else {
                        mon.stat("hist_swap_outside_quantifier");
                    }
                }
                self.last = after;
            }
            ("collect", 0) => {
                // permissionless; pending entries above the collectable minimum go to the collector. From
                // here on the pending and the all-time ledgers differ.
                out = self.pool.as_mut().unwrap().collect(u);
                let after = match self.pool.as_ref().unwrap().snap() {
                    Some(a) => a,
                    None => {
                        mon.check("C03", "pool_queries_answer", false, || format!("{line}: Pool / ProtocolFees / balance query failed after the operation"));
                        return "query-failed".into();
                    }
                };
                if let Outcome::Ok(_) = out {
                    mon.stat("hist_collect_ok");
                    if after != before {
                        mon.stat("hist_collect_moved_fees");
                    }
                    // a collection takes nothing from the holders: reported reserves, supply and users as they were
                    mon.check(
                        "C03",
                        "collect_leaves_reserves",
                        after.r0 == before.r0 && after.r1 == before.r1 && after.sup == before.sup && after.users == before.users,
                        || format!("{line}: reserves ({},{}) -> ({},{}), supply {} -> {}", before.r0, before.r1, after.r0, after.r1, before.sup, after.sup),
                    );
                }
                self.last = after;
            }
            ("withdraw", 1) => {
                out = self.pool.as_mut().unwrap().withdraw(u, args[0]);
                let after = match self.pool.as_ref().unwrap().snap() {
                    Some(a) => a,
                    None => {
                        mon.check("C03", "pool_queries_answer", false, || format!("{line}: Pool / ProtocolFees / balance query failed after the operation"));
                        return "query-failed".into();
                    }
                };
                if let Outcome::Ok(_) = out {
                    mon.stat("hist_withdraw_ok");
                    if after.sup > 0 {
                        // the withdrawing user must not take invariant from the remaining holders
                        // (evaluate on the post-withdrawal quantifier: after reserves may be small)
                        if after.r0 >= whole(cfg.d0) && after.r1 >= whole(cfg.d1) {
                            self.monitor_invariant_per_lp(mon, &cfg, "invariant_per_lp_on_withdraw", &before, &after, &line);
                        }
                    }
                    if let Some((pu, b0, minted)) = prev_provide {
                        if pu == u && minted == args[0] && after.sup == b0.sup {
                            mon.stat("hist_deposit_then_withdraw_pairs");
                            let in_q = b0.r0 >= whole(cfg.d0) && b0.r1 >= whole(cfg.d1) && in_dec_set(cfg.d0, cfg.d1);
                            if in_q {
                                if let (Some(e0), Some(e2)) = (exact_d_norm(&cfg, b0.r0, b0.r1), exact_d_norm(&cfg, after.r0, after.r1)) {
                                    let dust = d_dust_unit(
                                        norm(b0.r0, cfg.d0).unwrap(),
                                        norm(b0.r1, cfg.d1).unwrap(),
                                        cfg.amp as u128 * 2,
                                        pow10(18 - cfg.d0 as u32),
                                        pow10(18 - cfg.d1 as u32),
                                    )
                                    .unwrap_or(b(1));
                                    let need = need_k(e2 + b(1), e0, dust, b(1));
                                    mon.stat(&format!("hist_dtw_{}_dust_k_{need}", Self::decimals_tag(&cfg)));
                                    let ok = (need as u128) <= DUST_K;
                                    let da = after.users[u].0 as i128 - b0.users[u].0 as i128;
                                    let db = after.users[u].1 as i128 - b0.users[u].1 as i128;
                                    let tag = Self::decimals_tag(&cfg);
                                    self.check_tagged(mon, "deposit_then_withdraw_value", tag, ok, || {
                                        format!(
                                            "{line}: deposit then withdrawal of the {minted} LP it minted moved the pool's exact invariant (normalised) {e0} -> {e2} at unchanged LP supply {}; depositor's net: {da:+} base units of A, {db:+} base units of B (cfg {:?})",
                                            b0.sup, cfg
                                        )
                                    });
                                } else {
                                    mon.stat("hist_dtw_oracle_skipped");
                                }
                            }
                        }
                    }
                }
                self.last = after;
            }
            _ => return "bad-op".into(),
        }
        let head = match out {
            Outcome::Ok(_) => "ok",
            Outcome::Err(_) => "err",
            Outcome::Panic => "panic",
        };
        if head != "ok" {
            mon.check("C03", "failed_op_leaves_state", self.last == before, || format!("{line}: state changed by a failed operation"));
            mon.stat(&format!("hist_{}_{}", ws[3], head));
        }
        format!("{head} {}", self.last.show())
    }

    fn exec_init(&mut self, ws: &[&str]) -> String {
        self.pool = None;
        self.just_provided = None;
        let mut kv = std::collections::BTreeMap::new();
        for w in &ws[2..] {
            if let Some((k, v)) = w.split_once('=') {
                kv.insert(k.to_string(), v.to_string());
            }
        }
        let g = |k: &str| kv.get(k).and_then(|v| v.parse::<u128>().ok());
        let (amp, d0, d1, pp, s, bb, ba, bbal) = match (g("amp"), g("d0"), g("d1"), g("p"), g("s"), g("b"), g("balA"), g("balB")) {
            (Some(a), Some(c), Some(d), Some(e), Some(f), Some(h), Some(i), Some(j)) => (a, c, d, e, f, h, i, j),
            _ => return "bad-op".into(),
        };
        if amp > u64::MAX as u128 || d0 > 255 || d1 > 255 {
            return "bad-op".into();
        }
        // `k0=` / `k1=`: n (native, default) or c (cw20)
        let kind = |k: &str| match kv.get(k).map(|v| v.as_str()) {
            None | Some("n") => Some(true),
            Some("c") => Some(false),
            _ => None,
        };
        let (k0, k1) = match (kind("k0"), kind("k1")) {
            (Some(a), Some(c)) => (a, c),
            _ => return "bad-op".into(),
        };
        let cfg = Cfg { amp: amp as u64, d0: d0 as u8, d1: d1 as u8, p: pp, s, b: bb, k: [k0, k1] };
        match Pool::new(cfg, ba, bbal) {
            Some(pl) => {
                self.last = match pl.snap() {
                    Some(a) => a,
                    None => return "query-failed".into(),
                };
                self.pool = Some(pl);
                format!("ok {}", self.last.show())
            }
            None => "err".into(),
        }
    }

    fn exec_call(&mut self, ws: &[&str], mon: &mut Monitor) -> String {
        match ws[1] {
            "ss_swap" => {
                let a = match parse_u128s(&ws[2..]) {
                    Some(a) if a.len() == 9 && a[6] <= u64::MAX as u128 && a[7] <= 255 && a[8] <= 255 => a,
                    _ => return "bad-op".into(),
                };
                let out = run_swap(&a);
                monitor_swap(mon, &a, &out);
                mon.stat(&format!("swap_decimals_{}_{}", a[7], a[8]));
                show_out(&out, show_comp)
            }
            "ss_y" => {
                if ws.len() != 8 {
                    return "bad-op".into();
                }
                let big: Option<Vec<Uint256>> = ws[2..5].iter().map(|w| Uint256::from_str(w).ok()).collect();
                let small = parse_u128s(&ws[5..]);
                let (big, small) = match (big, small) {
                    (Some(bv), Some(sv)) if sv[0] <= u64::MAX as u128 && sv[1] <= 255 => (bv, sv),
                    _ => return "bad-op".into(),
                };
                let dir = if small[2] == 0 { StableSwapDirection::Simulate } else { StableSwapDirection::ReverseSimulate };
                let out = guarded(|| {
                    calculate_stableswap_y(
                        Decimal256::new(big[0]),
                        Decimal256::new(big[1]),
                        Decimal256::new(big[2]),
                        &(small[0] as u64),
                        small[1] as u8,
                        dir,
                    )
                });
                show_out(&out, |y| y.to_string())
            }
            "ss_d" => {
                let a = match parse_u128s(&ws[2..]) {
                    Some(a) if a.len() == 3 && a[0] <= u64::MAX as u128 => a,
                    _ => return "bad-op".into(),
                };
                let amp = a[0] as u64;
                let out = guarded(|| compute_d(&amp, Uint128::new(a[1]), Uint128::new(a[2])).ok_or(()));
                if let Outcome::Ok(d) = &out {
                    // d-solver sanity against the exact root (TEST ORACLE), raw amounts
                    if a[1] >= 1_000_000 && a[2] >= 1_000_000 && a[1] < (1 << 100) && a[2] < (1 << 100) && (1..=1_000_000).contains(&a[0]) {
                        if let (Some(e), Some(dust)) = (exact_d_floor(b(a[1]), b(a[2]), a[0] * 2), d_dust_unit(b(a[1]), b(a[2]), a[0] * 2, b(1), b(1))) {
                            let need = if *d >= e { need_k(e, *d, dust, b(1)) } else { need_k(*d + b(1), e, dust, b(1)) };
                            mon.stat(&format!("compute_d_vs_exact_dust_k_{need}"));
                            mon.check("C03", "compute_d_close_to_exact_root", (need as u128) <= DUST_K, || {
                                format!("ss_d {:?} -> {} but exact root floor {} (dust unit {})", a, d, e, dust)
                            });
                        }
                    }
                }
                show_out(&out, |d| d.to_string())
            }
            "ss_lp_mint" => {
                let a = match parse_u128s(&ws[2..]) {
                    Some(a) if a.len() == 6 && a[0] <= u64::MAX as u128 => a,
                    _ => return "bad-op".into(),
                };
                let amp = a[0] as u64;
                let out = guarded(|| {
                    Ok::<_, ()>(compute_lp_mint_amount_for_stableswap_deposit(
                        &amp,
                        Uint128::new(a[1]),
                        Uint128::new(a[2]),
                        Uint128::new(a[3]),
                        Uint128::new(a[4]),
                        Uint128::new(a[5]),
                    ))
                });
                monitor_lp_mint(mon, &a, &out);
                show_out(&out, |m| match m {
                    Some(v) => v.to_string(),
                    None => "none".into(),
                })
            }
            _ => "bad-op".into(),
        }
    }

    // ------------------------------------------------------------------ generators
    fn gen_amp(rng: &mut Rng) -> u128 {
        match rng.below(10) {
            0 => 1,
            1 => 2,
            2 => 1_000_000,
            3 => 999_999,
            4 => 100,
            5 => *rng.pick(&[10u128, 50, 85, 200, 1000, 5000]),
            _ => rng.log_uniform(20).min(1_000_000),
        }
    }
    fn gen_decs(rng: &mut Rng) -> (u8, u8) {
        *rng.pick(&DEC_PAIRS)
    }
    fn gen_fees(rng: &mut Rng) -> (u128, u128, u128) {
        if rng.chance(1, 5) {
            (0, 0, 0)
        } else {
            rng.valid_fees()
        }
    }
    /// raw reserve of an asset with `dec` decimals: at least one whole token, below 2^100
    fn gen_reserve(rng: &mut Rng, dec: u8) -> u128 {
        let w = whole(dec);
        let lim = (1u128 << 100) - 1;
        match rng.below(6) {
            0 => w,
            1 => w + rng.below(1000) as u128,
            2 => lim - rng.below(3) as u128,
            _ => {
                // whole tokens log-uniform, plus a random fraction
                let max_whole_bits = 100 - (dec as u32 * 3322 / 1000) - 1;
                let wt = rng.log_uniform(max_whole_bits.max(2));
                (wt.saturating_mul(w).saturating_add(rng.u128() % w)).min(lim)
            }
        }
    }
    /// value `v` of an asset with decimals `from`, expressed in an asset with decimals `to`
    fn rescale(v: u128, from: u8, to: u8) -> u128 {
        if to >= from {
            v.saturating_mul(10u128.pow((to - from) as u32))
        } else {
            v / 10u128.pow((from - to) as u32)
        }
    }

    fn gen_pure(&mut self, rng: &mut Rng) -> String {
        let lim = (1u128 << 100) - 1;
        match rng.below(20) {
            0..=11 => {
                // ss_swap
                let (od, ad) = if rng.chance(1, 40) { *rng.pick(&[(18u8, 18u8), (0, 6), (6, 0), (19, 6), (6, 19), (12, 30)]) } else { Self::gen_decs(rng) };
                let amp = if rng.chance(1, 50) { *rng.pick(&[0u128, 1_000_001, u64::MAX as u128, (u64::MAX / 2) as u128 + 1]) } else { Self::gen_amp(rng) };
                let (op, ap) = match rng.below(8) {
                    0..=3 => {
                        // balanced-ish in value: ask = offer reserve rescaled times a ratio in [1/4, 4]
                        let op = Self::gen_reserve(rng, od.min(30));
                        let base = Self::rescale(op, od, ad);
                        let ap = match rng.below(4) {
                            0 => base,
                            1 => base / (1 + rng.below(4) as u128),
                            2 => base.saturating_mul(1 + rng.below(4) as u128),
                            _ => (base / 100).saturating_mul(50 + rng.below(150) as u128),
                        };
                        (op, ap.clamp(1, lim))
                    }
                    4 | 5 => (Self::gen_reserve(rng, od.min(30)), Self::gen_reserve(rng, ad.min(30))),
                    6 => (rng.log_uniform(100), rng.log_uniform(100)),
                    _ => (rng.amount(128), rng.amount(128)),
                };
                let off = match rng.below(8) {
                    0 => 1,
                    1 => op / (1 + rng.below(1000) as u128),
                    2 => op.saturating_mul(1 + rng.below(10) as u128).min(lim),
                    3 => rng.amount(100),
                    4 => whole(od.min(30)).saturating_mul(rng.log_uniform(20)).min(lim),
                    _ => rng.log_uniform(100),
                };
                let (pf, sf, bf) = if rng.chance(1, 25) { (rng.fee_share(), rng.fee_share(), rng.fee_share()) } else { Self::gen_fees(rng) };
                format!("call ss_swap {op} {ap} {off} {pf} {sf} {bf} {amp} {od} {ad}")
            }
            12 | 13 => {
                // ss_y on Decimal256 atomics
                let (od, ad) = Self::gen_decs(rng);
                let amp = if rng.chance(1, 50) { 0 } else { Self::gen_amp(rng) };
                let opr = Self::gen_reserve(rng, od);
                let apr = if rng.chance(2, 3) { Self::rescale(opr, od, ad).clamp(1, lim) } else { Self::gen_reserve(rng, ad) };
                let offr = if rng.chance(1, 2) { opr / (1 + rng.below(100) as u128) } else { rng.log_uniform(100) };
                let n = |v: u128, d: u8| Uint256::from(v) * Uint256::from(10u128.pow(18 - d as u32));
                let jitter = |rng: &mut Rng| if rng.chance(1, 4) { Uint256::from(rng.below(1_000_000_000_000)) } else { Uint256::zero() };
                let (o, a, f) = if rng.chance(1, 60) {
                    // near the top of the type
                    (Uint256::MAX - Uint256::from(rng.below(5)), Uint256::from(rng.u128()), Uint256::from(rng.u128()))
                } else {
                    (n(opr, od) + jitter(rng), n(apr, ad) + jitter(rng), n(offr, od) + jitter(rng))
                };
                let dir = if rng.chance(1, 4) { 1 } else { 0 };
                format!("call ss_y {o} {a} {f} {amp} {ad} {dir}")
            }
            14 | 15 => {
                let amp = if rng.chance(1, 30) { *rng.pick(&[0u128, u64::MAX as u128, (u64::MAX / 2) as u128 + 1, (u64::MAX / 2) as u128]) } else { Self::gen_amp(rng) };
                let (a, bq) = match rng.below(8) {
                    0 => (rng.amount(128), rng.amount(128)),
                    1 => (0, rng.amount(100)),
                    2 => (rng.log_uniform(100), rng.log_uniform(100)),
                    3 => (rng.log_uniform(40), rng.log_uniform(100)),
                    _ => {
                        let a = rng.log_uniform(100).max(1_000_000);
                        (a, (a / 100 * (50 + rng.below(150) as u128)).max(1_000_000))
                    }
                };
                format!("call ss_d {amp} {a} {bq}")
            }
            _ => {
                let amp = if rng.chance(1, 40) { *rng.pick(&[0u128, u64::MAX as u128]) } else { Self::gen_amp(rng) };
                let (sa, sb) = match rng.below(6) {
                    0 => (rng.amount(128), rng.amount(128)),
                    1 => (rng.log_uniform(100).max(1_000_000), rng.log_uniform(100).max(1_000_000)),
                    _ => {
                        let a = rng.log_uniform(100).max(1_000_000);
                        (a, (a / 100 * (25 + rng.below(300) as u128)).clamp(1_000_000, lim))
                    }
                };
                let (da, db) = match rng.below(6) {
                    0 => (rng.amount(100), rng.amount(100)),
                    1 => (1, sb / (1 + rng.below(10) as u128)),
                    2 => (sa / (1 + rng.below(10) as u128), 1),
                    3 => (rng.below(5) as u128, rng.below(5) as u128),
                    _ => (sa / (1 + rng.below(1000) as u128), sb / (1 + rng.below(1000) as u128)),
                };
                let sup = match rng.below(4) {
                    0 => rng.amount(128),
                    1 => rng.log_uniform(100),
                    _ => (sa / 2).saturating_add(sb / 2).max(1),
                };
                format!("call ss_lp_mint {amp} {da} {db} {sa} {sb} {sup}")
            }
        }
    }

    /// the design-phase probe p11 (known finding C03-lp-mint-raw-decimals) as a history
    pub fn probe_history() -> Vec<String> {
        vec![
            "init stable2 amp=100 d0=6 d1=18 p=0 s=0 b=0 balA=10000000000000 balB=10000000000000000000000000".into(),
            "0 0 u0 provide 1000000000000 1000000000000000000000000".into(),
            "0 0 u1 provide 1 1000000000000000000000000".into(),
            "0 0 u1 withdraw 545220541663904324674".into(),
        ]
    }

    fn gen_hist(&mut self, rng: &mut Rng, step: u64) -> Option<String> {
        if step == 0 {
            self.probe = self.n == 0;
            self.n += 1;
            if self.probe {
                self.plan_len = 4;
                return Some(Self::probe_history()[0].clone());
            }
            self.plan_len = 4 + rng.below(14);
            let (d0, d1) = Self::gen_decs(rng);
            let amp = Self::gen_amp(rng);
            let (pf, sf, bf) = Self::gen_fees(rng);
            // 2^108 per user and denom: three users stay below 2^110 in total
            // asset kinds in every combination and ORDER (seed C03-K: a cw20 first and a native second)
            let (k0, k1) = [("n", "n"), ("c", "n"), ("n", "c"), ("c", "c")][rng.below(4) as usize];
            return Some(format!("init stable2 amp={amp} d0={d0} d1={d1} p={pf} s={sf} b={bf} balA={} balB={} k0={k0} k1={k1}", 1u128 << 108, 1u128 << 108));
        }
        if step >= self.plan_len {
            return None;
        }
        if self.probe {
            return Some(Self::probe_history()[step as usize].clone());
        }
        let cfg = self.pool.as_ref()?.cfg;
        let s = self.last.clone();
        let lim = (1u128 << 100) - 1;
        if s.sup == 0 {
            // seed deposit by u0: at least one whole token each, mostly balanced in value
            let a = Self::gen_reserve(rng, cfg.d0);
            let bq = if rng.chance(3, 4) {
                let base = Self::rescale(a, cfg.d0, cfg.d1);
                (base / 100).saturating_mul(50 + rng.below(150) as u128).clamp(whole(cfg.d1), lim)
            } else {
                Self::gen_reserve(rng, cfg.d1)
            };
            return Some(format!("0 0 u0 provide {a} {bq}"));
        }
        // a provide that succeeded just before is followed (2 in 3) by withdrawing exactly what it minted
        if let Some((u, _, minted)) = &self.just_provided {
            if rng.chance(2, 3) {
                return Some(format!("0 0 u{u} withdraw {minted}"));
            }
        }
        let u = rng.below(3) as usize;
        if rng.chance(1, 8) {
            return Some(format!("0 0 u{u} collect"));
        }
        match rng.below(10) {
            0..=4 => {
                let dir = rng.below(2) as u128;
                let (ro, od) = if dir == 0 { (s.r0, cfg.d0) } else { (s.r1, cfg.d1) };
                let off = match rng.below(6) {
                    0 => 1,
                    1 => whole(od),
                    2 => ro / (1 + rng.below(1000) as u128),
                    3 => ro.saturating_mul(1 + rng.below(5) as u128).min(lim),
                    4 => rng.amount(100),
                    _ => ro / (2 + rng.below(50) as u128),
                };
                Some(format!("0 0 u{u} swap {dir} {off}"))
            }
            5..=7 => {
                let (a, bq) = match rng.below(6) {
                    0 => (1, s.r1 / (1 + rng.below(4) as u128)),
                    1 => (s.r0 / (1 + rng.below(4) as u128), 1),
                    2 => (rng.amount(100), rng.amount(100)),
                    3 => (s.r0, s.r1),
                    _ => (s.r0 / (1 + rng.below(100) as u128), s.r1 / (1 + rng.below(100) as u128)),
                };
                Some(format!("0 0 u{u} provide {} {}", a.min(lim), bq.min(lim)))
            }
            _ => {
                let have = s.users[u].2;
                let amt = match rng.below(5) {
                    0 => have,
                    1 => have / 2,
                    2 => have.saturating_add(1),
                    3 => rng.below(3) as u128,
                    _ => have / (1 + rng.below(20) as u128),
                };
                Some(format!("0 0 u{u} withdraw {amt}"))
            }
        }
    }
}

impl Engine for Stable2 {
    fn exec(&mut self, line: &str, mon: &mut Monitor) -> String {
        let ws: Vec<&str> = line.split_whitespace().collect();
        if ws.len() < 2 {
            return "bad-op".into();
        }
        match ws[0] {
            "call" => self.exec_call(&ws, mon),
            "init" => {
                if ws[1] != "stable2" {
                    return "bad-op".into();
                }
                self.exec_init(&ws)
            }
            _ => self.exec_hist_op(&ws, mon),
        }
    }

    fn next_op(&mut self, rng: &mut Rng, step: u64) -> Option<String> {
        if self.hist {
            self.gen_hist(rng, step)
        } else {
            if step >= 1 {
                return None;
            }
            Some(self.gen_pure(rng))
        }
    }
}
