//! Engine `incentive` (C11, C12, C13): the real incentive factory + incentive + frontend helper
//! contracts in cw-multi-test, with a controllable epoch source (a tiny mock answering the fee
//! distributor's `CurrentEpoch` query), a fee collector address and a mock pair for the helper path
//! (takes the deposited assets, hands out `lp = a0 + a1` LP tokens).
//!
//! Cast: alice, bob, carol (users), dave (flow creator), owner (factory owner), mallory (the account of the
//! hostile pool token, a contract); every one of them may send any op. Assets: 0 = LP (native `ulp` or cw20),
//! 1 = `uwhale`, 2 = `ureward` (native), 3 = cw20 A, 4 = cw20 B. The flow-creation fee asset is any of them
//! (init line). cw20 A -- the cw20 asset of the helper's pair -- is the HOSTILE token of `mod hostile`: plain
//! cw20-base until it is armed by a `reenter` line.
//! Assets 5..=9 are the same five NAMES in the WRONG KIND (`a + 5` = look-alike of `a`): for a cw20 asset
//! the native denom that spells the token's address (every actor holds coins of that denom, so it is a
//! real, distinct asset: flows can be opened in it), for a native asset the cw20 `Token { contract_addr }`
//! that spells the denom (no such contract exists: "dead", it cannot be offered and holds no balances).
//! Every op that names an asset (`open_flow`, `expand_flow`, `helper_deposit_as`) accepts ids 0..=9.
//!
//! Op line:  `<epoch> <time_s> <sender> <op> <args…> [<asset>:<amount> …]`
//! the trailing `asset:amount` tokens are what the sender *offers*: a native asset is attached as
//! funds, a cw20 asset becomes the sender's allowance to the called contract (set to exactly that
//! value before the op; every other cw20 allowance of the sender to that contract is set to 0).
//!
//! Re-entrant transaction:
//!   `<epoch> <time_s> <sender> reenter <t1|t2|t3|t4> <plain|catch> <inner op> <args…> [offers] -- <outer op> <args…> [offers]`
//! the hostile pool token is armed, then `<outer op>` is sent by `<sender>` with the offers after `--`; when the
//! armed trigger is hit (t1: inside the helper's `TransferFrom` depositor -> helper, t2: inside the pair's
//! `TransferFrom` helper -> pair, t3 / t4: a `Transfer` / `Send` by or to the helper -- never on this path),
//! mallory sends `<inner op>` with its own offers from inside the token's handler, ONCE, plainly (its failure
//! fails the transaction) or as a sub-message it catches. Neither op may be a `reenter` itself. The observation
//! line of a `reenter` op ends in `fired=0|1|2|-` (not triggered / nested message went through / refused and
//! caught / transaction failed). The token is disarmed after the transaction whatever happened.
use crate::common::*;
use cosmwasm_schema::cw_serde;
use cosmwasm_std::{
    coin, to_json_binary, Addr, BankMsg, Binary, Coin, CosmosMsg, Decimal, Deps, DepsMut, Empty, Env, MessageInfo,
    Response, StdError, StdResult, Timestamp, Uint128, Uint64, WasmMsg,
};
use cw_multi_test::{App, AppBuilder, BankKeeper, ContractWrapper, Executor};
use cw_storage_plus::Item;
use std::collections::BTreeMap;
use white_whale_std::pool_network::asset::{Asset, AssetInfo, PairInfo, PairType};
use white_whale_std::pool_network::frontend_helper as hm;
use white_whale_std::pool_network::incentive as im;
use white_whale_std::pool_network::incentive_factory as fm;

/// base assets
pub const NB: usize = 5;
/// base assets + their wrong-kind look-alikes
pub const NA: usize = 10;
/// the same name in the other kind
fn twin(a: usize) -> usize {
    if a < NB {
        a + NB
    } else {
        a - NB
    }
}
/// senders: three users, the flow creator, the factory owner, and `mallory` -- the account of the hostile pool
/// token (a contract that sends what it is told to from its own address: `hostile::puppet`)
const ACTORS: [&str; 6] = ["alice", "bob", "carol", "dave", "owner", "mallory"];
/// number of actors (account indices 1..=NACT)
const NACT: usize = 6;
/// accounts whose balances are observed: index 0 = incentive contract, 1..=6 actors, 7 collector, 8 helper, 9 pair
const ACCTS: [&str; 10] = ["inc", "alice", "bob", "carol", "dave", "owner", "mallory", "collector", "helper", "pair"];
const MALLORY: usize = 6;
const COLLECTOR: usize = 7;
const HELPER: usize = 8;
const PAIR: usize = 9;
/// number of observed accounts
const NACC: usize = 10;
const NATIVE_DENOM: [&str; 3] = ["ulp", "uwhale", "ureward"];
fn native_denom(cfg: &Cfg, b: usize) -> &'static str {
    match (cfg.dn, b) {
        (1, 1) => "ULP",
        (1, 2) => "Ulp",
        (2, 0) => "ibc/3A0F4BD2E5C1A7B8",
        (2, 1) => "ibc/3a0f4bd2e5c1a7b8",
        (2, 2) => "IBC/3A0F4BD2E5C1A7B8",
        (3, 1) => "ul",
        (3, 2) => "ulp1",
        _ => NATIVE_DENOM[b],
    }
}
const BAL0: u128 = 1u128 << 125;
const MIN_D: u64 = 86_400;
const MAX_D: u64 = 31_556_926;

// ------------------------------------------------------------------------------------------------
// mock contracts: epoch source, pair
// ------------------------------------------------------------------------------------------------
const EPOCH: Item<u64> = Item::new("epoch");

#[cw_serde]
pub enum EpochExec {
    Set { id: u64 },
}
#[cw_serde]
pub struct EpochInst {
    pub id: u64,
}

fn epoch_contract() -> Box<dyn cw_multi_test::Contract<Empty>> {
    use white_whale_std::fee_distributor as fd;
    Box::new(ContractWrapper::new(
        |d: DepsMut, _e: Env, _i: MessageInfo, m: EpochExec| -> StdResult<Response> {
            match m {
                EpochExec::Set { id } => EPOCH.save(d.storage, &id)?,
            }
            Ok(Response::new())
        },
        |d: DepsMut, _e: Env, _i: MessageInfo, m: EpochInst| -> StdResult<Response> {
            EPOCH.save(d.storage, &m.id)?;
            Ok(Response::new())
        },
        |d: Deps, env: Env, m: fd::QueryMsg| -> StdResult<Binary> {
            match m {
                fd::QueryMsg::CurrentEpoch {} => to_json_binary(&fd::EpochResponse {
                    epoch: fd::Epoch { id: Uint64::new(EPOCH.load(d.storage)?), start_time: env.block.time, ..Default::default() },
                }),
                _ => Err(StdError::generic_err("not mocked")),
            }
        },
    ))
}

const PAIR_LP: Item<AssetInfo> = Item::new("lp");
const PAIR_ASSETS: Item<[AssetInfo; 2]> = Item::new("assets");

#[cw_serde]
pub enum PairMockExec {
    ProvideLiquidity { assets: [Asset; 2], slippage_tolerance: Option<Decimal>, receiver: Option<String> },
    Configure { lp: AssetInfo, assets: [AssetInfo; 2] },
}
#[cw_serde]
pub enum PairMockQuery {
    Pair {},
}

fn pair_contract() -> Box<dyn cw_multi_test::Contract<Empty>> {
    Box::new(ContractWrapper::new(
        |d: DepsMut, env: Env, info: MessageInfo, m: PairMockExec| -> StdResult<Response> {
            match m {
                PairMockExec::Configure { lp, assets } => {
                    PAIR_LP.save(d.storage, &lp)?;
                    PAIR_ASSETS.save(d.storage, &assets)?;
                    Ok(Response::new())
                }
                PairMockExec::ProvideLiquidity { assets, .. } => {
                    // like a real pair: the deposited assets must be the pair's own two assets (kind and name)
                    let own = PAIR_ASSETS.load(d.storage)?;
                    if !(assets.iter().all(|a| own.contains(&a.info)) && assets[0].info != assets[1].info) {
                        return Err(StdError::generic_err("asset mismatch"));
                    }
                    let mut msgs: Vec<CosmosMsg> = vec![];
                    let mut lp = Uint128::zero();
                    for a in assets.iter() {
                        lp = lp.checked_add(a.amount)?;
                        match &a.info {
                            AssetInfo::NativeToken { denom } => {
                                if !a.amount.is_zero()
                                    && !info.funds.iter().any(|c| &c.denom == denom && c.amount == a.amount)
                                {
                                    return Err(StdError::generic_err("native asset not sent"));
                                }
                            }
                            AssetInfo::Token { contract_addr } => msgs.push(
                                WasmMsg::Execute {
                                    contract_addr: contract_addr.clone(),
                                    msg: to_json_binary(&cw20::Cw20ExecuteMsg::TransferFrom {
                                        owner: info.sender.to_string(),
                                        recipient: env.contract.address.to_string(),
                                        amount: a.amount,
                                    })?,
                                    funds: vec![],
                                }
                                .into(),
                            ),
                        }
                    }
                    if lp.is_zero() {
                        return Err(StdError::generic_err("zero liquidity"));
                    }
                    let lp_asset = Asset { info: PAIR_LP.load(d.storage)?, amount: lp };
                    msgs.push(lp_asset.into_msg(info.sender)?);
                    Ok(Response::new().add_messages(msgs))
                }
            }
        },
        |_d: DepsMut, _e: Env, _i: MessageInfo, _m: Empty| -> StdResult<Response> { Ok(Response::new()) },
        |d: Deps, env: Env, m: PairMockQuery| -> StdResult<Binary> {
            match m {
                PairMockQuery::Pair {} => to_json_binary(&PairInfo {
                    asset_infos: PAIR_ASSETS.load(d.storage)?,
                    contract_addr: env.contract.address.to_string(),
                    liquidity_token: PAIR_LP.load(d.storage)?,
                    asset_decimals: [6, 6],
                    pair_type: PairType::ConstantProduct,
                }),
            }
        },
    ))
}

/// THE HOSTILE POOL TOKEN and its account.  `token()` is a cw20 token that IS cw20-base (instantiate, query and every
/// execute variant go through `cw20_base::contract`) and, when ARMED (`sudo`, the harness's own entry point; a real
/// one would carry an execute variant of its own), sends ONE message of its own choosing from inside the next
/// `TransferFrom` / `Transfer` / `Send` in which the frontend helper takes part:
///   trigger 1: `TransferFrom { owner, recipient = helper }`  (the helper pulls a depositor's tokens),
///   trigger 2: `TransferFrom { owner = helper, .. }`         (the pair pulls the tokens from the helper),
///   trigger 3: `Transfer` sent by / to the helper,   trigger 4: `Send` by / to the helper
/// (3 and 4 never happen on the helper's path: the helper only ever `TransferFrom`s and `IncreaseAllowance`s).
/// The ordinary transfer is executed first, the nested message runs right after it, before the caller's next
/// message -- i.e. BETWEEN the helper's own messages of a `Deposit`.  The message goes through `puppet()`
/// (`mallory`): a contract holding funds and allowances that sets its cw20 allowances to what it is told and then
/// sends the one message from its own address, plainly (a failure fails the whole transaction) or as a
/// sub-message it catches (`reply_on: Always`; it records what became of it).  Mallory's ordinary operations are
/// sent by the harness with the puppet's address as the sender.
mod hostile {
    use cosmwasm_std::{
        to_json_binary, Binary, CosmosMsg, Deps, DepsMut, Empty, Env, MessageInfo, Reply, Response, StdError, StdResult,
        SubMsg, Uint128, WasmMsg,
    };
    use cw_multi_test::{Contract, ContractWrapper};
    use cw_storage_plus::Item;
    use serde::{Deserialize, Serialize};

    #[derive(Serialize, Deserialize, Clone, Debug)]
    #[serde(rename_all = "snake_case")]
    pub enum TokenSudo {
        Arm { trigger: u8, helper: String, puppet: String, inner: Binary },
        Disarm {},
    }
    #[derive(Serialize, Deserialize, Clone, Debug)]
    pub struct Armed {
        pub trigger: u8,
        pub helper: String,
        pub puppet: String,
        pub inner: Binary,
    }
    pub const ARMED: Item<Armed> = Item::new("hostile_armed");
    /// raw key `hostile_fired`: `true` once the armed trigger was hit (reset by `Arm`)
    pub const FIRED: Item<bool> = Item::new("hostile_fired");

    fn token_sudo(deps: DepsMut, _env: Env, msg: TokenSudo) -> Result<Response, cw20_base::ContractError> {
        match msg {
            TokenSudo::Arm { trigger, helper, puppet, inner } => {
                ARMED.save(deps.storage, &Armed { trigger, helper, puppet, inner })?;
                FIRED.save(deps.storage, &false)?;
            }
            TokenSudo::Disarm {} => ARMED.remove(deps.storage),
        }
        Ok(Response::new())
    }

    fn token_execute(
        mut deps: DepsMut,
        env: Env,
        info: MessageInfo,
        msg: cw20::Cw20ExecuteMsg,
    ) -> Result<Response, cw20_base::ContractError> {
        use cw20::Cw20ExecuteMsg as M;
        let hit = match ARMED.may_load(deps.storage)? {
            None => None,
            Some(a) => {
                let h = a.helper.as_str();
                let m = match (&msg, a.trigger) {
                    (M::TransferFrom { owner, recipient, .. }, 1) => recipient == h && owner != h,
                    (M::TransferFrom { owner, .. }, 2) => owner == h,
                    (M::Transfer { recipient, .. }, 3) => info.sender.as_str() == h || recipient == h,
                    (M::Send { contract, .. }, 4) => info.sender.as_str() == h || contract == h,
                    _ => false,
                };
                if m {
                    Some(a)
                } else {
                    None
                }
            }
        };
        // the ordinary cw20-base behaviour first
        let resp = cw20_base::contract::execute(deps.branch(), env, info, msg)?;
        match hit {
            None => Ok(resp),
            Some(a) => {
                // one shot
                ARMED.remove(deps.storage);
                FIRED.save(deps.storage, &true)?;
                Ok(resp
                    .add_attribute("hostile", "fire")
                    .add_message(WasmMsg::Execute { contract_addr: a.puppet, msg: a.inner, funds: vec![] }))
            }
        }
    }

    pub fn token() -> Box<dyn Contract<Empty>> {
        Box::new(
            ContractWrapper::new(token_execute, cw20_base::contract::instantiate, cw20_base::contract::query)
                .with_sudo(token_sudo),
        )
    }

    #[derive(Serialize, Deserialize, Clone, Debug)]
    #[serde(rename_all = "snake_case")]
    pub enum PuppetMsg {
        /// the nested call: bring the puppet's cw20 allowances `(token, spender, wanted)` to exactly the wanted
        /// values, then send `msg` -- plainly, or as a sub-message whose failure is swallowed
        Inner { allow: Vec<(String, String, Uint128)>, msg: CosmosMsg, catch: bool },
        Reset {},
    }
    /// raw key `puppet_last`: what became of the last nested message (`null`: none ran to its end)
    pub const LAST: Item<Option<bool>> = Item::new("puppet_last");

    fn puppet_execute(deps: DepsMut, env: Env, _info: MessageInfo, msg: PuppetMsg) -> StdResult<Response> {
        match msg {
            PuppetMsg::Reset {} => {
                LAST.save(deps.storage, &None)?;
                Ok(Response::new())
            }
            PuppetMsg::Inner { allow, msg, catch } => {
                let me = env.contract.address.to_string();
                let mut msgs: Vec<CosmosMsg> = vec![];
                let exec = |token: &str, m: cw20::Cw20ExecuteMsg| -> StdResult<CosmosMsg> {
                    Ok(WasmMsg::Execute { contract_addr: token.to_string(), msg: to_json_binary(&m)?, funds: vec![] }.into())
                };
                for (token, spender, want) in allow.iter() {
                    let cur: cw20::AllowanceResponse = deps
                        .querier
                        .query_wasm_smart(token.clone(), &cw20::Cw20QueryMsg::Allowance { owner: me.clone(), spender: spender.clone() })?;
                    let cur = cur.allowance;
                    if want.is_zero() {
                        // leave no allowance record at all (as the harness does for an ordinary sender)
                        msgs.push(exec(token, cw20::Cw20ExecuteMsg::IncreaseAllowance { spender: spender.clone(), amount: Uint128::one(), expires: None })?);
                        msgs.push(exec(token, cw20::Cw20ExecuteMsg::DecreaseAllowance { spender: spender.clone(), amount: cur + Uint128::one(), expires: None })?);
                    } else if cur < *want {
                        msgs.push(exec(token, cw20::Cw20ExecuteMsg::IncreaseAllowance { spender: spender.clone(), amount: *want - cur, expires: None })?);
                    } else if cur > *want {
                        msgs.push(exec(token, cw20::Cw20ExecuteMsg::DecreaseAllowance { spender: spender.clone(), amount: cur - *want, expires: None })?);
                    }
                }
                let sub = if catch { SubMsg::reply_always(msg, 1) } else { SubMsg::reply_on_success(msg, 1) };
                Ok(Response::new().add_messages(msgs).add_submessage(sub))
            }
        }
    }

    fn puppet_reply(deps: DepsMut, _env: Env, r: Reply) -> StdResult<Response> {
        LAST.save(deps.storage, &Some(matches!(r.result, cosmwasm_std::SubMsgResult::Ok(_))))?;
        Ok(Response::new().add_attribute("hostile", "inner_done"))
    }

    pub fn puppet() -> Box<dyn Contract<Empty>> {
        Box::new(
            ContractWrapper::new(
                puppet_execute,
                |d: DepsMut, _e: Env, _i: MessageInfo, _m: Empty| -> StdResult<Response> {
                    LAST.save(d.storage, &None)?;
                    Ok(Response::new())
                },
                |_d: Deps, _e: Env, _m: Empty| -> StdResult<Binary> { Err(StdError::generic_err("no queries")) },
            )
            .with_reply(puppet_reply),
        )
    }
}

// ------------------------------------------------------------------------------------------------
// world
// ------------------------------------------------------------------------------------------------
#[derive(Clone, Debug)]
struct Cfg {
    lp_native: bool,
    fee_asset: usize,
    fee_amt: u128,
    max_flows: u64,
    buffer: u64,
    min_dur: u64,
    max_dur: u64,
    e0: u64,
    /// denom shapes of the world (init token `dn=`; the model never looks at names): 0 plain; 1 the second native
    /// denom is the LP denom in another letter case; 2 IBC vouchers differing in the case of the hash; 3 the second
    /// native denom is a prefix / the LP denom with a suffix (seed C11-M: a case-insensitive denom comparison)
    dn: u8,
}

#[derive(Clone, Debug, Default, PartialEq)]
struct FlowObs {
    id: u64,
    asset: usize,
    creator: String,
    amount: u128,
    claimed: u128,
    start: u64,
    end: u64,
    hist: Vec<(u64, u128, u64)>,
    emitted: Vec<(u64, u128)>,
}
impl FlowObs {
    fn funded(&self) -> u128 {
        self.hist.last().map(|h| h.1).unwrap_or(self.amount)
    }
    /// upper bound of what the flow emits in epoch `e`: (funded as of e) / (epochs left as of e); the
    /// contract's own figure subtracts what its ledger says was emitted before, so it is never larger
    fn emission_cap(&self, e: u64) -> u128 {
        let at = self.hist.iter().filter(|h| h.0 <= e).last();
        let (amt, end) = at.map(|h| (h.1, h.2)).unwrap_or((self.amount, self.end));
        if e < self.start || end <= e {
            0
        } else {
            amt / (end - e) as u128
        }
    }
}

#[derive(Clone, Debug, PartialEq)]
enum Q<T> {
    Ok(T),
    Err,
    Panic,
}

#[derive(Clone, Debug, PartialEq)]
struct Obs {
    epoch: u64,
    gw: u128,
    snap: Option<u128>,
    aw: Vec<u128>,
    /// per actor: open (dur, amount, weight), closed (amount, ts)
    pos: Vec<Q<(Vec<(u64, u128, u128)>, Vec<(u128, u64)>)>>,
    /// per actor: (address_weight, global_weight, share atomics as decimal string)
    share: Vec<Q<(u128, u128, String)>>,
    rewards: Vec<Q<Vec<(usize, u128)>>>,
    flows: Vec<FlowObs>,
    bal: Vec<[u128; NA]>,
}

struct World {
    app: App,
    cfg: Cfg,
    addr: Vec<Addr>,
    token: [Option<Addr>; NB],
    epoch_src: Addr,
    cur_epoch: u64,
    prev: Obs,
    /// last epoch in which a claim by this actor succeeded (harness-side bookkeeping from outcomes)
    last_claim_ok: BTreeMap<usize, u64>,
    /// actors whose position was opened/expanded/closed since the epoch started (for stats only)
    steps: u64,
    /// per asset: a flow of this asset was expanded without the tokens arriving (bit 1) or reset with an
    /// empty asset history (bit 2) earlier in this case -- only used to *tag* later ledger failures
    taint: [u8; NA],
    /// (flow id, epoch) -> (sum paid out by single-epoch claims, attribution lost)
    paid_by_epoch: BTreeMap<(u64, u64), (u128, bool)>,
    /// harness-side weight oracle (independent of the contract's weight history and of the model):
    /// (actor 1..=5, epoch) -> the live ADDRESS_WEIGHT observed before the first operation of that epoch,
    /// i.e. the weight in effect for that epoch
    eff_w: BTreeMap<(usize, u64), u128>,
    /// last epoch for which `eff_w` is filled
    obs_epoch: u64,
    /// epoch -> global weight snapshot as observed while that epoch was current
    snap_seen: BTreeMap<u64, u128>,
    /// (flow id, epoch) -> payouts of ALL claims (single- and multi-epoch, first-ever claims included)
    /// attributed to that epoch from `eff_w` / `snap_seen`
    paid_all: BTreeMap<(u64, u64), u128>,
}

/// longest epoch range the weight oracle is filled / a claim is attributed over in one go
const ORACLE_SPAN: u64 = 5000;

/// `Uint256::from(emission) * Decimal256::from_ratio(weight, global)` floored to an integer, as the
/// contract computes a reward; 0 when there is no snapshot
fn share_of(emission: u128, weight: u128, global: u128) -> u128 {
    use cosmwasm_std::{Decimal256, Uint256};
    if global == 0 || weight == 0 || emission == 0 {
        return 0;
    }
    let share = match Decimal256::checked_from_ratio(Uint256::from(weight), Uint256::from(global)) {
        Ok(s) => s,
        Err(_) => return u128::MAX,
    };
    let r = match Uint256::from(emission).checked_mul(share.atomics()) {
        Ok(v) => v / Uint256::from(1_000_000_000_000_000_000u128),
        Err(_) => return u128::MAX,
    };
    Uint128::try_from(r).map(|v| v.u128()).unwrap_or(u128::MAX)
}

fn kind_native(cfg: &Cfg, a: usize) -> bool {
    match a {
        0 => cfg.lp_native,
        1 | 2 => true,
        3 | 4 => false,
        _ => !kind_native(cfg, a - NB),
    }
}
/// a cw20 `Token { contract_addr }` naming a native denom: no contract lives there
fn dead(cfg: &Cfg, a: usize) -> bool {
    a >= NB && !kind_native(cfg, a)
}

impl World {
    /// the NAME of asset `a` (shared with its look-alike): the native denom or the cw20 address
    fn name(&self, a: usize) -> String {
        let b = a % NB;
        if kind_native(&self.cfg, b) {
            native_denom(&self.cfg, b).to_string()
        } else {
            self.token[b].clone().unwrap().to_string()
        }
    }
    fn info(&self, a: usize) -> AssetInfo {
        if kind_native(&self.cfg, a) {
            AssetInfo::NativeToken { denom: self.name(a) }
        } else {
            AssetInfo::Token { contract_addr: self.name(a) }
        }
    }
    /// C12 observation point `Flow{identifier}`
    fn monitor_flow_query(&self, o: &Obs, mon: &mut Monitor) {
        // C12 observation point `Flow{identifier}`: the single-flow query answers every listed flow as the
        // listing (and the raw item) has it, and nothing for an id that was never given out
        let inc = self.addr[0].clone();
            let app = &self.app;
            let q = |id: u64| -> Outcome<im::FlowResponse> {
                let inc = inc.clone();
                guarded(move || {
                    app.wrap().query_wasm_smart(&inc, &im::QueryMsg::Flow { flow_identifier: im::FlowIdentifier::Id(id), start_epoch: None, end_epoch: None })
                })
            };
            for f in o.flows.iter() {
                let ok = match q(f.id) {
                    Outcome::Ok(r) => match r.flow {
                        Some(g) => {
                            g.flow_id == f.id
                                && g.flow_asset.amount.u128() == f.amount
                                && g.claimed_amount.u128() == f.claimed
                                && g.start_epoch == f.start
                                && g.end_epoch == f.end
                                && self.acct_of(&g.flow_creator) == f.creator
                                && self.asset_of(&g.flow_asset.info) == f.asset
                        }
                        None => false,
                    },
                    _ => false,
                };
                mon.check("C12", "flow_query_agrees_with_listing", ok, || format!("Flow{{Id({})}} does not answer the listed flow {:?}", f.id, (f.id, f.amount, f.claimed, f.start, f.end)));
            }
            let unused = o.flows.iter().map(|f| f.id).max().unwrap_or(0) + 1_000_003;
            if let Outcome::Ok(r) = q(unused) {
                mon.check("C12", "flow_query_agrees_with_listing", r.flow.is_none(), || format!("Flow{{Id({unused})}} answers a flow that is not listed"));
            }
    }

    fn asset_of(&self, info: &AssetInfo) -> usize {
        for a in 0..NA {
            if &self.info(a) == info {
                return a;
            }
        }
        usize::MAX
    }
    fn acct_of(&self, addr: &Addr) -> String {
        for (i, a) in self.addr.iter().enumerate() {
            if a == addr {
                return ACCTS[i].into();
            }
        }
        "?".into()
    }
    fn balance(&self, who: &Addr, a: usize) -> u128 {
        if kind_native(&self.cfg, a) {
            self.app.wrap().query_balance(who, self.name(a)).unwrap().amount.u128()
        } else if dead(&self.cfg, a) {
            0
        } else {
            let r: cw20::BalanceResponse = self
                .app
                .wrap()
                .query_wasm_smart(self.token[a].clone().unwrap(), &cw20::Cw20QueryMsg::Balance { address: who.to_string() })
                .unwrap();
            r.balance.u128()
        }
    }

    fn new(cfg: Cfg) -> World {
        let mut names: Vec<Addr> = ACCTS.iter().map(|n| Addr::unchecked(*n)).collect();
        let mut app = AppBuilder::new().with_bank(BankKeeper::new()).build(|router, _api, storage| {
            for n in ACTORS.iter().filter(|n| **n != "mallory") {
                let mut coins: Vec<Coin> = vec![coin(BAL0, native_denom(&cfg, 1)), coin(BAL0, native_denom(&cfg, 2))];
                if cfg.lp_native {
                    coins.push(coin(BAL0, native_denom(&cfg, 0)));
                }
                router.bank.init_balance(storage, &Addr::unchecked(*n), coins).unwrap();
            }
        });
        let owner = Addr::unchecked("owner");
        let cw20_id = app.store_code(Box::new(ContractWrapper::new(
            cw20_base::contract::execute,
            cw20_base::contract::instantiate,
            cw20_base::contract::query,
        )));
        let inc_id = app.store_code(Box::new(ContractWrapper::new(
            incentive::contract::execute,
            incentive::contract::instantiate,
            incentive::contract::query,
        )));
        let fac_id = app.store_code(Box::new(
            ContractWrapper::new(
                incentive_factory::contract::execute,
                incentive_factory::contract::instantiate,
                incentive_factory::contract::query,
            )
            .with_reply(incentive_factory::contract::reply),
        ));
        let helper_id = app.store_code(Box::new(
            ContractWrapper::new(
                frontend_helper::contract::execute,
                frontend_helper::contract::instantiate,
                frontend_helper::contract::query,
            )
            .with_reply(frontend_helper::contract::reply),
        ));
        let epoch_id = app.store_code(epoch_contract());
        let pair_id = app.store_code(pair_contract());
        let hostile_id = app.store_code(hostile::token());
        let puppet_id = app.store_code(hostile::puppet());

        let epoch_src =
            app.instantiate_contract(epoch_id, owner.clone(), &EpochInst { id: cfg.e0 }, &[], "epochs", None).unwrap();
        let pair = app.instantiate_contract(pair_id, owner.clone(), &Empty {}, &[], "pair", None).unwrap();
        // mallory: the hostile pool token's account, funded like every other actor
        let puppet = app.instantiate_contract(puppet_id, owner.clone(), &Empty {}, &[], "mallory", None).unwrap();
        names[MALLORY] = puppet.clone();
        {
            let mut coins: Vec<Coin> = vec![coin(BAL0, native_denom(&cfg, 1)), coin(BAL0, native_denom(&cfg, 2))];
            if cfg.lp_native {
                coins.push(coin(BAL0, native_denom(&cfg, 0)));
            }
            app.init_modules(|router, _api, storage| router.bank.init_balance(storage, &puppet, coins).unwrap());
        }
        let mut token: [Option<Addr>; NB] = [None, None, None, None, None];
        for a in 0..NB {
            if kind_native(&cfg, a) {
                continue;
            }
            let mut initial: Vec<cw20::Cw20Coin> =
                (1..=NACT).map(|i| cw20::Cw20Coin { address: names[i].to_string(), amount: BAL0.into() }).collect();
            if a == 0 {
                initial.push(cw20::Cw20Coin { address: pair.to_string(), amount: BAL0.into() });
            }
            let t = app
                .instantiate_contract(
                    // cw20 A, the cw20 asset of the helper's pair, is the hostile token (plain cw20-base until armed)
                    if a == 3 { hostile_id } else { cw20_id },
                    owner.clone(),
                    &cw20_base::msg::InstantiateMsg {
                        name: format!("token{a}"),
                        symbol: format!("TOK{}", ["L", "X", "Y", "A", "B"][a]),
                        decimals: 6,
                        initial_balances: initial,
                        mint: None,
                        marketing: None,
                    },
                    &[],
                    format!("token{a}"),
                    None,
                )
                .unwrap();
            token[a] = Some(t);
        }
        // every actor holds coins of the native denoms that spell the cw20 tokens' addresses
        for a in 0..NB {
            if let Some(t) = &token[a] {
                for i in 1..=NACT {
                    app.sudo(cw_multi_test::SudoMsg::Bank(cw_multi_test::BankSudo::Mint {
                        to_address: names[i].to_string(),
                        amount: vec![coin(BAL0, t.to_string())],
                    }))
                    .unwrap();
                }
            }
        }
        if cfg.lp_native {
            // the mock pair hands out native LP from a pre-funded balance
            app.init_modules(|router, _api, storage| {
                router.bank.init_balance(storage, &pair, vec![coin(BAL0, native_denom(&cfg, 0))]).unwrap();
            });
        }
        let mut w = World {
            app,
            cfg: cfg.clone(),
            addr: names,
            token,
            epoch_src,
            cur_epoch: cfg.e0,
            prev: Obs {
                epoch: 0,
                gw: 0,
                snap: None,
                aw: vec![],
                pos: vec![],
                share: vec![],
                rewards: vec![],
                flows: vec![],
                bal: vec![],
            },
            last_claim_ok: BTreeMap::new(),
            steps: 0,
            taint: [0; NA],
            paid_by_epoch: BTreeMap::new(),
            eff_w: BTreeMap::new(),
            obs_epoch: cfg.e0.saturating_sub(1),
            snap_seen: BTreeMap::new(),
            paid_all: BTreeMap::new(),
        };
        let fee_info = w.info(cfg.fee_asset);
        let lp_info = w.info(0);
        let fac = w
            .app
            .instantiate_contract(
                fac_id,
                owner.clone(),
                &fm::InstantiateMsg {
                    fee_collector_addr: "collector".into(),
                    fee_distributor_addr: w.epoch_src.to_string(),
                    create_flow_fee: Asset { info: fee_info, amount: cfg.fee_amt.into() },
                    max_concurrent_flows: cfg.max_flows,
                    incentive_code_id: inc_id,
                    max_flow_epoch_buffer: cfg.buffer,
                    min_unbonding_duration: cfg.min_dur,
                    max_unbonding_duration: cfg.max_dur,
                },
                &[],
                "factory",
                None,
            )
            .unwrap();
        w.app
            .execute_contract(owner.clone(), fac.clone(), &fm::ExecuteMsg::CreateIncentive { lp_asset: lp_info.clone() }, &[])
            .unwrap();
        let inc: fm::IncentiveResponse =
            w.app.wrap().query_wasm_smart(&fac, &fm::QueryMsg::Incentive { lp_asset: lp_info.clone() }).unwrap();
        let inc = inc.unwrap();
        let helper = w
            .app
            .instantiate_contract(helper_id, owner.clone(), &hm::InstantiateMsg { incentive_factory: fac.to_string() }, &[], "helper", None)
            .unwrap();
        w.app
            .execute_contract(
                owner.clone(),
                pair.clone(),
                &PairMockExec::Configure { lp: lp_info, assets: [w.info(1), w.info(3)] },
                &[],
            )
            .unwrap();
        w.addr[0] = inc;
        w.addr[HELPER] = helper;
        w.addr[PAIR] = pair;
        w
    }

    /// the contract an op is sent to
    fn target_of(&self, k: &OpK) -> Addr {
        match k {
            OpK::HelperDeposit { .. } => self.addr[HELPER].clone(),
            _ => self.addr[0].clone(),
        }
    }

    /// the native part of what is offered, as the chain hands it over (sorted by denom)
    fn funds_of(&self, offers: &[(usize, u128)]) -> Vec<Coin> {
        let mut funds: Vec<Coin> = vec![];
        for a in 0..NA {
            let off = offers.iter().find(|o| o.0 == a).map(|o| o.1).unwrap_or(0);
            if kind_native(&self.cfg, a) && off > 0 {
                funds.push(coin(off, self.name(a)));
            }
        }
        funds.sort_by(|x, y| x.denom.cmp(&y.denom));
        funds
    }

    /// the execute message of a (plain) op
    fn wasm_exec(&self, k: &OpK, funds: Vec<Coin>) -> WasmMsg {
        let recv_s = |r: &Option<usize>| r.map(|i| self.addr[i].to_string());
        let info = |a: usize| self.info(a);
        let msg: Binary = match k {
            OpK::OpenPos { amount, dur, recv } => {
                to_json_binary(&im::ExecuteMsg::OpenPosition { amount: (*amount).into(), unbonding_duration: *dur, receiver: recv_s(recv) })
            }
            OpK::ExpandPos { amount, dur, recv } => {
                to_json_binary(&im::ExecuteMsg::ExpandPosition { amount: (*amount).into(), unbonding_duration: *dur, receiver: recv_s(recv) })
            }
            OpK::ClosePos { dur } => to_json_binary(&im::ExecuteMsg::ClosePosition { unbonding_duration: *dur }),
            OpK::Withdraw => to_json_binary(&im::ExecuteMsg::Withdraw {}),
            OpK::Claim => to_json_binary(&im::ExecuteMsg::Claim {}),
            OpK::Snapshot => to_json_binary(&im::ExecuteMsg::TakeGlobalWeightSnapshot {}),
            OpK::OpenFlow { asset, amount, start, end } => to_json_binary(&im::ExecuteMsg::OpenFlow {
                start_epoch: *start,
                end_epoch: *end,
                curve: None,
                flow_asset: Asset { info: info(*asset), amount: (*amount).into() },
                flow_label: None,
            }),
            OpK::ExpandFlow { id, asset, amount, end } => to_json_binary(&im::ExecuteMsg::ExpandFlow {
                flow_identifier: im::FlowIdentifier::Id(*id),
                end_epoch: *end,
                flow_asset: Asset { info: info(*asset), amount: (*amount).into() },
            }),
            OpK::CloseFlow { id } => to_json_binary(&im::ExecuteMsg::CloseFlow { flow_identifier: im::FlowIdentifier::Id(*id) }),
            OpK::HelperDeposit { x0, x1, a0, a1, dur } => to_json_binary(&hm::ExecuteMsg::Deposit {
                pair_address: self.addr[PAIR].to_string(),
                assets: [Asset { info: info(*x0), amount: (*a0).into() }, Asset { info: info(*x1), amount: (*a1).into() }],
                slippage_tolerance: None,
                unbonding_duration: *dur,
            }),
            OpK::Reenter { .. } => unreachable!("nested reenter is refused when the line is parsed"),
        }
        .unwrap();
        WasmMsg::Execute { contract_addr: self.target_of(k).to_string(), msg, funds }
    }

    fn set_epoch(&mut self, e: u64) {
        if e != self.cur_epoch {
            self.app
                .execute_contract(Addr::unchecked("owner"), self.epoch_src.clone(), &EpochExec::Set { id: e }, &[])
                .unwrap();
            self.cur_epoch = e;
        }
    }

    fn set_allowance(&mut self, owner: &Addr, spender: &Addr, a: usize, want: u128) {
        let tok = self.token[a].clone().unwrap();
        let cur: cw20::AllowanceResponse = self
            .app
            .wrap()
            .query_wasm_smart(&tok, &cw20::Cw20QueryMsg::Allowance { owner: owner.to_string(), spender: spender.to_string() })
            .unwrap();
        let cur = cur.allowance.u128();
        if want == 0 {
            // make sure no allowance record is left behind (a record with allowance 0 lets a zero
            // TransferFrom pass, no record makes it fail): increase, then decrease to zero removes it
            self.app
                .execute_contract(owner.clone(), tok.clone(), &cw20::Cw20ExecuteMsg::IncreaseAllowance { spender: spender.to_string(), amount: 1u128.into(), expires: None }, &[])
                .unwrap();
            self.app
                .execute_contract(owner.clone(), tok, &cw20::Cw20ExecuteMsg::DecreaseAllowance { spender: spender.to_string(), amount: (cur + 1).into(), expires: None }, &[])
                .unwrap();
            return;
        }
        if cur < want {
            self.app
                .execute_contract(
                    owner.clone(),
                    tok,
                    &cw20::Cw20ExecuteMsg::IncreaseAllowance { spender: spender.to_string(), amount: (want - cur).into(), expires: None },
                    &[],
                )
                .unwrap();
        } else if cur > want {
            self.app
                .execute_contract(
                    owner.clone(),
                    tok,
                    &cw20::Cw20ExecuteMsg::DecreaseAllowance { spender: spender.to_string(), amount: (cur - want).into(), expires: None },
                    &[],
                )
                .unwrap();
        }
    }

    fn q_rewards(&self, who: &Addr) -> Q<Vec<(usize, u128)>> {
        let inc = self.addr[0].clone();
        match guarded(|| self.app.wrap().query_wasm_smart::<im::RewardsResponse>(&inc, &im::QueryMsg::Rewards { address: who.to_string() })) {
            Outcome::Ok(r) => Q::Ok(r.rewards.iter().map(|a| (self.asset_of(&a.info), a.amount.u128())).collect()),
            Outcome::Err(_) => Q::Err,
            Outcome::Panic => Q::Panic,
        }
    }

    fn observe(&self) -> Obs {
        self.observe_from(None)
    }

    /// `base`: an observation taken since the last message to the incentive contract / helper; only what depends
    /// on the current epoch (snapshot, share and rewards queries) is read again, the raw storage items, the
    /// positions and the balances are taken from it (moving the epoch source or a cw20 allowance changes none)
    fn observe_from(&self, base: Option<&Obs>) -> Obs {
        let inc = self.addr[0].clone();
        let wrap = self.app.wrap();
        let gw: u128 = wrap
            .query_wasm_raw(&inc, b"global_weight".to_vec())
            .unwrap()
            .map(|v| cosmwasm_std::from_json::<Uint128>(&v).unwrap().u128())
            .unwrap_or(0);
        let snap = match guarded(|| wrap.query_wasm_smart::<im::GlobalWeightResponse>(&inc, &im::QueryMsg::GlobalWeight { epoch_id: self.cur_epoch })) {
            Outcome::Ok(r) => Some(r.global_weight.u128()),
            _ => None,
        };
        let mut aw = vec![];
        let mut pos = vec![];
        let mut share = vec![];
        let mut rewards = vec![];
        let base = base.filter(|b| b.pos.len() == NACT && b.aw.len() == NACT && b.bal.len() == self.addr.len());
        for i in 1..=NACT {
            let who = &self.addr[i];
            if base.is_none() {
            let mut k = vec![0u8, 14];
            k.extend_from_slice(b"address_weight");
            k.extend_from_slice(who.as_bytes());
            aw.push(
                wrap.query_wasm_raw(&inc, k).unwrap().map(|v| cosmwasm_std::from_json::<Uint128>(&v).unwrap().u128()).unwrap_or(0),
            );
            pos.push(
                match guarded(|| wrap.query_wasm_smart::<im::PositionsResponse>(&inc, &im::QueryMsg::Positions { address: who.to_string() })) {
                    Outcome::Ok(p) => {
                        let mut o = vec![];
                        let mut c = vec![];
                        for q in p.positions.iter() {
                            match q {
                                im::QueryPosition::OpenPosition { amount, unbonding_duration, weight } => {
                                    o.push((*unbonding_duration, amount.u128(), weight.u128()))
                                }
                                im::QueryPosition::ClosedPosition { amount, unbonding_timestamp, .. } => {
                                    c.push((amount.u128(), *unbonding_timestamp))
                                }
                            }
                        }
                        o.sort();
                        c.sort_by_key(|x| (x.1, x.0));
                        Q::Ok((o, c))
                    }
                    Outcome::Err(_) => Q::Err,
                    Outcome::Panic => Q::Panic,
                },
            );
            }
            share.push(
                match guarded(|| {
                    wrap.query_wasm_smart::<im::RewardsShareResponse>(&inc, &im::QueryMsg::CurrentEpochRewardsShare { address: who.to_string() })
                }) {
                    Outcome::Ok(s) => Q::Ok((s.address_weight.u128(), s.global_weight.u128(), s.share.atomics().to_string())),
                    Outcome::Err(_) => Q::Err,
                    Outcome::Panic => Q::Panic,
                },
            );
            rewards.push(self.q_rewards(who));
        }
        if let Some(b) = base {
            return Obs { epoch: self.cur_epoch, gw: b.gw, snap, aw: b.aw.clone(), pos: b.pos.clone(), share, rewards, flows: b.flows.clone(), bal: b.bal.clone() };
        }
        // the Flows query gives the keys in FLOWS order; the items themselves are read raw because the query
        // filters asset_history / emitted_tokens to a 100-epoch window
        let listed: Vec<im::Flow> = wrap.query_wasm_smart(&inc, &im::QueryMsg::Flows { start_epoch: None, end_epoch: None }).unwrap();
        let flows: Vec<im::Flow> = listed
            .iter()
            .map(|f| {
                let mut k = vec![0u8, 5];
                k.extend_from_slice(b"flows");
                k.extend_from_slice(&[0u8, 8]);
                k.extend_from_slice(&f.start_epoch.to_be_bytes());
                k.extend_from_slice(&f.flow_id.to_be_bytes());
                cosmwasm_std::from_json::<im::Flow>(&wrap.query_wasm_raw(&inc, k).unwrap().expect("raw flow")).unwrap()
            })
            .collect();
        let flows = flows
            .iter()
            .map(|f| {
                let mut emitted: Vec<(u64, u128)> = f.emitted_tokens.iter().map(|(k, v)| (*k, v.u128())).collect();
                emitted.sort();
                FlowObs {
                    id: f.flow_id,
                    asset: self.asset_of(&f.flow_asset.info),
                    creator: self.acct_of(&f.flow_creator),
                    amount: f.flow_asset.amount.u128(),
                    claimed: f.claimed_amount.u128(),
                    start: f.start_epoch,
                    end: f.end_epoch,
                    hist: f.asset_history.iter().map(|(k, (a, e))| (*k, a.u128(), *e)).collect(),
                    emitted,
                }
            })
            .collect();
        let mut bal = vec![];
        for who in self.addr.iter() {
            let mut b = [0u128; NA];
            for a in 0..NA {
                b[a] = self.balance(who, a);
            }
            bal.push(b);
        }
        Obs { epoch: self.cur_epoch, gw, snap, aw, pos, share, rewards, flows, bal }
    }
}

fn render(outcome: &str, o: &Obs) -> String {
    let mut s = String::with_capacity(2048);
    s.push_str(outcome);
    s.push_str(&format!(" ep={} gw={} snap={}", o.epoch, o.gw, o.snap.map(|x| x.to_string()).unwrap_or("none".into())));
    s.push_str(&format!(" aw={}", o.aw.iter().map(|x| x.to_string()).collect::<Vec<_>>().join(",")));
    for (i, p) in o.pos.iter().enumerate() {
        s.push_str(&format!(" pos.{}=", ACTORS[i]));
        match p {
            Q::Ok((op, cl)) => {
                let a: Vec<String> = op.iter().map(|x| format!("o{}:{}:{}", x.0, x.1, x.2)).collect();
                let b: Vec<String> = cl.iter().map(|x| format!("c{}:{}", x.0, x.1)).collect();
                let all: Vec<String> = a.into_iter().chain(b).collect();
                s.push_str(&if all.is_empty() { "-".into() } else { all.join(",") });
            }
            Q::Err => s.push_str("ERR"),
            Q::Panic => s.push_str("PANIC"),
        }
    }
    for (i, p) in o.share.iter().enumerate() {
        s.push_str(&format!(" sh.{}=", ACTORS[i]));
        match p {
            Q::Ok((w, g, sh)) => s.push_str(&format!("{w}:{g}:{sh}")),
            Q::Err => s.push_str("ERR"),
            Q::Panic => s.push_str("PANIC"),
        }
    }
    for (i, p) in o.rewards.iter().enumerate() {
        s.push_str(&format!(" rw.{}=", ACTORS[i]));
        match p {
            Q::Ok(v) => {
                let a: Vec<String> = v.iter().map(|x| format!("{}:{}", x.0, x.1)).collect();
                s.push_str(&if a.is_empty() { "-".into() } else { a.join(",") });
            }
            Q::Err => s.push_str("ERR"),
            Q::Panic => s.push_str("PANIC"),
        }
    }
    s.push_str(" fl=");
    if o.flows.is_empty() {
        s.push('-');
    }
    let fl: Vec<String> = o
        .flows
        .iter()
        .map(|f| {
            format!(
                "{}:a{}:{}:{}:{}:{}:{}:h[{}]:e[{}]",
                f.id,
                f.asset,
                f.creator,
                f.amount,
                f.claimed,
                f.start,
                f.end,
                f.hist.iter().map(|h| format!("{}>{}>{}", h.0, h.1, h.2)).collect::<Vec<_>>().join("|"),
                f.emitted.iter().map(|h| format!("{}>{}", h.0, h.1)).collect::<Vec<_>>().join("|"),
            )
        })
        .collect();
    s.push_str(&fl.join(";"));
    for (i, b) in o.bal.iter().enumerate() {
        s.push_str(&format!(" b.{}={}", ACCTS[i], b.iter().map(|x| x.to_string()).collect::<Vec<_>>().join(",")));
    }
    s
}

// ------------------------------------------------------------------------------------------------
// op parsing
// ------------------------------------------------------------------------------------------------
#[derive(Clone, Debug)]
enum OpK {
    OpenPos { amount: u128, dur: u64, recv: Option<usize> },
    ExpandPos { amount: u128, dur: u64, recv: Option<usize> },
    ClosePos { dur: u64 },
    Withdraw,
    Claim,
    Snapshot,
    OpenFlow { asset: usize, amount: u128, start: Option<u64>, end: Option<u64> },
    ExpandFlow { id: u64, asset: usize, amount: u128, end: Option<u64> },
    CloseFlow { id: u64 },
    /// `x0`, `x1`: the asset ids the two deposited assets are NAMED with (1 and 3, or their look-alikes 6 / 8)
    HelperDeposit { x0: usize, x1: usize, a0: u128, a1: u128, dur: u64 },
    /// `reenter <t1|t2|t3|t4> <plain|catch> <inner op> [offers] -- <outer op> [offers]`: the hostile pool token is
    /// armed with trigger `trig`; `outer` is then sent by the line's sender (its offers are the line's `offers`);
    /// when the trigger is hit, mallory sends `inner` with `ioffers` from inside the token's transfer handler
    Reenter { trig: u8, catch: bool, inner: Box<OpK>, ioffers: Vec<(usize, u128)>, outer: Box<OpK> },
}

#[derive(Clone, Debug)]
struct Op {
    epoch: u64,
    time: u64,
    sender: usize, // index into ACCTS (1..=NACT)
    k: OpK,
    offers: Vec<(usize, u128)>,
}

fn actor_idx(s: &str) -> Option<usize> {
    ACTORS.iter().position(|a| *a == s).map(|i| i + 1)
}
fn opt_u64(s: &str) -> Option<Option<u64>> {
    if s == "-" {
        Some(None)
    } else {
        s.parse().ok().map(Some)
    }
}
fn opt_actor(s: &str) -> Option<Option<usize>> {
    if s == "-" {
        Some(None)
    } else {
        actor_idx(s).map(Some)
    }
}

/// `<op> <args…> [<asset>:<amount> …]` (no nesting)
fn parse_body(ws: &[&str]) -> Option<(OpK, Vec<(usize, u128)>)> {
    if ws.is_empty() {
        return None;
    }
    let nargs = match ws[0] {
        "open_position" | "expand_position" | "helper_deposit" => 3,
        "helper_deposit_as" => 5,
        "close_position" | "close_flow" => 1,
        "withdraw" | "claim" | "snapshot" => 0,
        "open_flow" | "expand_flow" => 4,
        _ => return None,
    };
    if ws.len() < 1 + nargs {
        return None;
    }
    let a = &ws[1..1 + nargs];
    let k = match ws[0] {
        "open_position" => OpK::OpenPos { amount: a[0].parse().ok()?, dur: a[1].parse().ok()?, recv: opt_actor(a[2])? },
        "expand_position" => OpK::ExpandPos { amount: a[0].parse().ok()?, dur: a[1].parse().ok()?, recv: opt_actor(a[2])? },
        "close_position" => OpK::ClosePos { dur: a[0].parse().ok()? },
        "withdraw" => OpK::Withdraw,
        "claim" => OpK::Claim,
        "snapshot" => OpK::Snapshot,
        "open_flow" => {
            let asset: usize = a[0].parse().ok()?;
            if asset >= NA {
                return None;
            }
            OpK::OpenFlow { asset, amount: a[1].parse().ok()?, start: opt_u64(a[2])?, end: opt_u64(a[3])? }
        }
        "expand_flow" => {
            let asset: usize = a[1].parse().ok()?;
            if asset >= NA {
                return None;
            }
            OpK::ExpandFlow { id: a[0].parse().ok()?, asset, amount: a[2].parse().ok()?, end: opt_u64(a[3])? }
        }
        "close_flow" => OpK::CloseFlow { id: a[0].parse().ok()? },
        "helper_deposit" => OpK::HelperDeposit { x0: 1, x1: 3, a0: a[0].parse().ok()?, a1: a[1].parse().ok()?, dur: a[2].parse().ok()? },
        "helper_deposit_as" => {
            let (x0, x1): (usize, usize) = (a[0].parse().ok()?, a[1].parse().ok()?);
            if !((x0 == 1 || x0 == 6) && (x1 == 3 || x1 == 8)) || (x0, x1) == (1, 3) {
                return None;
            }
            OpK::HelperDeposit { x0, x1, a0: a[2].parse().ok()?, a1: a[3].parse().ok()?, dur: a[4].parse().ok()? }
        }
        _ => return None,
    };
    let mut offers = vec![];
    for t in &ws[1 + nargs..] {
        let (x, y) = t.split_once(':')?;
        let asset: usize = x.parse().ok()?;
        let amt: u128 = y.parse().ok()?;
        if asset >= NA || amt == 0 || offers.iter().any(|o: &(usize, u128)| o.0 == asset) {
            return None;
        }
        offers.push((asset, amt));
    }
    Some((k, offers))
}

fn parse_op(ws: &[&str]) -> Option<Op> {
    if ws.len() < 4 {
        return None;
    }
    let epoch: u64 = ws[0].parse().ok()?;
    let time: u64 = ws[1].parse().ok()?;
    let sender = actor_idx(ws[2])?;
    if ws[3] == "reenter" {
        if ws.len() < 8 {
            return None;
        }
        let trig: u8 = match ws[4] {
            "t1" => 1,
            "t2" => 2,
            "t3" => 3,
            "t4" => 4,
            _ => return None,
        };
        let catch = match ws[5] {
            "plain" => false,
            "catch" => true,
            _ => return None,
        };
        let sep = ws.iter().position(|t| *t == "--")?;
        if sep < 7 || sep + 1 >= ws.len() {
            return None;
        }
        let (inner, ioffers) = parse_body(&ws[6..sep])?;
        let (outer, offers) = parse_body(&ws[sep + 1..])?;
        return Some(Op { epoch, time, sender, k: OpK::Reenter { trig, catch, inner: Box::new(inner), ioffers, outer: Box::new(outer) }, offers });
    }
    let (k, offers) = parse_body(&ws[3..])?;
    Some(Op { epoch, time, sender, k, offers })
}

// ------------------------------------------------------------------------------------------------
// engine
// ------------------------------------------------------------------------------------------------
#[derive(Default)]
pub struct Incentive {
    w: Option<World>,
    // generator state of the current case
    g_epoch: u64,
    g_time: u64,
    g_len: u64,
    g_snap_mode: u64,
    g_new_epoch: bool,
    /// claim-cap boundary scenario: this actor claims next (its pending epochs were set to 99/100/101)
    g_force_claim: Option<usize>,
    /// scripted scenario: op lines (without the `<epoch> <time>` prefix) emitted next, each with the
    /// number of epochs and seconds to advance BEFORE it (reversed: popped from the end)
    g_script: Vec<(u64, u64, String)>,
    g_scen_done: [bool; 6],
    /// the line `gen_plain_line` returned last came from a script / a forced continuation
    g_last_scripted: bool,
}

fn sum_pos(o: &Obs) -> Option<u128> {
    let mut s = 0u128;
    for p in o.pos.iter() {
        match p {
            Q::Ok((op, cl)) => {
                for x in op {
                    s += x.1;
                }
                for x in cl {
                    s += x.0;
                }
            }
            _ => return None,
        }
    }
    Some(s)
}

fn flow_liab(o: &Obs, a: usize) -> u128 {
    o.flows.iter().filter(|f| f.asset == a).map(|f| f.funded().saturating_sub(f.claimed)).sum()
}

impl Incentive {
    fn init(&mut self, ws: &[&str], mon: &mut Monitor) -> String {
        let mut kv: BTreeMap<&str, &str> = BTreeMap::new();
        for t in ws {
            if let Some((k, v)) = t.split_once('=') {
                kv.insert(k, v);
            }
        }
        let num = |k: &str| -> Option<u128> { kv.get(k).and_then(|v| v.parse().ok()) };
        let cfg = (|| {
            Some(Cfg {
                lp_native: match *kv.get("lp")? {
                    "native" => true,
                    "cw20" => false,
                    _ => return None,
                },
                fee_asset: num("fee")? as usize,
                fee_amt: num("feeamt")?,
                max_flows: num("maxflows")? as u64,
                buffer: num("buffer")? as u64,
                min_dur: num("mindur")? as u64,
                max_dur: num("maxdur")? as u64,
                e0: num("e0")? as u64,
                dn: match kv.get("dn") {
                    None => 0,
                    Some(v) => v.parse::<u8>().ok().filter(|d| *d <= 3)?,
                },
            })
        })();
        let cfg = match cfg {
            Some(c) if c.fee_asset < NA && !dead(&c, c.fee_asset) && c.max_flows > 0 && c.min_dur <= c.max_dur => c,
            _ => return "bad-op".into(),
        };
        mon.stat(&format!("cfg_lp_{}", if cfg.lp_native { "native" } else { "cw20" }));
        mon.stat(&format!("cfg_fee_asset_{}", cfg.fee_asset));
        let mut w = World::new(cfg);
        let o = w.observe();
        let line = render("ok", &o);
        self.monitors_state(&o, &[0; NA], mon);
        w.monitor_flow_query(&o, mon);
        w.prev = o;
        self.w = Some(w);
        line
    }

    /// state monitors (hold after every op, successful or not)
    fn monitors_state(&self, o: &Obs, taint: &[u8; NA], mon: &mut Monitor) {
        // C11 custody: LP held = positions + unclaimed flow funds denominated in the LP asset
        if let Some(sp) = sum_pos(o) {
            let base = sp + flow_liab(o, 0);
            mon.check("C11", "custody_ge", o.bal[0][0] >= base, || {
                format!("incentive LP balance {} < positions {} + LP-asset flows {}", o.bal[0][0], sp, flow_liab(o, 0))
            });
            // the equation as stated, strictly: the generator attaches no LP coins to calls that take no LP, and an
            // over-paid flow fee in the LP denom is refunded whatever the flow asset is (monitor
            // open_flow_refunds_overpaid_fee), so nothing but positions and LP-asset flows may sit in the balance
            let tag = if taint[0] != 0 { "after_unbacked_flow_expansion" } else { "" };
            mon.check_tag("C11", "custody_eq", tag, o.bal[0][0] == base, || {
                format!("incentive LP balance {} != positions {} + LP-asset flows {}", o.bal[0][0], sp, flow_liab(o, 0))
            });
        }
        // C11 helper keeps nothing
        mon.check("C11", "helper_keeps_nothing", o.bal[HELPER].iter().all(|x| *x == 0), || format!("helper balances {:?}", o.bal[HELPER]));
        // C12 every asset: holdings cover the flows' funded - claimed (plus positions for the LP asset)
        for a in 0..NA {
            let liab = flow_liab(o, a) + if a == 0 { sum_pos(o).unwrap_or(0) } else { 0 };
            let tag = if taint[a] != 0 { "after_unbacked_flow_expansion" } else { "" };
            mon.check_tag("C12", "flow_backed", tag, o.bal[0][a] >= liab, || {
                format!("asset {a}: incentive holds {} < flow funded-claimed (+positions) {}", o.bal[0][a], liab)
            });
        }
        for f in o.flows.iter() {
            mon.check("C12", "claims_le_funded", f.claimed <= f.funded(), || format!("flow {} claimed {} > funded {}", f.id, f.claimed, f.funded()));
        }
        // C13 global weight = sum of address weights
        let s: u128 = o.aw.iter().sum();
        mon.check("C13", "global_eq_sum", o.gw == s, || format!("GLOBAL_WEIGHT {} != sum of ADDRESS_WEIGHT {} ({:?})", o.gw, s, o.aw));
        // C13 weight >= amount; monotone across the positions that exist
        let mut all: Vec<(u64, u128, u128)> = vec![];
        for p in o.pos.iter() {
            if let Q::Ok((op, _)) = p {
                for x in op {
                    mon.check("C13", "position_weight_ge_amount", x.2 >= x.1, || format!("position {:?}", x));
                    all.push(*x);
                }
            }
        }
        for x in all.iter() {
            for y in all.iter() {
                if x.0 <= y.0 && x.1 <= y.1 {
                    mon.check("C13", "position_weight_monotone", x.2 <= y.2, || format!("{:?} vs {:?}", x, y));
                }
            }
        }
        // C13 shares as reported by the share query add up to at most 100%
        let mut tot_w = 0u128;
        let mut tot_sh = 0u128;
        let mut g = None;
        let mut all_ok = true;
        for s in o.share.iter() {
            match s {
                Q::Ok((w, gg, sh)) => {
                    tot_w += *w;
                    tot_sh = tot_sh.saturating_add(sh.parse::<u128>().unwrap_or(u128::MAX));
                    g = Some(*gg);
                }
                Q::Err => all_ok = false,
                Q::Panic => {
                    all_ok = false;
                    mon.stat("share_query_panics");
                }
            }
        }
        if let (true, Some(g)) = (all_ok, g) {
            if g > 0 {
                mon.check_tag("C13", "shares_le_one", "share_query", tot_w <= g && tot_sh <= 1_000_000_000_000_000_000, || {
                    format!("epoch {}: share query weights sum {} > snapshot {} (share atomics sum {})", o.epoch, tot_w, g, tot_sh)
                });
                mon.stat("shares_checked");
            }
        }
    }

    fn exec_op(&mut self, op: &Op, mon: &mut Monitor) -> String {
        let w = self.w.as_mut().unwrap();
        // a token that does not exist cannot be offered (no allowance can be set on it)
        if op.offers.iter().any(|o| dead(&w.cfg, o.0)) {
            return "bad-op".into();
        }
        w.steps += 1;
        w.set_epoch(op.epoch);
        w.app.update_block(|b| {
            b.time = Timestamp::from_seconds(op.time);
            b.height += 1;
        });
        let sender = w.addr[op.sender].clone();
        // a re-entrant transaction: the op sent by the line's sender is `outer`
        let (eff_k, hook): (&OpK, Option<(u8, bool, &OpK, &Vec<(usize, u128)>)>) = match &op.k {
            OpK::Reenter { trig, catch, inner, ioffers, outer } => (outer.as_ref(), Some((*trig, *catch, inner.as_ref(), ioffers))),
            k => (k, None),
        };
        if let Some((_, _, inner, ioffers)) = &hook {
            if ioffers.iter().any(|o| dead(&w.cfg, o.0)) || matches!(inner, OpK::Reenter { .. }) || matches!(eff_k, OpK::Reenter { .. }) {
                return "bad-op".into();
            }
        }
        let target = w.target_of(eff_k);
        // offers: cw20 -> allowance to the called contract; native -> funds
        for a in 0..NA {
            let off = op.offers.iter().find(|o| o.0 == a).map(|o| o.1).unwrap_or(0);
            if !kind_native(&w.cfg, a) && !dead(&w.cfg, a) {
                w.set_allowance(&sender, &target, a, off);
            }
        }
        let funds = w.funds_of(&op.offers);
        // arm the hostile pool token: what mallory sends from inside the transfer, and its allowances
        if let Some((trig, catch, inner, ioffers)) = &hook {
            let itarget = w.target_of(inner);
            let allow: Vec<(String, String, Uint128)> = (0..NA)
                .filter(|a| !kind_native(&w.cfg, *a) && !dead(&w.cfg, *a))
                .map(|a| {
                    let want = ioffers.iter().find(|o| o.0 == a).map(|o| o.1).unwrap_or(0);
                    (w.token[a].clone().unwrap().to_string(), itarget.to_string(), Uint128::new(want))
                })
                .collect();
            let imsg: CosmosMsg = w.wasm_exec(inner, w.funds_of(ioffers)).into();
            let puppet = w.addr[MALLORY].clone();
            let tok = w.token[3].clone().unwrap();
            w.app.execute_contract(Addr::unchecked("owner"), puppet.clone(), &hostile::PuppetMsg::Reset {}, &[]).unwrap();
            w.app
                .wasm_sudo(
                    tok,
                    &hostile::TokenSudo::Arm {
                        trigger: *trig,
                        helper: w.addr[HELPER].to_string(),
                        puppet: puppet.to_string(),
                        inner: to_json_binary(&hostile::PuppetMsg::Inner { allow, msg: imsg, catch: *catch }).unwrap(),
                    },
                )
                .unwrap();
        }
        // a fresh pre-state (the epoch may have changed what the queries answer; storage, positions and balances
        // are as the last observation has them)
        let pre = w.observe_from(Some(&w.prev));
        // weight oracle: the weight in effect for an epoch is the live address weight before the first
        // operation of that epoch (epochs without operations inherit it)
        if op.epoch > w.obs_epoch && op.epoch - w.obs_epoch <= ORACLE_SPAN && pre.aw.len() == NACT {
            for e in w.obs_epoch + 1..=op.epoch {
                for i in 1..=NACT {
                    w.eff_w.insert((i, e), pre.aw[i - 1]);
                }
            }
        }
        if op.epoch > w.obs_epoch {
            w.obs_epoch = op.epoch;
        }
        if let Some(g) = pre.snap {
            w.snap_seen.insert(pre.epoch, g);
        }
        let quoted = if matches!(eff_k, OpK::Claim) { Some(w.q_rewards(&sender)) } else { None };
        let out: Outcome<()> = {
            let msg: CosmosMsg = w.wasm_exec(eff_k, funds).into();
            let app = &mut w.app;
            guarded(|| app.execute(sender.clone(), msg).map(|_| ()).map_err(|e| e.root_cause().to_string()))
        };
        // what became of the armed hook: not triggered / nested message went through / refused and caught
        let fired: Option<u8> = if hook.is_some() {
            let tok = w.token[3].clone().unwrap();
            let hit = w
                .app
                .wrap()
                .query_wasm_raw(&tok, b"hostile_fired".to_vec())
                .unwrap()
                .map(|v| cosmwasm_std::from_json::<bool>(&v).unwrap())
                .unwrap_or(false);
            let last = w
                .app
                .wrap()
                .query_wasm_raw(&w.addr[MALLORY], b"puppet_last".to_vec())
                .unwrap()
                .map(|v| cosmwasm_std::from_json::<Option<bool>>(&v).unwrap())
                .unwrap_or(None);
            w.app.wasm_sudo(tok, &hostile::TokenSudo::Disarm {}).unwrap();
            match (&out, hit, last) {
                (Outcome::Ok(_), false, _) => Some(0),
                (Outcome::Ok(_), true, Some(true)) => Some(1),
                (Outcome::Ok(_), true, Some(false)) => Some(2),
                // fired, but the nested message left no record although the transaction went through
                (Outcome::Ok(_), true, None) => Some(9),
                _ => None,
            }
        } else {
            None
        };
        let (tag, ok) = match &out {
            Outcome::Ok(_) => ("ok", true),
            Outcome::Err(e) => {
                // error kind statistics (never compared)
                let kind: String = e.split(|c: char| !c.is_alphanumeric()).filter(|t| !t.is_empty() && t.chars().all(|c| c.is_alphabetic())).take(3).collect::<Vec<_>>().join("_");
                mon.stat(&format!("err_{}", &kind[..kind.len().min(40)]));
                ("err", false)
            }
            Outcome::Panic => ("panic", false),
        };
        let post = w.observe();
        let cfg = w.cfg.clone();
        // from here on `op` is the plain op the transaction is judged / book-kept as: a re-entrant transaction whose
        // nested message did not go through (not triggered, or refused and caught) is the plain outer op; one whose
        // nested message went through is book-kept as mallory's nested op (flow resets, claims: the outer op is a
        // helper deposit, which needs none) and judged by `monitors_reenter`
        let orig = op;
        let eff: Op = match (&orig.k, fired) {
            (OpK::Reenter { inner, ioffers, .. }, Some(1)) => {
                Op { epoch: orig.epoch, time: orig.time, sender: MALLORY, k: inner.as_ref().clone(), offers: ioffers.clone() }
            }
            (OpK::Reenter { outer, .. }, _) => {
                Op { epoch: orig.epoch, time: orig.time, sender: orig.sender, k: outer.as_ref().clone(), offers: orig.offers.clone() }
            }
            _ => orig.clone(),
        };
        let op = &eff;
        if let OpK::Reenter { trig, catch, inner, outer, .. } = &orig.k {
            let name = |k: &OpK| -> &'static str {
                match k {
                    OpK::OpenPos { .. } => "open_position",
                    OpK::ExpandPos { .. } => "expand_position",
                    OpK::ClosePos { .. } => "close_position",
                    OpK::Withdraw => "withdraw",
                    OpK::Claim => "claim",
                    OpK::Snapshot => "snapshot",
                    OpK::OpenFlow { .. } => "open_flow",
                    OpK::ExpandFlow { .. } => "expand_flow",
                    OpK::CloseFlow { .. } => "close_flow",
                    OpK::HelperDeposit { x0: 1, x1: 3, .. } => "helper_deposit",
                    OpK::HelperDeposit { .. } => "helper_deposit_as",
                    OpK::Reenter { .. } => "reenter",
                }
            };
            let f = match fired {
                Some(0) => "not_triggered",
                Some(1) => "nested_went_through",
                Some(2) => "nested_refused_and_caught",
                Some(_) => "fired_without_record",
                None => "transaction_failed",
            };
            mon.stat(&format!("reenter_t{trig}_{}_{f}", if *catch { "catch" } else { "plain" }));
            mon.stat(&format!("reenter_inner_{}_{f}", name(inner)));
            mon.stat(&format!("reenter_outer_{}_{f}", name(outer)));
            if let (OpK::HelperDeposit { dur: di, .. }, OpK::HelperDeposit { dur: d, .. }, Some(1)) = (inner.as_ref(), outer.as_ref(), fired) {
                mon.stat(if orig.sender == MALLORY { "reenter_nested_deposit_same_user" } else { "reenter_nested_deposit_other_user" });
                mon.stat(if di == d { "reenter_nested_deposit_same_duration" } else { "reenter_nested_deposit_other_duration" });
            }
            mon.check("C11", "hook_outcome_recorded", fired != Some(9), || "the hostile token fired but its nested message left no record although the transaction went through".into());
        }
        // ops that name an asset in the wrong kind (statistics: how often, how paid, how answered)
        {
            let paid_in = |a: usize| op.offers.iter().any(|o| o.0 == a);
            let how = |named: usize| -> String {
                let own = paid_in(named);
                let other = paid_in(twin(named));
                format!(
                    "{}_{}_{}",
                    if kind_native(&cfg, named) { "denom_spelling_a_token" } else { "token_spelling_a_denom" },
                    match (own, other) {
                        (true, true) => "paid_in_both_kinds",
                        (true, false) => "paid_in_the_named_kind",
                        (false, true) => "paid_in_the_other_kind",
                        (false, false) => "unpaid",
                    },
                    tag
                )
            };
            match &op.k {
                OpK::OpenFlow { asset, .. } if *asset >= NB => mon.stat(&format!("open_flow_naming_{}", how(*asset))),
                OpK::ExpandFlow { id, asset, .. } => {
                    if let Some(f) = pre.flows.iter().find(|f| f.id == *id) {
                        if f.asset < NA && *asset == twin(f.asset) {
                            mon.stat(&format!("expand_flow_naming_the_other_kind_{}", how(*asset)));
                        }
                    }
                }
                OpK::HelperDeposit { x0, x1, .. } if (*x0, *x1) != (1, 3) => mon.stat(&format!("helper_deposit_naming_wrong_kind_{tag}")),
                _ => {}
            }
            if matches!(op.k, OpK::OpenPos { .. } | OpK::ExpandPos { .. }) && paid_in(5) {
                mon.stat(&format!("position_offered_lookalike_lp_coins_{tag}"));
            }
        }
        let last_claim = w.last_claim_ok.get(&op.sender).cloned();
        if ok {
            if let OpK::Claim = op.k {
                w.last_claim_ok.insert(op.sender, op.epoch);
            }
        }
        w.prev = post.clone();
        if let Some(g) = post.snap {
            w.snap_seen.insert(post.epoch, g);
        }
        let mut line = render(tag, &post);
        if matches!(orig.k, OpK::Reenter { .. }) {
            line.push_str(&match fired {
                Some(f) => format!(" fired={f}"),
                None => " fired=-".to_string(),
            });
        }
        // ---------------- bookkeeping used to tag / attribute ----------------
        let mut expand_tag = String::new();
        if let (true, OpK::ExpandFlow { id, asset, .. }) = (ok, &op.k) {
            if let Some(f0) = pre.flows.iter().find(|f| f.id == *id) {
                let exp_end = f0.hist.last().map(|h| h.2).unwrap_or(f0.end);
                let reset = exp_end.saturating_sub(f0.start) > 180;
                let _ = asset;
                let native = kind_native(&cfg, f0.asset);
                expand_tag = match (native, reset, f0.hist.is_empty()) {
                    (false, true, true) => "cw20_reset_empty_history".to_string(),
                    (false, true, false) => "cw20_reset".to_string(),
                    (false, false, _) => "cw20".to_string(),
                    (true, true, true) => "native_reset_empty_history".to_string(),
                    (true, true, false) => "native_reset".to_string(),
                    (true, false, _) => "native".to_string(),
                };
                // remember (for tagging later ledger failures only) that this asset's flow ledger and the
                // contract's balance moved apart in this expansion
                if let Some(f1) = post.flows.iter().find(|f| f.id == *id) {
                    let d_liab = (f1.funded() as i128 - f1.claimed as i128) - (f0.funded() as i128 - f0.claimed as i128);
                    if f0.asset < NA {
                        let recv = post.bal[0][f0.asset] as i128 - pre.bal[0][f0.asset] as i128;
                        if recv != d_liab {
                            w.taint[f0.asset] |= 1;
                        }
                    }
                }
                if reset {
                    // the flow's emission ledger starts over: drop what was attributed so far
                    let keys: Vec<(u64, u64)> = w.paid_by_epoch.keys().filter(|k| k.0 == *id).cloned().collect();
                    for k in keys {
                        w.paid_by_epoch.remove(&k);
                    }
                    w.paid_by_epoch.insert((*id, op.epoch), (0, true));
                    let keys: Vec<(u64, u64)> = w.paid_all.keys().filter(|k| k.0 == *id).cloned().collect();
                    for k in keys {
                        w.paid_all.remove(&k);
                    }
                }
            }
        }
        let mut epoch_payouts: Vec<(u64, u128, u128)> = vec![]; // (flow, paid so far in this epoch, emission)
        let mut all_payouts: Vec<(u64, u64, u128, u128)> = vec![]; // (flow, epoch, paid by all claims, emission)
        let mut unjustified: Vec<(u64, u128, u128)> = vec![]; // (flow, paid, of which not justified by the weights in effect)
        if let (true, OpK::Claim) = (ok, &op.k) {
            let single = last_claim == Some(op.epoch.wrapping_sub(1));
            for f in post.flows.iter() {
                let c0 = pre.flows.iter().find(|g| g.id == f.id).map(|g| g.claimed).unwrap_or(0);
                let d = f.claimed.saturating_sub(c0);
                if d == 0 {
                    continue;
                }
                // EVERY claim (also multi-epoch and first-ever ones): attribute what was paid to the epochs
                // it can be for -- from the flow's start or the claimer's last claim + 1 up to now -- by the
                // weight in effect and the snapshot the harness observed for each epoch (earliest first);
                // whatever these do not justify is charged to the last claimable epoch
                {
                    let first = last_claim.map(|l| l + 1).unwrap_or(0).max(f.start);
                    if op.epoch.saturating_sub(first) > ORACLE_SPAN {
                        mon.stat("claims_all_epochs_range_too_long");
                    } else {
                        let mut rest = d;
                        let mut last_e = None;
                        let mut touched: Vec<u64> = vec![];
                        for e in first..=op.epoch {
                            let cap = f.emission_cap(e);
                            if cap == 0 {
                                continue;
                            }
                            last_e = Some(e);
                            let wgt = w.eff_w.get(&(op.sender, e)).cloned().unwrap_or(0);
                            let g = w.snap_seen.get(&e).cloned().unwrap_or(0);
                            let due = share_of(cap, wgt, g);
                            let take = due.min(rest);
                            if take > 0 {
                                *w.paid_all.entry((f.id, e)).or_insert(0) += take;
                                rest -= take;
                                touched.push(e);
                            }
                        }
                        if rest > 0 {
                            let e = last_e.unwrap_or(op.epoch);
                            *w.paid_all.entry((f.id, e)).or_insert(0) += rest;
                            touched.push(e);
                            mon.stat("claims_all_epochs_unjustified_rest");
                        }
                        unjustified.push((f.id, d, rest));
                        touched.dedup();
                        for e in touched {
                            all_payouts.push((f.id, e, w.paid_all[&(f.id, e)], f.emission_cap(e)));
                        }
                        mon.stat(if single { "claims_all_epochs_single" } else { "claims_all_epochs_multi" });
                    }
                }
                if single {
                    let ent = w.paid_by_epoch.entry((f.id, op.epoch)).or_insert((0, false));
                    ent.0 += d;
                    if !ent.1 {
                        let emission = f.emission_cap(op.epoch);
                        epoch_payouts.push((f.id, ent.0, emission));
                    }
                } else {
                    let first = last_claim.map(|l| l + 1).unwrap_or(0).max(f.start);
                    let lo = first.max(op.epoch.saturating_sub(400));
                    for e in lo..=op.epoch {
                        w.paid_by_epoch.entry((f.id, e)).or_insert((0, true)).1 = true;
                    }
                }
            }
        }
        let taint = w.taint;
        // how long the per-address histories / how many flows of the states visited are (statistics only)
        for p in post.pos.iter() {
            if let Q::Ok((o, c)) = p {
                if c.len() > 32 {
                    mon.stat("obs_address_with_closed_positions_33_plus");
                }
                if o.len() >= 16 {
                    mon.stat("obs_address_with_open_positions_16_plus");
                }
            }
        }
        if post.flows.len() >= 5 {
            mon.stat("obs_flows_5_plus");
        }
        if post.flows.len() as u64 == cfg.max_flows {
            mon.stat("obs_flows_at_max_concurrent_flows");
        }
        if post.flows.iter().any(|f| f.asset >= NB) {
            mon.stat("obs_flow_in_lookalike_asset");
        }
        // ---------------- monitors ----------------
        w.monitor_flow_query(&post, mon);
        self.monitors_state(&post, &taint, mon);
        for (id, paid, emission) in epoch_payouts {
            mon.check_tag("C13", "shares_le_one", "claims", paid <= emission, || {
                format!("epoch {}: single-epoch claims on flow {id} add up to {paid} > the epoch's emission {emission}", op.epoch)
            });
        }
        for (id, paid, rest) in unjustified {
            mon.check_tag("C13", "shares_le_one", "claim_vs_weights_in_effect", rest == 0, || {
                format!(
                    "claim by {} in epoch {} was paid {paid} on flow {id}; the weights in effect for the claimed epochs (live address weight before each epoch's first operation) and the observed snapshots justify only {}",
                    ACCTS[op.sender], op.epoch, paid - rest
                )
            });
        }
        for (id, e, paid, emission) in all_payouts {
            mon.check_tag("C13", "shares_le_one", "claims_all_epochs", paid <= emission, || {
                format!(
                    "flow {id} epoch {e}: the payouts of all claims attributed to this epoch (weights in effect and snapshots as observed by the harness) add up to {paid} > the epoch's emission {emission} (claim by {} in epoch {})",
                    ACCTS[op.sender], op.epoch
                )
            });
        }
        if fired == Some(1) {
            Self::monitors_reenter(&cfg, orig, &pre, &post, mon);
        } else {
            Self::monitors_step(&cfg, op, ok, &pre, &post, quoted, last_claim, &expand_tag, mon);
        }
        Self::monitor_closed_world(&pre, &post, mon);
        line
    }

    #[allow(clippy::too_many_arguments)]
    fn monitors_step(
        cfg: &Cfg,
        op: &Op,
        ok: bool,
        pre: &Obs,
        post: &Obs,
        quoted: Option<Q<Vec<(usize, u128)>>>,
        last_claim: Option<u64>,
        expand_tag: &str,
        mon: &mut Monitor,
    ) {
        let u = op.sender; // ACCTS index
        let ai = u - 1; // actor index
        let dbal = |acct: usize, a: usize| -> i128 { post.bal[acct][a] as i128 - pre.bal[acct][a] as i128 };
        if !ok {
            // all-or-nothing: a failed op changes nothing observable
            let same = pre.gw == post.gw
                && pre.aw == post.aw
                && pre.pos == post.pos
                && pre.flows == post.flows
                && pre.bal == post.bal
                && pre.snap == post.snap
                && pre.rewards == post.rewards
                && pre.share == post.share;
            for p in ["C11", "C12", "C13"] {
                mon.check(p, "failed_op_changes_nothing", same, || format!("op {:?} failed but state changed", op.k));
            }
            return;
        }
        let pos_of = |o: &Obs, i: usize| -> (Vec<(u64, u128, u128)>, Vec<(u128, u64)>) {
            match &o.pos[i] {
                Q::Ok(p) => p.clone(),
                _ => (vec![], vec![]),
            }
        };
        let tot = |o: &Obs, i: usize| -> u128 {
            let p = pos_of(o, i);
            p.0.iter().map(|x| x.1).sum::<u128>() + p.1.iter().map(|x| x.0).sum::<u128>()
        };
        // C11: whenever the recorded positions grow, the contract received exactly that much LP and
        // the sender (or, through the helper, the pair) paid it
        let grow: i128 = (0..NACT).map(|i| tot(post, i) as i128 - tot(pre, i) as i128).sum();
        let lp_flow_delta = flow_liab(post, 0) as i128 - flow_liab(pre, 0) as i128;
        if grow > 0 {
            mon.check("C11", "position_only_on_receipt", dbal(0, 0) - lp_flow_delta == grow, || {
                format!("positions grew by {grow} but the contract's LP balance by {} (LP-asset flow change {})", dbal(0, 0), lp_flow_delta)
            });
        }
        match &op.k {
            OpK::OpenPos { amount, dur, recv } | OpK::ExpandPos { amount, dur, recv } => {
                let r = recv.unwrap_or(u) - 1;
                let is_open = matches!(op.k, OpK::OpenPos { .. });
                let before = pos_of(pre, r).0.iter().find(|x| x.0 == *dur).map(|x| x.1);
                let after = pos_of(post, r).0.iter().find(|x| x.0 == *dur).map(|x| x.1);
                let good = if is_open { before.is_none() && after == Some(*amount) } else { before.is_some() && after == before.map(|b| b + *amount) };
                mon.check("C11", "position_records_stated_amount", good, || format!("{:?}: position {:?} -> {:?}", op.k, before, after));
                mon.check("C11", "position_lp_received", dbal(0, 0) == *amount as i128 && dbal(u, 0) == -(*amount as i128), || {
                    format!("{:?}: contract LP {:+}, sender LP {:+}", op.k, dbal(0, 0), dbal(u, 0))
                });
                // nobody else's positions move
                for i in 0..NACT {
                    if i != r {
                        mon.check("C11", "others_untouched", pre.pos[i] == post.pos[i], || format!("{:?} changed positions of {}", op.k, ACTORS[i]));
                    }
                }
                mon.stat(if recv.is_some() && *recv != Some(u) { "deposit_for_receiver" } else { "deposit_for_self" });
                let in_range = *dur >= MIN_D && *dur <= MAX_D;
                mon.check("C13", "position_duration_allowed", *dur >= cfg.min_dur && *dur <= cfg.max_dur && in_range || !is_open, || {
                    format!("position opened with duration {dur} outside the allowed range")
                });
            }
            OpK::ClosePos { dur } => {
                let p0 = pos_of(pre, ai);
                let p1 = pos_of(post, ai);
                let closed_amt = p0.0.iter().find(|x| x.0 == *dur).map(|x| x.1);
                let good = closed_amt.is_some()
                    && p1.0.iter().all(|x| x.0 != *dur)
                    && p1.1.iter().map(|x| x.0).sum::<u128>() == p0.1.iter().map(|x| x.0).sum::<u128>() + closed_amt.unwrap_or(0)
                    && p1.1.iter().any(|x| Some(x.0) == closed_amt && x.1 == op.time + *dur);
                mon.check("C11", "close_moves_whole_position", good, || format!("close {dur}: {:?} -> {:?}", p0, p1));
                mon.check("C11", "close_moves_no_tokens", (0..NACC).all(|a| dbal(a, 0) == 0), || "close_position moved LP tokens".into());
                for i in 0..NACT {
                    if i != ai {
                        mon.check("C11", "others_untouched", pre.pos[i] == post.pos[i], || format!("close changed positions of {}", ACTORS[i]));
                    }
                }
            }
            OpK::Withdraw => {
                let p0 = pos_of(pre, ai);
                let p1 = pos_of(post, ai);
                let owed: u128 = p0.1.iter().map(|x| x.0).sum();
                mon.check("C11", "withdraw_exact", dbal(u, 0) == owed as i128 && dbal(0, 0) == -(owed as i128) && p1.1.is_empty() && p1.0 == p0.0, || {
                    format!("withdraw: closed positions {:?}, user LP {:+}, contract LP {:+}, closed after {:?}", p0.1, dbal(u, 0), dbal(0, 0), p1.1)
                });
                for i in 0..NACT {
                    if i != ai {
                        mon.check("C11", "others_untouched", pre.pos[i] == post.pos[i] && dbal(i + 1, 0) == 0, || {
                            format!("withdraw by {} changed positions/LP of {}", ACTORS[ai], ACTORS[i])
                        });
                    }
                }
                // whatever subset a withdrawal pays: it pays exactly the closed positions it removes (the ones left are
                // among those that were there), to the sender, out of the contract
                let mut left = p0.1.clone();
                let mut subset = true;
                for x in p1.1.iter() {
                    match left.iter().position(|y| y == x) {
                        Some(i) => {
                            left.remove(i);
                        }
                        None => subset = false,
                    }
                }
                let removed = left.iter().fold(0u128, |acc, x| acc.saturating_add(x.0));
                mon.check("C11", "withdraw_pays_what_it_removes", subset && dbal(u, 0) == removed as i128 && dbal(0, 0) == -(removed as i128), || {
                    format!(
                        "withdraw with {} closed positions: {} left afterwards, the removed ones add up to {removed}, user LP {:+}, contract LP {:+}",
                        p0.1.len(),
                        p1.1.len(),
                        dbal(u, 0),
                        dbal(0, 0)
                    )
                });
                let immature = p0.1.iter().filter(|x| x.1 > op.time).count();
                if immature > 0 {
                    mon.stat("withdraw_before_unbonding_timestamp");
                }
                if immature > 0 && immature < p0.1.len() {
                    mon.stat("withdraw_with_unlock_times_partly_passed");
                }
                mon.stat(match p0.1.len() {
                    0 => "withdraw_with_closed_positions_0",
                    1 => "withdraw_with_closed_positions_1",
                    2..=8 => "withdraw_with_closed_positions_2_8",
                    9..=32 => "withdraw_with_closed_positions_9_32",
                    33..=64 => "withdraw_with_closed_positions_33_64",
                    _ => "withdraw_with_closed_positions_65_plus",
                });
                mon.stat(match p0.0.len() {
                    0..=3 => "withdraw_with_open_positions_0_3",
                    4..=15 => "withdraw_with_open_positions_4_15",
                    _ => "withdraw_with_open_positions_16_plus",
                });
                if owed > 0 {
                    mon.stat("withdraw_nonzero");
                }
            }
            OpK::HelperDeposit { x0, x1, .. } if (*x0, *x1) != (1, 3) => {
                // the deposited assets were named in the wrong kind: neither the helper (allowance query on a
                // token that does not exist) nor the pair (not its assets) lets that through
                mon.check("C11", "helper_wrong_kind_deposit_refused", false, || {
                    format!("helper deposit naming assets {x0}, {x1} (pair assets are 1, 3) was accepted")
                });
            }
            OpK::HelperDeposit { a0, a1, dur, .. } => {
                let lp = *a0 + *a1;
                let before = pos_of(pre, ai).0.iter().find(|x| x.0 == *dur).map(|x| x.1).unwrap_or(0);
                let after = pos_of(post, ai).0.iter().find(|x| x.0 == *dur).map(|x| x.1).unwrap_or(0);
                mon.check("C11", "helper_position_for_depositor", after == before + lp && dbal(0, 0) == lp as i128, || {
                    format!("helper deposit lp {lp}: position {before} -> {after}, contract LP {:+}", dbal(0, 0))
                });
                let off1 = op.offers.iter().find(|o| o.0 == 1).map(|o| o.1).unwrap_or(0) as i128;
                mon.check("C11", "helper_forwards_assets", dbal(u, 1) == -off1 && dbal(u, 3) == -(*a1 as i128) && dbal(PAIR, 1) == off1 && dbal(PAIR, 3) == *a1 as i128, || {
                    format!("helper deposit: user uwhale {:+} cw20A {:+}; pair uwhale {:+} cw20A {:+}", dbal(u, 1), dbal(u, 3), dbal(PAIR, 1), dbal(PAIR, 3))
                });
                mon.stat("helper_deposit_ok");
            }
            OpK::OpenFlow { asset, .. } => {
                let newf: Vec<&FlowObs> = post.flows.iter().filter(|f| pre.flows.iter().all(|g| g.id != f.id)).collect();
                mon.check("C12", "open_creates_one_flow", newf.len() == 1 && post.flows.len() == pre.flows.len() + 1, || "open_flow did not add exactly one flow".into());
                if let Some(f) = newf.first() {
                    let fee = cfg.fee_amt as i128;
                    let funded = f.funded() as i128;
                    let a = *asset;
                    mon.check_tag("C12", "open_exact", &format!("flow{}fee{}", a, cfg.fee_asset), dbal(0, a) == funded && f.asset == a && f.claimed == 0, || {
                        format!("open_flow asset {a}: funded {funded} but contract received {:+}", dbal(0, a))
                    });
                    mon.check("C12", "open_fee_to_collector", dbal(COLLECTOR, cfg.fee_asset) == fee, || {
                        format!("fee {} of asset {}: collector got {:+}", fee, cfg.fee_asset, dbal(COLLECTOR, cfg.fee_asset))
                    });
                    let paid_expected = if a == cfg.fee_asset { -(funded + fee) } else { -funded };
                    mon.check("C12", "open_creator_pays_exact", dbal(u, a) == paid_expected && f.creator == ACCTS[u], || {
                        format!("creator paid {:+} of asset {a}, expected {paid_expected}", dbal(u, a))
                    });
                    // C11 (and the fee clause of C12): a fee charged in a native denom is settled exactly, from the
                    // real balances: the sender is out the fee (+ the flow amount when the flow is opened in the fee
                    // denom), the collector has the fee, the contract keeps the flow amount and nothing else -- every
                    // unit attached beyond that is back with the sender, whatever the kind of the flow asset
                    let fa = cfg.fee_asset;
                    if kind_native(cfg, fa) {
                        let flow_part = if a == fa { funded } else { 0 };
                        let paid = op.offers.iter().find(|o| o.0 == fa).map(|o| o.1 as i128).unwrap_or(0);
                        mon.check(
                            "C11",
                            "open_flow_refunds_overpaid_fee",
                            dbal(u, fa) == -(fee + flow_part) && dbal(COLLECTOR, fa) == fee && dbal(0, fa) == flow_part,
                            || {
                                format!(
                                    "open_flow in asset {a}, fee {fee} of native asset {fa}, {paid} attached: sender {:+} (expected {:+}), collector {:+} (expected {:+}), contract {:+} (expected {:+})",
                                    dbal(u, fa),
                                    -(fee + flow_part),
                                    dbal(COLLECTOR, fa),
                                    fee,
                                    dbal(0, fa),
                                    flow_part
                                )
                            },
                        );
                        if a != fa && paid > fee {
                            mon.stat(&format!("open_flow_overpaid_fee_{}_flow_asset", if kind_native(cfg, a) { "native" } else { "cw20" }));
                            if fa == 0 && !kind_native(cfg, a) {
                                mon.stat("open_flow_overpaid_fee_in_native_lp_denom_cw20_flow_asset");
                            }
                        }
                    }
                    mon.stat(&format!("open_flow_ok_asset{}_{}", a, if a == cfg.fee_asset { "eqfee" } else { "nefee" }));
                    if a >= NB {
                        mon.stat("open_flow_ok_in_lookalike_asset");
                    }
                }
                // whatever is named, only the named asset, the fee asset and what was attached can move
                let quiet = (0..NA).filter(|b| *b != *asset && *b != cfg.fee_asset && op.offers.iter().all(|o| o.0 != *b)).all(|b| (0..NACC).all(|acct| dbal(acct, b) == 0));
                mon.check("C12", "flow_op_moves_only_named_assets", quiet, || format!("open_flow in asset {asset} moved balances of an asset that was neither named, nor the fee asset, nor offered"));
                // coins attached in an asset that is neither the flow asset nor the fee asset stay with the contract
                // (a donation), they are never handed to anybody else
                for o in op.offers.iter().filter(|o| o.0 != *asset && o.0 != cfg.fee_asset) {
                    mon.check("C12", "flow_op_moves_only_named_assets", (1..NACC).all(|acct| acct == u || dbal(acct, o.0) == 0), || {
                        format!("open_flow in asset {asset}: asset {} (offered, not named) reached a third party", o.0)
                    });
                }
            }
            OpK::ExpandFlow { id, asset, amount, .. } => {
                let f0 = pre.flows.iter().find(|f| f.id == *id);
                let f1 = post.flows.iter().find(|f| f.id == *id);
                if let (Some(f0), Some(f1)) = (f0, f1) {
                    let d_liab = (f1.funded() as i128 - f1.claimed as i128) - (f0.funded() as i128 - f0.claimed as i128);
                    let tag = expand_tag.to_string();
                    // the flow's OWN asset (as the listing has it) is what must arrive, whatever the message named
                    let fa = f0.asset.min(NA - 1);
                    mon.check_tag("C12", "expand_exact", &tag, f0.asset < NA && dbal(0, fa) == d_liab && d_liab == *amount as i128, || {
                        format!(
                            "expand_flow {id} (asset {}) by {amount} of asset {asset} ({tag}): funded-claimed changed by {d_liab}, contract received {:+} of the flow's asset, sender paid {:+}",
                            f0.asset,
                            dbal(0, fa),
                            -dbal(u, fa)
                        )
                    });
                    mon.check("C12", "expand_names_the_flow_asset", f0.asset == *asset && f1.asset == f0.asset, || {
                        format!("flow {id} is denominated in asset {}; an expansion naming asset {asset} was accepted (flow asset afterwards {})", f0.asset, f1.asset)
                    });
                    let quiet = (0..NA).filter(|b| *b != fa && op.offers.iter().all(|o| o.0 != *b)).all(|b| (0..NACC).all(|acct| dbal(acct, b) == 0));
                    mon.check("C12", "flow_op_moves_only_named_assets", quiet, || format!("expand_flow {id} moved balances of an asset that is neither the flow's nor offered"));
                    mon.stat(&format!("expand_flow_ok_{tag}"));
                    if f0.asset >= NB {
                        mon.stat("expand_flow_ok_of_lookalike_flow");
                    }
                } else {
                    mon.check("C12", "expand_keeps_flow", false, || format!("flow {id} missing before or after expansion"));
                }
            }
            OpK::CloseFlow { id } => {
                let f0 = pre.flows.iter().find(|f| f.id == *id);
                mon.check("C12", "close_removes_flow", f0.is_some() && post.flows.iter().all(|f| f.id != *id) && post.flows.len() + 1 == pre.flows.len(), || {
                    format!("close_flow {id}: flows before {:?} after {:?}", pre.flows.iter().map(|f| f.id).collect::<Vec<_>>(), post.flows.iter().map(|f| f.id).collect::<Vec<_>>())
                });
                if let Some(f0) = f0 {
                    let refund = (f0.funded() - f0.claimed.min(f0.funded())) as i128;
                    let creator = ACCTS.iter().position(|a| *a == f0.creator).unwrap_or(0);
                    mon.check("C12", "close_returns_exact", dbal(creator, f0.asset) == refund && dbal(0, f0.asset) == -refund, || {
                        format!("close_flow {id}: funded {} claimed {}: creator got {:+}, contract {:+}", f0.funded(), f0.claimed, dbal(creator, f0.asset), dbal(0, f0.asset))
                    });
                    mon.check("C12", "close_auth", f0.creator == ACCTS[u] || ACCTS[u] == "owner", || {
                        format!("flow {id} of {} closed by {}", f0.creator, ACCTS[u])
                    });
                    if f0.creator != ACCTS[u] {
                        mon.stat("close_flow_by_owner");
                    }
                    if !f0.hist.is_empty() {
                        mon.stat("close_flow_expanded");
                    }
                }
            }
            OpK::Claim => {
                // paid per asset
                let mut paid = [0i128; NA];
                for a in 0..NA {
                    paid[a] = dbal(u, a);
                }
                let mut total_paid = 0i128;
                for a in 0..NA {
                    let d_claimed: i128 = post
                        .flows
                        .iter()
                        .filter(|f| f.asset == a)
                        .map(|f| f.claimed as i128 - pre.flows.iter().find(|g| g.id == f.id).map(|g| g.claimed as i128).unwrap_or(0))
                        .sum();
                    mon.check("C12", "claim_paid_from_flow_ledger", paid[a] == d_claimed && dbal(0, a) == -d_claimed, || {
                        format!("claim asset {a}: user {:+}, contract {:+}, flows' claimed {:+}", paid[a], dbal(0, a), d_claimed)
                    });
                    total_paid += paid[a];
                }
                // C13 claim = quote
                // the number of epochs the claim loop has to go through: from the epoch after the last
                // successful claim, or — for an address that never claimed — from the earlier of a flow's
                // start epoch (which may lie before the contract's first epoch) and the address's first
                // weight entry (bounded below by the contract's first epoch)
                let unclaimed_epochs = match last_claim {
                    Some(l) => op.epoch - l,
                    None => {
                        // an address with no weight entry at all starts every flow's loop at epoch 0 (the
                        // contract's `last_epoch_user_weight_update` stays 0): without a live weight the
                        // count is taken from 0, which can only exempt more claims, never fewer
                        let has_weight = pre.aw.get(ai).map(|w| *w > 0).unwrap_or(false);
                        let first = if has_weight { pre.flows.iter().map(|f| f.start).min().unwrap_or(op.epoch).min(cfg.e0) } else { 0 };
                        op.epoch + 1 - first.min(op.epoch)
                    }
                };
                match quoted {
                    Some(Q::Ok(q)) => {
                        let mut qa = [0i128; NA];
                        for (a, v) in q.iter() {
                            if *a < NA {
                                qa[*a] += *v as i128;
                            }
                        }
                        if unclaimed_epochs <= 100 {
                            mon.stat(match unclaimed_epochs { 99 => "claim_at_99_epochs", 100 => "claim_at_100_epochs", _ => "claim_below_99_epochs" });
                            mon.check("C13", "claim_eq_rewards_query", qa == paid, || format!("rewards query {:?} but claim paid {:?}", qa, paid));
                        } else {
                            mon.stat("claim_over_100_epochs");
                        }
                    }
                    Some(_) => {
                        if unclaimed_epochs <= 100 {
                            mon.check("C13", "claim_eq_rewards_query", false, || "rewards query failed immediately before a successful claim".into());
                        } else {
                            mon.stat("claim_over_100_epochs");
                        }
                    }
                    None => {}
                }
                // C13 second claim in the same epoch pays nothing
                if last_claim == Some(op.epoch) {
                    mon.check("C13", "second_claim_nothing", total_paid == 0 && paid.iter().all(|x| *x == 0), || {
                        format!("second claim in epoch {} paid {:?}", op.epoch, paid)
                    });
                }
                // C13 no claim pays more for an epoch than that epoch's emission
                for f in post.flows.iter() {
                    let c0 = pre.flows.iter().find(|g| g.id == f.id).map(|g| g.claimed).unwrap_or(0);
                    let d = f.claimed - c0.min(f.claimed);
                    if d == 0 {
                        continue;
                    }
                    let first = last_claim.map(|l| l + 1).unwrap_or(0).max(f.start);
                    let mut bound = 0u128;
                    let mut e = first;
                    while e <= op.epoch && e < first + 100 {
                        bound = bound.saturating_add(f.emission_cap(e));
                        e += 1;
                    }
                    let single = last_claim == Some(op.epoch.wrapping_sub(1));
                    mon.check_tag("C13", "claim_le_emission", if single { "single_epoch" } else { "multi_epoch" }, d <= bound, || {
                        format!("claim at epoch {} on flow {}: paid {} > emission of epochs {}..={} = {}", op.epoch, f.id, d, first, op.epoch, bound)
                    });
                }
                let paying = post.flows.iter().filter(|f| pre.flows.iter().any(|g| g.id == f.id && g.claimed < f.claimed)).count();
                if paying >= 4 {
                    mon.stat("claim_paid_from_4_plus_flows");
                }
                if (NB..NA).any(|a| paid[a] > 0) {
                    mon.stat("claim_paid_in_lookalike_asset");
                }
                if total_paid > 0 {
                    mon.stat("claim_paid_nonzero");
                } else {
                    mon.stat("claim_paid_zero");
                }
            }
            OpK::Snapshot => {
                mon.check("C13", "snapshot_is_live_global", post.snap == Some(pre.gw) && pre.snap.is_none(), || {
                    format!("explicit snapshot: {:?} vs live global {} (existing {:?})", post.snap, pre.gw, pre.snap)
                });
            }
            // never reached: a re-entrant transaction is judged as the plain op it amounts to, or by `monitors_reenter`
            OpK::Reenter { .. } => {}
        }
        // C13: the snapshot of an epoch, once taken, never changes within the epoch
        if let Some(s0) = pre.snap {
            mon.check("C13", "snapshot_immutable_in_epoch", post.snap == Some(s0), || format!("snapshot of epoch {} changed {} -> {:?}", post.epoch, s0, post.snap));
        }
    }

    /// no transaction creates or destroys tokens: the ten observed accounts are a closed world (the pair hands out
    /// LP from a pre-funded balance), so per asset the balances add up to what they added up to before
    fn monitor_closed_world(pre: &Obs, post: &Obs, mon: &mut Monitor) {
        if pre.bal.len() != NACC || post.bal.len() != NACC {
            return;
        }
        for a in 0..NA {
            let s0 = pre.bal.iter().fold(0u128, |x, b| x.wrapping_add(b[a]));
            let s1 = post.bal.iter().fold(0u128, |x, b| x.wrapping_add(b[a]));
            mon.check("C11", "conservation_across_transaction", s0 == s1, || {
                format!("asset {a}: the balances of the observed accounts added up to {s0} before and {s1} after the transaction")
            });
        }
    }

    /// a re-entrant transaction whose nested message WENT THROUGH (`fired=1`; the outer op is a helper deposit, the
    /// only path on which the hostile pool token is triggered): judged as what the property says of the two
    /// operations it consists of -- mallory's nested op, then the depositor's deposit -- on the positions and
    /// balances before and after the transaction (never on the model): the LP a deposit minted is staked, all of
    /// it, for the depositor under the depositor's duration.
    /// OBSERVATION (not a clause of C11, recorded and counted, never failed): when the nested op is itself a helper
    /// `Deposit` that went through, the helper's `TEMP_STATE` item was overwritten by it and the outer reply stakes
    /// the OUTER depositor's LP for the NESTED sender under the NESTED duration (`frontend_helper/src/contract.rs`
    /// saves the item per `Deposit`, `reply/deposit_pair.rs` loads whatever is there). C11 does not say whose
    /// position the outer LP must go to in that case, so BOTH attributions are accepted -- the depositor's own, or
    /// the one the code documents (statistic `nested_deposit_misattributed_outer_lp`) --; everything else stays
    /// strict: every unit of LP minted is staked in one of the two, nothing stays in the helper.
    fn monitors_reenter(_cfg: &Cfg, orig: &Op, pre: &Obs, post: &Obs, mon: &mut Monitor) {
        let OpK::Reenter { inner, ioffers, outer, .. } = &orig.k else { return };
        let OpK::HelperDeposit { a0, a1, dur, .. } = outer.as_ref() else {
            mon.check("C11", "hook_fires_on_the_helper_path_only", false, || format!("the hostile token fired inside {:?}", outer));
            return;
        };
        let dbal = |acct: usize, a: usize| -> i128 { post.bal[acct][a] as i128 - pre.bal[acct][a] as i128 };
        let x = orig.sender - 1; // depositor (actor index)
        let m = MALLORY - 1;
        // expected positions (amounts): the state before, mallory's nested op, then the deposit
        let mut open: Vec<Vec<(u64, u128)>> = vec![];
        let mut closed: Vec<Vec<(u128, u64)>> = vec![];
        for p in pre.pos.iter() {
            match p {
                Q::Ok((o, c)) => {
                    open.push(o.iter().map(|t| (t.0, t.1)).collect());
                    closed.push(c.clone());
                }
                _ => return,
            }
        }
        let credit = |open: &mut Vec<Vec<(u64, u128)>>, who: usize, d: u64, amt: u128| match open[who].iter_mut().find(|t| t.0 == d) {
            Some(t) => t.1 = t.1.saturating_add(amt),
            None => open[who].push((d, amt)),
        };
        match inner.as_ref() {
            OpK::OpenPos { amount, dur, recv } | OpK::ExpandPos { amount, dur, recv } => credit(&mut open, recv.unwrap_or(MALLORY) - 1, *dur, *amount),
            OpK::ClosePos { dur } => {
                if let Some(i) = open[m].iter().position(|t| t.0 == *dur) {
                    let t = open[m].remove(i);
                    closed[m].push((t.1, orig.time + *dur));
                }
            }
            OpK::Withdraw => closed[m].clear(),
            OpK::HelperDeposit { a0, a1, dur, .. } => credit(&mut open, m, *dur, a0.saturating_add(*a1)),
            _ => {}
        }
        let lp = a0.saturating_add(*a1);
        // where the reply finds receiver and duration: in the `TEMP_STATE` the last `Deposit` saved
        let (recv, rdur) = match inner.as_ref() {
            OpK::HelperDeposit { dur: di, .. } => (m, *di),
            _ => (x, *dur),
        };
        let compare = |open: &Vec<Vec<(u64, u128)>>, what: &mut String| -> bool {
            let mut good = true;
            for i in 0..NACT {
                let (mut po, mut pc) = match &post.pos[i] {
                    Q::Ok((o, c)) => (o.iter().map(|t| (t.0, t.1)).collect::<Vec<_>>(), c.clone()),
                    _ => (vec![], vec![]),
                };
                po.sort();
                pc.sort();
                let mut eo = open[i].clone();
                let mut ec = closed[i].clone();
                eo.sort();
                ec.sort();
                if po != eo || pc != ec {
                    good = false;
                    what.push_str(&format!(" {}: positions {:?} / {:?}, expected {:?} / {:?};", ACTORS[i], po, pc, eo, ec));
                }
            }
            good
        };
        // the outer LP staked for the depositor under the depositor's duration ...
        let mut own = open.clone();
        credit(&mut own, x, *dur, lp);
        let mut what = String::new();
        let mut good = compare(&own, &mut what);
        // ... or, after a nested deposit, for the receiver the overwritten `TEMP_STATE` names (the observation)
        if !good && (recv, rdur) != (x, *dur) {
            let mut doc = open.clone();
            credit(&mut doc, recv, rdur, lp);
            let mut what2 = String::new();
            if compare(&doc, &mut what2) {
                good = true;
                mon.stat("nested_deposit_misattributed_outer_lp");
            } else {
                what.push_str(" | or, credited to the nested sender:");
                what.push_str(&what2);
            }
        }
        mon.check("C11", "helper_position_for_depositor", good, || {
            format!(
                "deposit of {lp} LP by {} for duration {dur} with mallory's {:?} nested into it: the LP minted must be staked in full for the depositor{};{what}",
                ACTORS[x],
                inner,
                if (recv, rdur) != (x, *dur) { format!(" (or, the reply reading the nested deposit's TEMP_STATE, for {} under duration {rdur})", ACTORS[recv]) } else { String::new() }
            )
        });
        // the deposited assets went to the pair in full (checked when the nested op is a deposit too: other nested
        // ops may move the pool assets as fees, flow funds or rewards)
        if let OpK::HelperDeposit { a1: ia1, .. } = inner.as_ref() {
            let off1 = orig.offers.iter().find(|o| o.0 == 1).map(|o| o.1).unwrap_or(0) as i128;
            let ioff1 = ioffers.iter().find(|o| o.0 == 1).map(|o| o.1).unwrap_or(0) as i128;
            let mut exp1 = [0i128; NACC];
            let mut exp3 = [0i128; NACC];
            exp1[orig.sender] -= off1;
            exp1[MALLORY] -= ioff1;
            exp1[PAIR] += off1 + ioff1;
            exp3[orig.sender] -= *a1 as i128;
            exp3[MALLORY] -= *ia1 as i128;
            exp3[PAIR] += *a1 as i128 + *ia1 as i128;
            let okb = (0..NACC).all(|acct| dbal(acct, 1) == exp1[acct] && dbal(acct, 3) == exp3[acct]);
            mon.check("C11", "helper_forwards_assets", okb, || {
                format!(
                    "nested deposits: uwhale deltas {:?} (expected {:?}), cw20A deltas {:?} (expected {:?})",
                    (0..NACC).map(|acct| dbal(acct, 1)).collect::<Vec<_>>(),
                    exp1,
                    (0..NACC).map(|acct| dbal(acct, 3)).collect::<Vec<_>>(),
                    exp3
                )
            });
        }
        mon.stat("reenter_judged_as_two_operations");
    }

    // ------------------------------------------------------------------ generator
    fn gen_init(&mut self, rng: &mut Rng) -> String {
        let lp_native = rng.chance(1, 3);
        let fee_asset = match rng.below(10) {
            0..=3 => 1,
            4..=6 => 3,
            7 => 2,
            8 => 4,
            _ => 0,
        };
        // sometimes the fee is charged in a look-alike: the native denom that spells a cw20 token's address
        let fee_asset = if rng.chance(1, 14) {
            match rng.below(3) {
                0 if !lp_native => 5,
                1 => 9,
                _ => 8,
            }
        } else {
            fee_asset
        };
        // mostly 1..4 concurrent flows, sometimes many
        let max_flows = if rng.chance(1, 6) { rng.range(5, 12) } else { rng.range(1, 4) };
        let fee_amt = match rng.below(6) {
            0 => 0,
            1 => 1,
            2 => 1000,
            3 => 1001,
            _ => rng.log_uniform(40),
        };
        let (min_dur, max_dur) = match rng.below(8) {
            0 => (MIN_D - 1000, MAX_D + 1000),
            1 => (MIN_D, 1_000_000),
            2 => (1_000_000, MAX_D),
            _ => (MIN_D, MAX_D),
        };
        self.g_epoch = rng.range(1, 4);
        self.g_time = 1_700_000_000 + rng.below(1000);
        self.g_len = rng.range(60, 110);
        self.g_snap_mode = rng.below(4);
        self.g_new_epoch = false;
        self.g_script.clear();
        // which scripted scenarios this case runs (the long-idle one costs ~150 ops: one case in five)
        // [same-second unlocks, long idle, long per-address history, many flows and claims, look-alike assets,
        //  re-entrant helper deposits]
        self.g_scen_done = [!rng.chance(1, 2), !rng.chance(1, 5), !rng.chance(1, 7), !rng.chance(1, 10), !rng.chance(1, 3), !rng.chance(1, 3)];
        format!(
            "init incentive lp={} fee={} feeamt={} maxflows={} buffer={} mindur={} maxdur={} e0={} dn={}",
            if lp_native { "native" } else { "cw20" },
            fee_asset,
            fee_amt,
            max_flows,
            rng.range(0, 12),
            min_dur,
            max_dur,
            self.g_epoch,
            if rng.chance(1, 2) { 0 } else { rng.range(1, 3) }
        )
    }

    fn gen_dur(rng: &mut Rng, cfg: &Cfg) -> u64 {
        match rng.below(12) {
            0 => MIN_D,
            1 => MAX_D,
            2 => 15_778_463,
            3 => 1_000_000,
            4 => cfg.min_dur,
            5 => cfg.max_dur,
            6 => cfg.min_dur.saturating_sub(1),
            7 => cfg.max_dur + 1,
            8 => *rng.pick(&[86_400u64, 604_800, 2_592_000]),
            _ => rng.range(cfg.min_dur.max(MIN_D), cfg.max_dur.min(MAX_D)),
        }
    }

    fn gen_amount(rng: &mut Rng) -> u128 {
        match rng.below(10) {
            0 => rng.below(30) as u128,
            1 => rng.log_uniform(124),
            2 => *rng.pick(&[1000u128, 1_000_000, 1u128 << 100, (1u128 << 100) - 1]),
            3 | 4 => rng.log_uniform(30),
            _ => rng.log_uniform(100),
        }
    }

    /// a well-funded `open_flow` body (`<acct> open_flow …` with exactly the funds the contract asks for)
    fn flow_body(cfg: &Cfg, acct: &str, asset: usize, amt: u128, start: u64, end: u64) -> String {
        Self::flow_body_paid(cfg, acct, asset, asset, amt, start, end)
    }

    /// `open_flow` NAMING `named` while offering what a flow in `asset` would need
    fn flow_body_paid(cfg: &Cfg, acct: &str, named: usize, asset: usize, amt: u128, start: u64, end: u64) -> String {
        let mut offs = String::new();
        if asset == cfg.fee_asset {
            offs.push_str(&format!(" {asset}:{amt}"));
        } else {
            if cfg.fee_amt > 0 {
                offs.push_str(&format!(" {}:{}", cfg.fee_asset, cfg.fee_amt));
            }
            offs.push_str(&format!(" {asset}:{amt}"));
        }
        format!("{acct} open_flow {named} {amt} {start} {end}{offs}")
    }

    /// scripted scenarios that random generation reaches too rarely; returns true when one was queued
    fn queue_scenario(&mut self, rng: &mut Rng) -> bool {
        let cfg = self.w.as_ref().unwrap().cfg.clone();
        let e = self.g_epoch;
        let todo: Vec<usize> = (0..self.g_scen_done.len()).filter(|i| !self.g_scen_done[*i]).collect();
        if todo.is_empty() {
            return false;
        }
        let which = *rng.pick(&todo);
        self.g_scen_done[which] = true;
        let u = ACCTS[1 + rng.below(3) as usize];
        let mut sc: Vec<(u64, u64, String)> = vec![];
        if which == 5 {
            // RE-ENTRANT helper deposits: a plain deposit, then deposits with a deposit of mallory's nested into them
            // (from inside the helper's pull / the pair's pull, plainly / caught, same / other duration, by another
            // user / by mallory itself), a LATER plain deposit by a third user, mallory closing and withdrawing what
            // it was credited, and deposits with an incentive operation nested into them
            let lo = cfg.min_dur.max(MIN_D);
            let hi = cfg.max_dur.min(MAX_D);
            if lo >= hi {
                return false;
            }
            let d = if rng.chance(1, 2) { lo } else { rng.range(lo, hi) };
            let d2 = if rng.chance(1, 2) { d } else { rng.range(lo, hi) };
            let dep = |rng: &mut Rng, d: u64| -> String {
                let (a0, a1) = (rng.log_uniform(50), rng.log_uniform(50));
                format!("helper_deposit {a0} {a1} {d} 1:{a0} 3:{a1}")
            };
            let users = ["alice", "bob", "carol", "mallory"];
            let trig = |rng: &mut Rng| *rng.pick(&["t1", "t1", "t2", "t2", "t3", "t4"]);
            let mode = |rng: &mut Rng| *rng.pick(&["plain", "catch"]);
            sc.push((0, 10, format!("{u} {}", dep(rng, d))));
            for _ in 0..rng.range(1, 3) {
                let x = *rng.pick(&users);
                let dn = if rng.chance(1, 2) { d } else { d2 };
                let nested = dep(rng, dn);
                let outer = dep(rng, d);
                sc.push((0, 10, format!("{x} reenter {} {} {nested} -- {outer}", trig(rng), mode(rng))));
                // the next depositor
                let y = *rng.pick(&users[..3]);
                let dy = if rng.chance(1, 2) { d } else { d2 };
                sc.push((0, 10, format!("{y} {}", dep(rng, dy))));
            }
            // mallory takes out what it was credited
            sc.push((0, 10, format!("mallory close_position {d}")));
            if d2 != d {
                sc.push((0, 10, format!("mallory close_position {d2}")));
            }
            sc.push((rng.below(2), hi + 10, "mallory withdraw".to_string()));
            // incentive operations nested into a deposit
            let x = *rng.pick(&users);
            let amt = 1 + rng.log_uniform(40);
            let inner = match rng.below(6) {
                0 => format!("open_position {amt} {d2} {x} 0:{amt}"),
                1 => format!("expand_position {amt} {d} {x} 0:{amt}"),
                2 => format!("close_position {d}"),
                3 => "withdraw".to_string(),
                4 => "claim".to_string(),
                _ => format!("open_position {amt} {d} - 0:{amt}"),
            };
            sc.push((0, 10, format!("{x} reenter {} {} {inner} -- {}", trig(rng), mode(rng), dep(rng, d))));
            sc.push((0, 10, format!("{u} close_position {d}")));
            sc.push((0, hi + 10, format!("{u} withdraw")));
        } else if which == 0 {
            // two closed positions of ONE address that unlock at the same second: (a) close, re-open the
            // same duration and close again within one block; (b) durations d+x and d closed x seconds apart
            let lo = cfg.min_dur.max(MIN_D);
            let hi = cfg.max_dur.min(MAX_D);
            if lo + 10_000 >= hi {
                return false;
            }
            let d = rng.range(lo + 1, hi - 5_000);
            let (a1, a2) = (1 + rng.log_uniform(40), 1 + rng.log_uniform(40));
            if rng.chance(1, 2) {
                sc.push((0, rng.range(1, 100), format!("{u} open_position {a1} {d} - 0:{a1}")));
                sc.push((0, rng.range(1, 100), format!("{u} close_position {d}")));
                sc.push((0, 0, format!("{u} open_position {a2} {d} - 0:{a2}")));
                sc.push((0, 0, format!("{u} close_position {d}")));
            } else {
                let x = rng.range(1, 4000);
                sc.push((0, rng.range(1, 100), format!("{u} open_position {a1} {} - 0:{a1}", d + x)));
                sc.push((0, rng.range(1, 100), format!("{u} open_position {a2} {d} - 0:{a2}")));
                sc.push((0, rng.range(1, 100), format!("{u} close_position {}", d + x)));
                sc.push((0, x, format!("{u} close_position {d}")));
            }
            // later: everything unlocks, the address withdraws
            sc.push((rng.below(2), hi + 10, format!("{u} withdraw")));
        } else if which == 2 {
            // LONG per-address history: one address accumulates many closed positions (well beyond any small
            // constant: 16, 31 … 34, 40, 63 … 65, 70, 100, or 9 … 130 at random) from batches of simultaneously open positions (1 … 40 at a time),
            // all within one epoch right after a claim (no pending rewards), unlock times spread over the whole
            // duration range; time then passes so that part of them are unlocked, and it withdraws, twice, closes
            // some more and withdraws again
            let lo = cfg.min_dur.max(MIN_D);
            let hi = cfg.max_dur.min(MAX_D);
            let n_target = if rng.chance(1, 4) { rng.range(9, 130) } else { *rng.pick(&[16u64, 31, 32, 33, 34, 40, 48, 63, 64, 65, 70, 100]) };
            let batch = (*rng.pick(&[1u64, 4, 12, 20, 40])).min(n_target);
            if hi - lo < 4 * batch + 8 {
                return false;
            }
            let stepd = (hi - lo - 2) / (batch + 1);
            let durs: Vec<u64> = (0..batch).map(|i| lo + 1 + i * stepd + rng.below(stepd.min(1000))).collect();
            sc.push((0, 1, format!("{u} snapshot")));
            sc.push((0, 1, format!("{u} claim")));
            let mut closed = 0u64;
            while closed < n_target {
                let b = batch.min(n_target - closed) as usize;
                for d in durs.iter().take(b) {
                    let a = 1 + rng.log_uniform(30);
                    sc.push((0, rng.below(3), format!("{u} open_position {a} {d} - 0:{a}")));
                }
                // closed in a shuffled order, a few seconds (sometimes days) apart
                let mut order: Vec<u64> = durs.iter().take(b).cloned().collect();
                for i in (1..order.len()).rev() {
                    order.swap(i, rng.below(i as u64 + 1) as usize);
                }
                for d in order {
                    let dt = match rng.below(8) {
                        0 => 0,
                        1 => rng.range(1000, 200_000),
                        _ => rng.range(1, 60),
                    };
                    sc.push((0, dt, format!("{u} close_position {d}")));
                }
                closed += b as u64;
            }
            // some stay open while the address withdraws
            for d in durs.iter().take(rng.below(4) as usize) {
                let a = 1 + rng.log_uniform(30);
                sc.push((0, 1, format!("{u} open_position {a} {d} - 0:{a}")));
            }
            let wait = match rng.below(5) {
                0 => 0,
                1 => hi + 10,
                2 => lo + 1,
                _ => rng.range(lo, hi),
            };
            sc.push((rng.below(2), wait, format!("{u} withdraw")));
            sc.push((0, rng.range(0, 50), format!("{u} withdraw")));
            let more = rng.range(1, 5);
            for d in durs.iter().take(more as usize) {
                let a = 1 + rng.log_uniform(30);
                sc.push((0, 1, format!("{u} expand_position {a} {d} - 0:{a}")));
                sc.push((0, 1, format!("{u} open_position {a} {d} - 0:{a}")));
                sc.push((0, 1, format!("{u} close_position {d}")));
            }
            sc.push((0, rng.range(0, hi), format!("{u} withdraw")));
        } else if which == 3 {
            // MANY flows (up to max_concurrent_flows and one beyond, in every asset incl. the look-alikes), many
            // claims: the address stakes, flows are opened until the limit refuses, then epochs pass with a
            // snapshot and claims in each, an expansion now and then
            let n_flows = self.w.as_ref().unwrap().prev.flows.len() as u64;
            let d = rng.range(cfg.min_dur.max(MIN_D), cfg.max_dur.min(MAX_D));
            let a1 = 1000 + rng.log_uniform(60);
            sc.push((0, 10, format!("{u} open_position {a1} {d} - 0:{a1}")));
            let mut pool: Vec<usize> = (1..NA).filter(|a| !dead(&cfg, *a)).collect();
            pool.push(0);
            let len = rng.range(8, 40);
            let room = cfg.max_flows.saturating_sub(n_flows);
            for j in 0..room + 1 {
                let asset = pool[(j as usize + rng.below(2) as usize) % pool.len()];
                let extra = if asset == cfg.fee_asset { cfg.fee_amt } else { 0 };
                let f = 10_000 + rng.log_uniform(60) + extra;
                let creator = ACCTS[1 + rng.below(5) as usize];
                sc.push((0, 5, Self::flow_body(&cfg, creator, asset, f, e + rng.below(2), e + len + rng.below(5))));
            }
            let rounds = rng.range(8, 30);
            for r in 0..rounds {
                sc.push((1, 10, format!("{} snapshot", ACCTS[1 + rng.below(4) as usize])));
                sc.push((0, 10, format!("{u} claim")));
                if rng.chance(1, 3) {
                    sc.push((0, 10, format!("{} claim", ACCTS[1 + rng.below(5) as usize])));
                }
                if r % 5 == 2 {
                    let k = rng.below(cfg.max_flows);
                    let x = 1 + rng.log_uniform(40);
                    sc.push((0, 10, format!("dave expand_flow @f{k} @a{k} {x} - @a{k}:{x}")));
                }
            }
        } else if which == 4 {
            // LOOK-ALIKE assets: a flow in a cw20 token and a flow in the native denom that spells the token's
            // address are different flows in different assets; each is expanded naming the OTHER kind (paying in
            // the other kind), then in its own kind; a native flow is expanded naming the token that spells its
            // denom. A staker claims in between, the flows are closed at the end.
            let mut cw: Vec<usize> = vec![3, 4];
            if !cfg.lp_native {
                cw.push(0);
            }
            let x = *rng.pick(&cw);
            let t = twin(x);
            let y = *rng.pick(&[1usize, 2]);
            let d = rng.range(cfg.min_dur.max(MIN_D), cfg.max_dur.min(MAX_D));
            let a1 = 1000 + rng.log_uniform(60);
            let len = rng.range(6, 30);
            let fee_extra = |a: usize| if a == cfg.fee_asset { cfg.fee_amt } else { 0 };
            let f1 = 5_000 + rng.log_uniform(50) + fee_extra(x);
            let f2 = 5_000 + rng.log_uniform(50) + fee_extra(t);
            let f3 = 5_000 + rng.log_uniform(50) + fee_extra(y);
            let (x1, x2, x3) = (1 + rng.log_uniform(40), 1 + rng.log_uniform(40), 1 + rng.log_uniform(40));
            let who = ACCTS[4 + rng.below(2) as usize];
            sc.push((0, 10, format!("{u} open_position {a1} {d} - 0:{a1}")));
            sc.push((0, 10, Self::flow_body(&cfg, who, x, f1, e, e + len)));
            // the cw20 flow, expanded with look-alike COINS
            sc.push((0, 10, format!("{who} expand_flow @new {t} {x1} - {t}:{x1}")));
            sc.push((0, 10, format!("{who} expand_flow @new {t} {x1} - {t}:{x1} {x}:{x1}")));
            sc.push((0, 10, format!("{who} expand_flow @new {x} {x1} - {x}:{x1}")));
            sc.push((1, 10, format!("{u} snapshot")));
            sc.push((0, 10, format!("{u} claim")));
            // a flow in the look-alike denom: named natively with coins (accepted: it is just another denom), and
            // named natively while only the token allowance is offered (refused)
            sc.push((0, 10, Self::flow_body_paid(&cfg, who, t, x, f2, e + 1, e + 1 + len)));
            sc.push((0, 10, Self::flow_body(&cfg, who, t, f2, e + 1, e + 1 + len)));
            sc.push((0, 10, format!("{who} expand_flow @new {x} {x2} - {x}:{x2}")));
            sc.push((0, 10, format!("{who} expand_flow @new {t} {x2} - {t}:{x2}")));
            // a native flow, named as the token that spells its denom
            sc.push((0, 10, Self::flow_body_paid(&cfg, who, twin(y), y, f3, e + 1, e + 1 + len)));
            sc.push((0, 10, Self::flow_body(&cfg, who, y, f3, e + 1, e + 1 + len)));
            sc.push((0, 10, format!("{who} expand_flow @new {} {x3} - {y}:{x3}", twin(y))));
            sc.push((0, 10, format!("{who} expand_flow @new {y} {x3} - {y}:{x3}")));
            for _ in 0..rng.range(1, 4) {
                sc.push((1, 10, format!("{u} snapshot")));
                sc.push((0, 10, format!("{u} claim")));
            }
            for k in 0..3 {
                if rng.chance(2, 3) {
                    sc.push((0, 10, format!("owner close_flow @f{k}")));
                }
            }
        } else {
            // an address idle for more than EPOCH_CLAIM_CAP epochs of a long flow claims (capped), a second
            // flow in the same reward asset is opened, and the address claims again
            let n_flows = self.w.as_ref().unwrap().prev.flows.len() as u64;
            if n_flows + 2 > cfg.max_flows {
                self.g_scen_done[which] = false;
                return false;
            }
            let asset = *rng.pick(&[1usize, 2, 3]);
            let d = rng.range(cfg.min_dur.max(MIN_D), cfg.max_dur.min(MAX_D));
            // the address dominates the pool's weight, so that its claims approach the whole emission
            let a1 = if rng.chance(3, 4) { (1u128 << 112) + rng.log_uniform(110) } else { 1000 + rng.log_uniform(40) };
            let extra = if asset == cfg.fee_asset { cfg.fee_amt } else { 0 };
            let f1 = 100_000 + rng.log_uniform(50) + extra;
            let f2 = 50_000 + rng.log_uniform(50) + extra;
            let gap = rng.range(101, 150);
            let len = gap + rng.range(10, 40);
            let late = rng.range(2, 9);
            // epochs at which the lines run: e, e, e+1, e+1, e+1+gap, …
            sc.push((0, 10, format!("{u} open_position {a1} {d} - 0:{a1}")));
            sc.push((0, 10, Self::flow_body(&cfg, "dave", asset, f1, e, e + len)));
            sc.push((1, 10, format!("{u} snapshot")));
            sc.push((0, 10, format!("{u} claim")));
            // somebody takes the weight snapshot in every epoch of the idle period (an epoch without a
            // snapshot pays nothing), the address itself stays idle
            for _ in 1..gap {
                sc.push((1, 10, format!("{} snapshot", ACCTS[1 + rng.below(4) as usize])));
            }
            sc.push((1, 10, format!("{u} snapshot")));
            sc.push((0, 10, format!("{u} claim")));
            sc.push((0, 10, Self::flow_body(&cfg, "carol", asset, f2, e + 1 + gap, e + 1 + gap + 20)));
            sc.push((late, 10, format!("{u} snapshot")));
            sc.push((0, 10, format!("{u} claim")));
        }
        sc.reverse();
        self.g_len += sc.len() as u64;
        self.g_script = sc;
        true
    }

    /// what mallory sends from inside the hostile token's transfer: `<op> <args…> [offers]`
    fn gen_inner(&self, rng: &mut Rng, outer_dur: u64, outer_sender: &str) -> String {
        let w = self.w.as_ref().unwrap();
        let cfg = w.cfg.clone();
        let prev = &w.prev;
        let open_of = |i: usize| -> Vec<(u64, u128, u128)> {
            match prev.pos.get(i - 1) {
                Some(Q::Ok(p)) => p.0.clone(),
                _ => vec![],
            }
        };
        let mine = open_of(MALLORY);
        let e = self.g_epoch;
        match rng.below(100) {
            0..=39 => {
                // a deposit of its own through the same helper
                let d = match rng.below(4) {
                    0 | 1 => outer_dur,
                    2 if !mine.is_empty() => rng.pick(&mine).0,
                    _ => Self::gen_dur(rng, &cfg),
                };
                let a0 = if rng.chance(1, 8) { 0 } else { rng.log_uniform(60) };
                let a1 = if rng.chance(1, 12) { 0 } else { rng.log_uniform(60) };
                let o0 = if rng.chance(1, 14) { a0 + 1 } else { a0 };
                let o1 = if rng.chance(1, 14) { a1 + 1 } else { a1 };
                let mut offs = String::new();
                if o0 > 0 {
                    offs.push_str(&format!(" 1:{o0}"));
                }
                if o1 > 0 {
                    offs.push_str(&format!(" 3:{o1}"));
                }
                format!("helper_deposit {a0} {a1} {d}{offs}")
            }
            40..=54 => {
                let amt = Self::gen_amount(rng);
                let d = if rng.chance(1, 2) { outer_dur } else { Self::gen_dur(rng, &cfg) };
                let recv = match rng.below(4) {
                    0 => outer_sender,
                    1 => ACCTS[1 + rng.below(NACT as u64) as usize],
                    _ => "-",
                };
                let off = if rng.chance(1, 10) { amt + 1 } else { amt };
                format!("open_position {amt} {d} {recv}{}", if off > 0 { format!(" 0:{off}") } else { String::new() })
            }
            55..=64 => {
                let (recv, ops) = if rng.chance(1, 2) {
                    (outer_sender, open_of(actor_idx(outer_sender).unwrap_or(1)))
                } else {
                    ("-", mine.clone())
                };
                let d = if !ops.is_empty() && rng.chance(4, 5) { rng.pick(&ops).0 } else { outer_dur };
                let amt = Self::gen_amount(rng);
                format!("expand_position {amt} {d} {recv}{}", if amt > 0 { format!(" 0:{amt}") } else { String::new() })
            }
            65..=72 => {
                let d = if !mine.is_empty() && rng.chance(4, 5) { rng.pick(&mine).0 } else { outer_dur };
                format!("close_position {d}")
            }
            73..=79 => "withdraw".to_string(),
            80..=87 => "claim".to_string(),
            88..=90 => "snapshot".to_string(),
            91..=93 => {
                let asset = *rng.pick(&[0usize, 1, 2, 3, 4]);
                let extra = if asset == cfg.fee_asset { cfg.fee_amt } else { 0 };
                let f = 1000 + rng.log_uniform(50) + extra;
                let body = Self::flow_body(&cfg, "mallory", asset, f, e, e + rng.range(3, 30));
                body.strip_prefix("mallory ").unwrap_or(&body).to_string()
            }
            94..=95 => match prev.flows.first() {
                Some(f) => {
                    let x = 1 + rng.log_uniform(40);
                    format!("expand_flow {} {} {x} - {}:{x}", f.id, f.asset.min(NA - 1), f.asset.min(NA - 1))
                }
                None => "claim".to_string(),
            },
            96..=97 => format!("close_flow {}", prev.flows.first().map(|f| f.id).unwrap_or(1)),
            _ => {
                let (a0, a1) = (rng.log_uniform(40), rng.log_uniform(40));
                format!("helper_deposit_as 6 3 {a0} {a1} {outer_dur} 1:{a0} 3:{a1}")
            }
        }
    }

    /// the next op line: a plain one (`gen_plain`), or -- for half of the helper deposits and a few other ops -- the
    /// same op sent while the hostile pool token is armed
    fn gen_op(&mut self, rng: &mut Rng) -> String {
        let (line, scripted) = self.gen_plain(rng);
        if scripted {
            return line;
        }
        let toks: Vec<&str> = line.split_whitespace().collect();
        if toks.len() < 4 {
            return line;
        }
        let wrap = match toks[3] {
            "helper_deposit" => rng.chance(1, 2),
            "helper_deposit_as" => rng.chance(1, 4),
            _ => rng.chance(1, 60),
        };
        if !wrap {
            return line;
        }
        let outer_dur: u64 = if toks[3] == "helper_deposit" { toks.get(6).and_then(|t| t.parse().ok()).unwrap_or(MIN_D) } else { MIN_D };
        let inner = self.gen_inner(rng, outer_dur, toks[2]);
        let trig = *rng.pick(&["t1", "t1", "t1", "t1", "t2", "t2", "t2", "t2", "t3", "t4"]);
        let mode = if rng.chance(1, 2) { "plain" } else { "catch" };
        format!("{} {} {} reenter {trig} {mode} {inner} -- {}", toks[0], toks[1], toks[2], toks[3..].join(" "))
    }

    /// a plain op line; the flag says that it comes from a scripted scenario (emitted as it is)
    fn gen_plain(&mut self, rng: &mut Rng) -> (String, bool) {
        let line = self.gen_plain_line(rng);
        let scripted = self.g_last_scripted;
        (line, scripted)
    }

    fn gen_plain_line(&mut self, rng: &mut Rng) -> String {
        self.g_last_scripted = true;
        // scripted scenario in progress
        if self.g_script.is_empty() && self.g_force_claim.is_none() && rng.chance(1, 12) {
            self.queue_scenario(rng);
        }
        if let Some((de, dt, body)) = self.g_script.pop() {
            self.g_epoch += de;
            self.g_time += dt;
            if de > 0 {
                self.g_new_epoch = true;
            }
            // placeholders, resolved against the flows listed now: `@new` = id of the newest flow, `@fK` / `@aK`
            // = id / asset of the K-th listed flow (of the last one when there are fewer; 0 when there is none)
            let body = if body.contains('@') {
                let fl = &self.w.as_ref().unwrap().prev.flows;
                let newest = fl.iter().map(|f| f.id).max().unwrap_or(0);
                let mut b = body.replace("@new", &newest.to_string());
                for k in (0..16usize).rev() {
                    let f = fl.get(k).or(fl.last());
                    b = b.replace(&format!("@f{k}"), &f.map(|f| f.id).unwrap_or(0).to_string());
                    b = b.replace(&format!("@a{k}"), &f.map(|f| f.asset.min(NA - 1)).unwrap_or(1).to_string());
                }
                b
            } else {
                body
            };
            return format!("{} {} {body}", self.g_epoch, self.g_time);
        }
        let w = self.w.as_ref().unwrap();
        let cfg = w.cfg.clone();
        let prev = &w.prev;
        // advance the epoch / time
        self.g_time += rng.range(1, 5000);
        if rng.chance(1, 40) {
            self.g_time += rng.range(86_400, 40_000_000);
        }
        let mut new_epoch = false;
        if let Some(u) = self.g_force_claim.take() {
            return format!("{} {} {} claim", self.g_epoch, self.g_time, ACCTS[u]);
        }
        // the claim cap: land an actor's number of unclaimed epochs exactly on 99 / 100 / 101
        if rng.chance(1, 25) {
            if let Some(w) = self.w.as_ref() {
                let u = 1 + rng.below(3) as usize;
                let last = w.last_claim_ok.get(&u).cloned().unwrap_or(0);
                let target = last + *rng.pick(&[99u64, 100, 100, 101]);
                if target > self.g_epoch {
                    self.g_epoch = target;
                    self.g_new_epoch = true;
                    self.g_force_claim = Some(u);
                    // first make sure the epoch's snapshot placement is exercised as usual: a cheap op
                    return format!("{} {} {} snapshot", self.g_epoch, self.g_time, ACCTS[1 + rng.below(3) as usize]);
                }
            }
        }
        self.g_last_scripted = false;
        if rng.chance(7, 20) {
            self.g_epoch += match rng.below(30) {
                0 => 2,
                1 => 3,
                2 if rng.chance(1, 6) => rng.range(90, 210),
                _ => 1,
            };
            new_epoch = true;
            self.g_new_epoch = true;
        }
        let e = self.g_epoch;
        let t = self.g_time;
        let actor = |rng: &mut Rng| -> usize {
            if rng.chance(1, 14) {
                MALLORY
            } else {
                1 + (if rng.chance(4, 5) { rng.below(3) } else { rng.below(5) }) as usize
            }
        };
        let lp_offer = |amt: u128, rng: &mut Rng| -> String {
            let off = match rng.below(14) {
                0 => amt.saturating_sub(1),
                1 => amt + 1,
                2 => 0,
                3 => amt.saturating_mul(2),
                _ => amt,
            };
            if off == 0 {
                String::new()
            } else if cfg.lp_native && rng.chance(1, 16) {
                // coins of ANOTHER native denom (in some worlds the LP denom in another letter case, a prefix of it,
                // it with a suffix) instead of / next to the LP coins
                let w = 1 + rng.below(2);
                match rng.below(3) {
                    0 => format!(" {w}:{off}"),
                    1 => format!(" {w}:{amt}"),
                    _ => format!(" 0:{off} {w}:{off}"),
                }
            } else if !cfg.lp_native && rng.chance(1, 25) {
                // coins of the native denom that spells the LP token's address instead of (or on top of) the allowance
                if rng.chance(1, 2) {
                    format!(" 5:{off}")
                } else {
                    format!(" 0:{off} 5:{off}")
                }
            } else {
                format!(" 0:{off}")
            }
        };
        // snapshot placement: first thing in a fresh epoch (mode 0), never explicit (mode 1: lazy only),
        // or at a random later point (modes 2, 3)
        if new_epoch && self.g_snap_mode == 0 && rng.chance(4, 5) {
            self.g_new_epoch = false;
            return format!("{e} {t} {} snapshot", ACCTS[actor(rng)]);
        }
        let open_of = |i: usize| -> Vec<(u64, u128, u128)> {
            match prev.pos.get(i - 1) {
                Some(Q::Ok(p)) => p.0.clone(),
                _ => vec![],
            }
        };
        let has_closed = |i: usize| -> bool { matches!(prev.pos.get(i - 1), Some(Q::Ok(p)) if !p.1.is_empty()) };
        let n_flows = prev.flows.len();
        let total_open: usize = (1..=NACT).map(|i| open_of(i).len()).sum();
        for _ in 0..20 {
            let r = rng.below(100);
            // early in the case: build positions and flows
            let choice = if total_open == 0 && r < 50 {
                0
            } else if n_flows == 0 && r < 75 && r >= 50 {
                6
            } else {
                match r {
                    0..=11 => 0,  // open position
                    12..=21 => 1, // expand position
                    22..=29 => 2, // close position
                    30..=36 => 3, // withdraw
                    37..=58 => 4, // claim
                    59..=66 => 5, // snapshot
                    67..=75 => 6, // open flow
                    76..=85 => 7, // expand flow
                    86..=90 => 8, // close flow
                    _ => 9,       // helper deposit
                }
            };
            match choice {
                0 => {
                    let u = actor(rng);
                    let amt = Self::gen_amount(rng);
                    let d = Self::gen_dur(rng, &cfg);
                    let recv = if rng.chance(1, 4) { ACCTS[actor(rng)] } else { "-" };
                    return format!("{e} {t} {} open_position {amt} {d} {recv}{}", ACCTS[u], lp_offer(amt, rng));
                }
                1 => {
                    let u = actor(rng);
                    let recv_i = if rng.chance(1, 4) { actor(rng) } else { u };
                    let ops = open_of(recv_i);
                    let d = if !ops.is_empty() && rng.chance(9, 10) { rng.pick(&ops).0 } else { Self::gen_dur(rng, &cfg) };
                    let amt = Self::gen_amount(rng);
                    let recv = if recv_i != u || rng.chance(1, 10) { ACCTS[recv_i] } else { "-" };
                    return format!("{e} {t} {} expand_position {amt} {d} {recv}{}", ACCTS[u], lp_offer(amt, rng));
                }
                2 => {
                    let u = actor(rng);
                    let ops = open_of(u);
                    if ops.is_empty() && rng.chance(9, 10) {
                        continue;
                    }
                    let d = if !ops.is_empty() && rng.chance(9, 10) { rng.pick(&ops).0 } else { Self::gen_dur(rng, &cfg) };
                    return format!("{e} {t} {} close_position {d}", ACCTS[u]);
                }
                3 => {
                    let u = actor(rng);
                    if !has_closed(u) && rng.chance(4, 5) {
                        continue;
                    }
                    return format!("{e} {t} {} withdraw", ACCTS[u]);
                }
                4 => {
                    let u = actor(rng);
                    return format!("{e} {t} {} claim", ACCTS[u]);
                }
                5 => {
                    if self.g_snap_mode == 1 && rng.chance(3, 4) {
                        continue;
                    }
                    return format!("{e} {t} {} snapshot", ACCTS[actor(rng)]);
                }
                6 => {
                    let u = if rng.chance(2, 3) { 4 } else { actor(rng) };
                    let asset = match rng.below(12) {
                        0 => 0,
                        1..=3 => 1,
                        4..=5 => 2,
                        6..=8 => 3,
                        9 => 4,
                        _ => cfg.fee_asset,
                    };
                    let amt = match rng.below(8) {
                        0 => rng.range(990, 1010) as u128,
                        1 => cfg.fee_amt + rng.range(990, 1010) as u128,
                        2 => rng.log_uniform(110),
                        _ => rng.log_uniform(64).max(1000),
                    };
                    let start = match rng.below(5) {
                        0 => "-".to_string(),
                        1 => (e + rng.below(cfg.buffer + 2)).to_string(),
                        2 => e.saturating_sub(rng.below(3)).to_string(),
                        _ => (e + rng.below(3)).to_string(),
                    };
                    let end = match rng.below(8) {
                        0 => "-".to_string(),
                        1 => (e + 181 + rng.below(30)).to_string(),
                        2 => e.saturating_sub(1).to_string(),
                        3 => (e + rng.below(3)).to_string(),
                        _ => (e + rng.range(3, 30)).to_string(),
                    };
                    // the asset NAMED in the message: one time in seven the same name in the WRONG KIND; what is
                    // offered is then the look-alike itself (coins of the denom that spells the token's address:
                    // a legitimate flow in another asset), or what the rightly named flow would need, or both
                    let named = if rng.chance(1, 7) { twin(asset) } else { asset };
                    let mode = rng.below(4);
                    let (asset, also) = if named == asset {
                        (asset, None)
                    } else if dead(&cfg, named) {
                        (asset, None)
                    } else {
                        match mode {
                            0 | 1 => (named, None),
                            2 => (asset, None),
                            _ => (named, Some(asset)),
                        }
                    };
                    // what is offered: normally exactly what is needed
                    let fee = cfg.fee_amt;
                    let mut offers: Vec<(usize, u128)> = vec![];
                    let sloppy = rng.below(12);
                    if asset == cfg.fee_asset {
                        let v = match sloppy {
                            0 => fee,
                            1 => amt.saturating_sub(1),
                            2 => amt + 1,
                            3 => amt + fee,
                            _ => amt,
                        };
                        offers.push((asset, v));
                    } else {
                        // over-paid fee: one time in twelve; one in three when the fee denom is the native LP denom and
                        // the flow asset a cw20 (the excess must come back, or the LP custody equation breaks)
                        let lp_fee_cw20_flow = cfg.lp_native && cfg.fee_asset == 0 && !kind_native(&cfg, asset);
                        let fv = match sloppy {
                            0 => fee.saturating_sub(1),
                            1 => fee + rng.range(1, 1000) as u128,
                            5..=7 if lp_fee_cw20_flow => fee + rng.log_uniform(40),
                            _ => fee,
                        };
                        let av = match sloppy {
                            2 => amt.saturating_sub(1),
                            3 => amt + 1,
                            4 => 0,
                            _ => amt,
                        };
                        // the fee denom must be present in the funds even when the fee is zero: offer 1
                        // in that case only sometimes (zero coins cannot be attached)
                        offers.push((cfg.fee_asset, fv));
                        offers.push((asset, av));
                    }
                    if let Some(x) = also {
                        if offers.iter().all(|o| o.0 != x) {
                            offers.push((x, amt));
                        }
                    }
                    let offs: String = offers.iter().filter(|o| o.1 > 0).map(|o| format!(" {}:{}", o.0, o.1)).collect();
                    return format!("{e} {t} {} open_flow {named} {amt} {start} {end}{offs}", ACCTS[u]);
                }
                7 => {
                    if n_flows == 0 && rng.chance(9, 10) {
                        continue;
                    }
                    let (id, asset, cur_end) = if n_flows > 0 && rng.chance(19, 20) {
                        let f = &prev.flows[rng.below(n_flows as u64) as usize];
                        (f.id, f.asset, f.hist.last().map(|h| h.2).unwrap_or(f.end))
                    } else {
                        (rng.range(0, 6), rng.below(NA as u64) as usize, e)
                    };
                    let asset = if rng.chance(1, 25) { rng.below(NA as u64) as usize } else { asset.min(NA - 1) };
                    // one expansion in five names the flow's asset in the WRONG KIND and pays in that kind (coins of
                    // the look-alike denom / the allowance of the token that spells the denom), or in the flow's own
                    // kind, or both
                    let (asset, pay): (usize, Vec<usize>) = if rng.chance(1, 5) {
                        let tw = twin(asset);
                        match rng.below(4) {
                            0 | 1 => (tw, vec![tw]),
                            2 => (tw, vec![asset]),
                            _ => (tw, vec![tw, asset]),
                        }
                    } else {
                        (asset, vec![asset])
                    };
                    let pay: Vec<usize> = pay.into_iter().filter(|a| !dead(&cfg, *a)).collect();
                    let u = if rng.chance(1, 2) { 4 } else { actor(rng) };
                    let amt = match rng.below(6) {
                        0 => rng.below(3) as u128,
                        1 => rng.log_uniform(110),
                        _ => rng.log_uniform(50),
                    };
                    let end = match rng.below(6) {
                        0 | 1 => "-".to_string(),
                        2 => cur_end.saturating_sub(1).to_string(),
                        3 => (cur_end + rng.range(150, 200)).to_string(),
                        _ => (cur_end + rng.below(20)).to_string(),
                    };
                    let off = match rng.below(12) {
                        0 => amt.saturating_sub(1),
                        1 => amt + 1,
                        _ => amt,
                    };
                    let offs: String = if off > 0 { pay.iter().map(|a| format!(" {a}:{off}")).collect() } else { String::new() };
                    return format!("{e} {t} {} expand_flow {id} {asset} {amt} {end}{offs}", ACCTS[u]);
                }
                8 => {
                    if n_flows == 0 && rng.chance(9, 10) {
                        continue;
                    }
                    let (id, creator) = if n_flows > 0 && rng.chance(19, 20) {
                        let f = &prev.flows[rng.below(n_flows as u64) as usize];
                        (f.id, ACCTS.iter().position(|a| *a == f.creator).unwrap_or(4))
                    } else {
                        (rng.range(0, 6), 4)
                    };
                    let u = match rng.below(6) {
                        0 => 5,
                        1 => actor(rng),
                        _ => creator,
                    };
                    return format!("{e} {t} {} close_flow {id}", ACCTS[u]);
                }
                _ => {
                    let u = actor(rng);
                    let a0 = if rng.chance(1, 6) { 0 } else { rng.log_uniform(60) };
                    let a1 = if rng.chance(1, 6) { 0 } else { rng.log_uniform(60) };
                    let ops = open_of(u);
                    let d = if !ops.is_empty() && rng.chance(1, 2) { rng.pick(&ops).0 } else { Self::gen_dur(rng, &cfg) };
                    let o0 = if rng.chance(1, 12) { a0 + 1 } else { a0 };
                    let o1 = if rng.chance(1, 12) { a1 + 1 } else { a1 };
                    let mut offs = String::new();
                    if o0 > 0 {
                        offs.push_str(&format!(" 1:{o0}"));
                    }
                    if o1 > 0 {
                        offs.push_str(&format!(" 3:{o1}"));
                    }
                    if rng.chance(1, 8) {
                        // the deposited assets named in the wrong kind (the token that spells `uwhale` / the denom
                        // that spells the cw20's address), paid in the right kind, in the look-alike coins, or both
                        let (x0, x1) = *rng.pick(&[(6usize, 3usize), (1, 8), (6, 8)]);
                        let mut offs = String::new();
                        if o0 > 0 {
                            offs.push_str(&format!(" 1:{o0}"));
                        }
                        if o1 > 0 {
                            match (x1, rng.below(3)) {
                                (8, 0) => offs.push_str(&format!(" 8:{o1}")),
                                (8, 1) => offs.push_str(&format!(" 3:{o1} 8:{o1}")),
                                _ => offs.push_str(&format!(" 3:{o1}")),
                            }
                        }
                        return format!("{e} {t} {} helper_deposit_as {x0} {x1} {a0} {a1} {d}{offs}", ACCTS[u]);
                    }
                    return format!("{e} {t} {} helper_deposit {a0} {a1} {d}{offs}", ACCTS[u]);
                }
            }
        }
        format!("{e} {t} alice claim")
    }
}

impl Engine for Incentive {
    fn exec(&mut self, line: &str, mon: &mut Monitor) -> String {
        let ws: Vec<&str> = line.split_whitespace().collect();
        if ws.is_empty() {
            return "bad-op".into();
        }
        if ws[0] == "init" {
            if ws.get(1) != Some(&"incentive") {
                return "bad-op".into();
            }
            return self.init(&ws[2..], mon);
        }
        if self.w.is_none() {
            return "bad-op".into();
        }
        match parse_op(&ws) {
            Some(op) => self.exec_op(&op, mon),
            None => "bad-op".into(),
        }
    }

    fn next_op(&mut self, rng: &mut Rng, step: u64) -> Option<String> {
        if step == 0 {
            return Some(self.gen_init(rng));
        }
        if step > self.g_len {
            return None;
        }
        Some(self.gen_op(rng))
    }
}

#[allow(dead_code)]
fn _unused(_: BankMsg) {}
