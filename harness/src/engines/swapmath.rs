//! Engine `swapmath` (C02): the real `terraswap_pair::helpers::compute_swap` (through the
//! cfg(wwcore_verif) hook) on constant-product inputs, plus a there-and-back composite.
use crate::common::*;
use cosmwasm_std::{Decimal, Uint128, Uint512};
use terraswap_pair::verif_hooks::{compute_swap, SwapComputation};
use white_whale_std::fee::Fee;
use white_whale_std::pool_network::asset::PairType;
use white_whale_std::pool_network::pair::PoolFee;

const E18: u128 = 1_000_000_000_000_000_000;

#[derive(Default)]
pub struct SwapMath {
    n: u64,
}

pub fn pool_fee(p: u128, s: u128, b: u128) -> PoolFee {
    PoolFee {
        protocol_fee: Fee { share: Decimal::raw(p) },
        swap_fee: Fee { share: Decimal::raw(s) },
        burn_fee: Fee { share: Decimal::raw(b) },
    }
}

fn run_cp(op: u128, ap: u128, off: u128, p: u128, s: u128, b: u128) -> Outcome<SwapComputation> {
    guarded(|| {
        compute_swap(
            Uint128::new(op),
            Uint128::new(ap),
            Uint128::new(off),
            pool_fee(p, s, b),
            &PairType::ConstantProduct,
            6,
            6,
        )
    })
}

fn show(c: &SwapComputation) -> String {
    format!(
        "{} {} {} {} {}",
        c.return_amount, c.spread_amount, c.swap_fee_amount, c.protocol_fee_amount, c.burn_fee_amount
    )
}

fn show_out(o: &Outcome<SwapComputation>) -> String {
    match o {
        Outcome::Ok(c) => format!("ok {}", show(c)),
        Outcome::Err(_) => "err".into(),
        Outcome::Panic => "panic".into(),
    }
}

fn u512(x: u128) -> Uint512 {
    Uint512::from(x)
}

/// C02 evaluated on what the real function returned
fn monitor_cp(mon: &mut Monitor, a: &[u128], out: &Outcome<SwapComputation>) {
    let (op, ap, off, p, s, b) = (a[0], a[1], a[2], a[3], a[4], a[5]);
    let valid = p < E18 && s < E18 && b < E18 && p + s + b < E18;
    if !(op >= 1 && ap >= 1 && off >= 1 && valid) {
        mon.stat("cp_outside_quantifier");
        return;
    }
    let e18 = u512(E18);
    let gross = u512(ap) * u512(off) / (u512(op) + u512(off));
    let er = u512(ap) * e18 / u512(op);
    let x = u512(off) * er / e18;
    let spread = if x > gross { x - gross } else { Uint512::zero() };
    let fits = spread <= u512(u128::MAX);
    let desc = || format!("cp_swap {:?} -> {}", a, show_out(out));
    mon.check("C02", "never_panics", !matches!(out, Outcome::Panic), desc);
    mon.check("C02", "ok_iff_fits_128", matches!(out, Outcome::Ok(_)) == fits, desc);
    if let Outcome::Ok(c) = out {
        let sum = u512(c.return_amount.u128())
            + u512(c.swap_fee_amount.u128())
            + u512(c.protocol_fee_amount.u128())
            + u512(c.burn_fee_amount.u128());
        mon.check("C02", "gross_identity", sum == gross, desc);
        let fee = |sh: u128| gross * u512(sh) / e18;
        mon.check(
            "C02",
            "fee_exact",
            u512(c.swap_fee_amount.u128()) == fee(s)
                && u512(c.protocol_fee_amount.u128()) == fee(p)
                && u512(c.burn_fee_amount.u128()) == fee(b),
            desc,
        );
        mon.check("C02", "proceeds_lt_reserve", c.return_amount.u128() < ap, desc);
        mon.check("C02", "spread_exact", u512(c.spread_amount.u128()) == spread, desc);
        if c.return_amount.u128() > 0 {
            mon.stat("cp_nonzero_return");
        }
    }
}

impl Engine for SwapMath {
    fn exec(&mut self, line: &str, mon: &mut Monitor) -> String {
        let ws: Vec<&str> = line.split_whitespace().collect();
        if ws.len() < 2 || ws[0] != "call" {
            return "bad-op".into();
        }
        let a = match parse_u128s(&ws[2..]) {
            Some(a) if a.len() == 6 => a,
            _ => return "bad-op".into(),
        };
        match ws[1] {
            "cp_swap" => {
                let out = run_cp(a[0], a[1], a[2], a[3], a[4], a[5]);
                monitor_cp(mon, &a, &out);
                mon.stat(&format!("cp_offer_mag_{}", mag_bucket(a[2])));
                show_out(&out)
            }
            "cp_rt" => {
                let out = run_cp(a[0], a[1], a[2], a[3], a[4], a[5]);
                monitor_cp(mon, &a, &out);
                match &out {
                    Outcome::Ok(c) => {
                        // pool after the swap: the offer lands in the offer pool; proceeds, protocol
                        // fee and burn fee leave the ask pool's reported reserve
                        let ap2 = a[1]
                            - c.return_amount.u128()
                            - c.protocol_fee_amount.u128()
                            - c.burn_fee_amount.u128();
                        let op2 = a[0].checked_add(a[2]);
                        match op2 {
                            None => format!("ok {} | skip", show(c)),
                            Some(op2) => {
                                let back = run_cp(ap2, op2, c.return_amount.u128(), a[3], a[4], a[5]);
                                if let Outcome::Ok(c2) = &back {
                                    let gross2 = c2.return_amount.u128()
                                        + c2.swap_fee_amount.u128()
                                        + c2.protocol_fee_amount.u128()
                                        + c2.burn_fee_amount.u128();
                                    mon.check("C02", "round_trip_no_profit", gross2 <= a[2], || {
                                        format!("cp_rt {:?}: put in {} got back gross {}", a, a[2], gross2)
                                    });
                                    if c2.return_amount.u128() > 0 {
                                        mon.stat("rt_nonzero_back");
                                    }
                                }
                                format!("ok {} | {}", show(c), show_out(&back))
                            }
                        }
                    }
                    _ => show_out(&out),
                }
            }
            _ => "bad-op".into(),
        }
    }

    fn next_op(&mut self, rng: &mut Rng, step: u64) -> Option<String> {
        if step >= 1 {
            return None;
        }
        self.n += 1;
        // reserve / offer shapes: balanced, extreme ratios, near-2^128, tiny
        let shape = rng.below(8);
        let (op, ap, off) = match shape {
            0 => (rng.amount(128), rng.amount(128), rng.amount(128)),
            1 => {
                let r = rng.log_uniform(100);
                (r, r + rng.below(1000) as u128, rng.log_uniform(90))
            }
            2 => (rng.log_uniform(127), rng.log_uniform(30), rng.log_uniform(120)),
            3 => (rng.log_uniform(30), rng.log_uniform(127), rng.log_uniform(128)),
            4 => (u128::MAX - rng.below(3) as u128, u128::MAX - rng.below(3) as u128, u128::MAX - rng.below(3) as u128),
            5 => (rng.log_uniform(64), rng.log_uniform(64), rng.log_uniform(64)),
            6 => (rng.log_uniform(128), rng.log_uniform(128), rng.log_uniform(128)),
            _ => (rng.log_uniform(20), rng.log_uniform(20), rng.log_uniform(20)),
        };
        let (p, s, b) = if rng.chance(1, 20) {
            (rng.fee_share(), rng.fee_share(), rng.fee_share()) // possibly invalid
        } else if rng.chance(1, 6) {
            (0, 0, 0)
        } else {
            rng.valid_fees()
        };
        let f = if rng.chance(1, 3) { "cp_rt" } else { "cp_swap" };
        Some(format!("call {f} {op} {ap} {off} {p} {s} {b}"))
    }
}
