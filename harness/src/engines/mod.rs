use crate::common::Engine;
pub mod swapmath;
pub mod vault;
pub mod epochs;
pub mod slippage;
pub mod quotes;
pub mod authmatrix;
pub mod lair;
pub mod feeflow;
pub mod config;
pub mod toggles;

pub fn make(name: &str, variant: &str) -> Option<Box<dyn Engine>> {
    match name {
        "swapmath" => Some(Box::new(swapmath::SwapMath::default())),
        "vault" => Some(Box::new(vault::VaultEngine::default())),
        "epochs" => Some(Box::new(epochs::Epochs::default())),
        "slippage" => Some(Box::new(slippage::Slippage::new(variant))),
        "quotes" => Some(Box::new(quotes::Quotes::new(variant))),
        "authmatrix" => Some(Box::new(authmatrix::AuthMatrix::new(variant))),
        "lair" => Some(Box::new(lair::Lair::default())),
        "feeflow" => Some(Box::new(feeflow::Feeflow::new(variant))),
        "toggles" => Some(Box::new(toggles::Toggles::new(variant))),
        "config" => Some(Box::new(config::Config::new(variant))),
        _ => None,
    }
}
