use crate::common::Engine;
pub mod swapmath;

pub fn make(name: &str, variant: &str) -> Option<Box<dyn Engine>> {
    let _ = variant;
    match name {
        "swapmath" => Some(Box::new(swapmath::SwapMath::default())),
        _ => None,
    }
}
