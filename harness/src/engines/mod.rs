use crate::common::Engine;
pub mod swapmath;
pub mod vault;

pub fn make(name: &str, variant: &str) -> Option<Box<dyn Engine>> {
    let _ = variant;
    match name {
        "swapmath" => Some(Box::new(swapmath::SwapMath::default())),
        "vault" => Some(Box::new(vault::VaultEngine::default())),
        _ => None,
    }
}
