use crate::common::Engine;
pub mod swapmath;
pub mod vault;
pub mod epochs;
pub mod slippage;
pub mod quotes;
pub mod authmatrix;
pub mod lair;
pub mod feeflow;
pub mod config;
pub mod toggles;
pub mod stable2;
pub mod trio;
pub mod trio_gen;
pub mod registry;
pub mod weight;
pub mod incentive;
pub mod pair;
pub mod vaultchain;

pub fn make(name: &str, variant: &str) -> Option<Box<dyn Engine>> {
    match name {
        "swapmath" => Some(Box::new(swapmath::SwapMath::default())),
        "vault" => Some(Box::new(vault::VaultEngine::default())),
        "epochs" => Some(Box::new(epochs::Epochs::default())),
        "slippage" => Some(Box::new(slippage::Slippage::new(variant))),
        "quotes" => Some(Box::new(quotes::Quotes::new(variant))),
        "authmatrix" => Some(Box::new(authmatrix::AuthMatrix::new(variant))),
        "lair" => Some(Box::new(lair::Lair::default())),
        "feeflow" => Some(Box::new(feeflow::Feeflow::new(variant))),
        "toggles" => Some(Box::new(toggles::Toggles::new(variant))),
        "config" => Some(Box::new(config::Config::new(variant))),
        "stable2" => Some(Box::new(stable2::Stable2::new(variant))),
        "trio" => Some(Box::new(trio::Trio::new(variant))),
        "registry" => Some(Box::new(registry::Registry::default())),
        "weight" => Some(Box::new(weight::Weight::default())),
        "incentive" => Some(Box::new(incentive::Incentive::default())),
        "pair" => Some(Box::new(pair::PairEngine::new(variant))),
        "vaultchain" => Some(Box::new(vaultchain::VaultChain::default())),
        _ => None,
    }
}
