//! Engine `toggles` (C17): the pause-switch matrix on the real contracts.
//!
//! One process per `--variant` (cp | stable | trio | vnative | vcw20).  The matrix is enumerated, not
//! sampled: case `i` is cell `(flags = i % 8, funded = (i / 8) % 2)`; rounds `i / 16 >= 1` repeat the
//! whole matrix with amounts drawn from the PRNG.  A case is
//!
//! ```text
//! init toggles kind=K funded=F amt=A      fresh world; Config must report all three switches on
//! set a b c                               real UpdateConfig through the factory (the write path)
//! path <name> base=<ok|err>   (x every entry path)
//! set 1 1 1                               re-enable
//! path <name> base=<ok|err>   (x every entry path)
//! ```
//!
//! Vault variants additionally send every vault entry point from INSIDE a flash-loan callback of the vault
//! under test (the vault's loan counter is non-zero at that moment):
//!
//! ```text
//! inloan <d|r|rs> <inner path> <p|c> <x|g> base=<ok|err|panic> ibase=<ok|err|na> fbase=<ok|err|panic|na>
//! ```
//!
//! `d`: the borrower contract takes the loan directly; `r`: the loan is taken through the vault router and
//! the borrower contract acts from the router's payload; `rs`: the vault router itself (the vault's direct
//! borrower) sends the inner message as a payload message.  `p`: the inner message is a plain message (its
//! error fails the whole transaction); `c`: it is a sub-message whose result the borrower records in its
//! `reply` (event attribute `inner_result`) before repaying.  `x`: the loan is repaid exactly, `g`: generously
//! (covers whatever the inner message took out of the vault).  `base` / `ibase` are the transaction's and the
//! recorded inner outcome on the never-paused twin, `fbase` the twin outcome of the same loan around a
//! message that fails (`c` lines).
//!
//! MIGRATIONS.  Every pool and vault is instantiated by its factory with the factory as wasm admin, and every
//! contract code is registered with its real `migrate` entry point.  A case's history also contains
//!
//! ```text
//! migrate <f|d|s> <x.y.z[L]> cur=<crate version> base=<ok|err|panic>
//! ```
//!
//! `f`: the factory's owner sends `MigratePair` / `MigrateTrio` / `MigrateVaults{vault_addr}` (the factory sends
//! `WasmMsg::Migrate`, same code id); `d`: `App::migrate_contract` with the wasm admin (the factory's address) as
//! sender; `s`: a stranger sends the factory's message (refused by the factory).  Before the migration the
//! stored cw2 version of the contract under test is set to `x.y.z` (the handlers refuse unless the stored
//! version is LOWER than the crate's): the `contract_info` item is rewritten in the chain's raw storage
//! through `App::init_modules` (key = length-prefixed `wasm` / `contract_data/<addr>` namespaces + item key,
//! verified by reading it back with `App::dump_wasm_raw`) — no message of any contract can lower it.  With
//! the suffix `L` the items that release laid out differently are put back into that release's layout first
//! (as declared by the `…V110` / `…V113` / `…V120` structs of the contracts' `migrations.rs`), so that the
//! version-specific storage migration — the code that rebuilds `Config`, switches included — really runs.
//! `cur` is the crate version as `instantiate` stored it, `base` the outcome of the same migration on the twin.
//!
//! Every `path` / `inloan` line is executed on a *fresh* world built by the same deterministic recipe, with the
//! case's history of config writes AND migrations replayed on it; `base` is the outcome of the same path on the twin world whose
//! switches were never touched (it replays the case's migrations, nothing else).  Before the path's main transaction the engine snapshots all bank
//! balances and the raw storage of every contract in the world (cw20 tokens included).
use crate::common::*;
use cosmwasm_std::{
    coin, coins, to_json_binary, Addr, BankMsg, Binary, Coin, CosmosMsg, Decimal, Deps, DepsMut, Empty, Env, MessageInfo,
    Reply, Response, StdError, SubMsg, SubMsgResult, Uint128, WasmMsg,
};
use cw20::Cw20ExecuteMsg;
use cw_multi_test::{App, AppBuilder, AppResponse, BankKeeper, ContractWrapper, Executor};
use serde::{Deserialize, Serialize};
use std::collections::BTreeMap;
use white_whale_std::fee::{Fee, VaultFee};
use white_whale_std::pool_network::asset::{Asset, AssetInfo, PairInfo, PairType, TrioInfo};
use white_whale_std::pool_network::{factory as pf, frontend_helper as fh, incentive_factory as incf, pair, router, trio};
use white_whale_std::vault_network::{vault, vault_factory as vf, vault_router as vr};

/// The borrower mock.  `Run` sends the messages as plain messages (any error fails the transaction that
/// called it).  `Try` sends `pre`, then `inner` as a sub-message with `reply_on: always` — a failing `inner`
/// is rolled back on its own, `reply` reports what happened in the event attributes `inner_result` /
/// `inner_err` — then `post`.  `Fail` fails.
#[derive(Debug, Deserialize, Clone, Serialize)]
#[serde(rename_all = "snake_case")]
pub enum AdvMsg {
    Run { msgs: Vec<CosmosMsg> },
    Try { pre: Vec<CosmosMsg>, inner: CosmosMsg, post: Vec<CosmosMsg> },
    Fail {},
}

fn adv_execute(_d: DepsMut, _e: Env, _i: MessageInfo, msg: AdvMsg) -> Result<Response, StdError> {
    match msg {
        AdvMsg::Run { msgs } => Ok(Response::new().add_messages(msgs)),
        AdvMsg::Try { pre, inner, post } => {
            Ok(Response::new().add_messages(pre).add_submessage(SubMsg::reply_always(inner, 1)).add_messages(post))
        }
        AdvMsg::Fail {} => Err(StdError::generic_err("borrower fails on purpose")),
    }
}
fn adv_instantiate(_d: DepsMut, _e: Env, _i: MessageInfo, _m: Empty) -> Result<Response, StdError> {
    Ok(Response::new())
}
fn adv_query(_d: Deps, _e: Env, _m: Empty) -> Result<Binary, StdError> {
    Err(StdError::generic_err("no query"))
}
fn adv_reply(_d: DepsMut, _e: Env, msg: Reply) -> Result<Response, StdError> {
    Ok(match msg.result {
        SubMsgResult::Ok(_) => Response::new().add_attribute("inner_result", "ok"),
        SubMsgResult::Err(e) => Response::new().add_attribute("inner_result", "err").add_attribute("inner_err", e),
    })
}

fn adv_contract() -> Box<dyn cw_multi_test::Contract<Empty>> {
    Box::new(ContractWrapper::new(adv_execute, adv_instantiate, adv_query).with_reply(adv_reply))
}

#[derive(Clone, Copy, PartialEq, Eq, Debug, PartialOrd, Ord)]
pub enum Kind {
    Cp,
    Stable,
    Trio,
    VNative,
    VCw20,
}
impl Kind {
    fn parse(s: &str) -> Option<Kind> {
        Some(match s {
            "cp" => Kind::Cp,
            "stable" => Kind::Stable,
            "trio" => Kind::Trio,
            "vnative" => Kind::VNative,
            "vcw20" => Kind::VCw20,
            _ => return None,
        })
    }
    fn name(self) -> &'static str {
        match self {
            Kind::Cp => "cp",
            Kind::Stable => "stable",
            Kind::Trio => "trio",
            Kind::VNative => "vnative",
            Kind::VCw20 => "vcw20",
        }
    }
    fn is_pair(self) -> bool {
        matches!(self, Kind::Cp | Kind::Stable)
    }
    fn is_vault(self) -> bool {
        matches!(self, Kind::VNative | Kind::VCw20)
    }
}

/// The entry paths per contract family with the switch (index into `[a, b, c]`) that the *property*
/// says must stop them: pools a = deposits, b = withdrawals, c = swaps; vault a = deposit, b = withdraw,
/// c = flash loan.  `None` = an operation no switch names (must keep working under every combination).
/// This is the specification-side table used by the monitors; the model has its own `gate`.
pub const PAIR_PATHS: &[(&str, Option<usize>)] = &[
    ("pairProvide", Some(0)),
    ("helperDeposit", Some(0)),
    ("pairWithdrawHook", Some(1)),
    ("pairWithdrawDirect", Some(1)),
    ("pairSwapNative", Some(2)),
    ("pairSwapCw20Hook", Some(2)),
    ("pairSwapDirectCw20", Some(2)),
    // LP tokens sent with a payload that is no hook message (empty, `{}`, unknown variant): seed C17-M
    ("pairHookMalformed", Some(1)),
    ("routerHopNative", Some(2)),
    ("routerHopCw20", Some(2)),
    ("routerTwoHop", Some(2)),
    ("pairCollectFees", None),
];
pub const TRIO_PATHS: &[(&str, Option<usize>)] = &[
    ("trioProvide", Some(0)),
    ("trioWithdrawHook", Some(1)),
    ("trioWithdrawDirect", Some(1)),
    ("trioSwapNative", Some(2)),
    ("trioSwapCw20Hook", Some(2)),
    ("trioSwapDirectCw20", Some(2)),
    ("trioHookMalformed", Some(1)),
    ("trioCollectFees", None),
];
pub const VAULT_PATHS: &[(&str, Option<usize>)] = &[
    ("vaultDeposit", Some(0)),
    ("vaultWithdrawHook", Some(1)),
    ("vaultWithdrawDirect", Some(1)),
    ("vaultHookMalformed", Some(1)),
    ("vaultFlashLoan", Some(2)),
    ("vaultRouterLoan", Some(2)),
    ("vaultCollectFees", None),
    // entry points no switch names and that an outsider may never use: must be refused under every combination
    ("vaultConfigStranger", None),
    ("vaultCallbackExternal", None),
];

/// who takes the loan of an `inloan` line
#[derive(Clone, Copy, PartialEq, Eq, Debug, PartialOrd, Ord)]
pub enum Outer {
    /// the borrower contract calls `FlashLoan` on the vault
    Direct,
    /// the vault router borrows (`vault_router::FlashLoan`); its payload calls the borrower contract, which
    /// sends the inner message
    Router,
    /// the vault router borrows and sends the inner message itself (a payload message)
    RouterSends,
}
impl Outer {
    fn parse(s: &str) -> Option<Outer> {
        Some(match s {
            "d" => Outer::Direct,
            "r" => Outer::Router,
            "rs" => Outer::RouterSends,
            _ => return None,
        })
    }
    fn name(self) -> &'static str {
        match self {
            Outer::Direct => "d",
            Outer::Router => "r",
            Outer::RouterSends => "rs",
        }
    }
}

/// a flash loan whose borrower sends one vault message from inside the callback
#[derive(Clone, PartialEq, Eq, Debug, PartialOrd, Ord)]
pub struct InLoan {
    pub outer: Outer,
    /// one of `VAULT_PATHS`
    pub inner: String,
    /// the inner message is a sub-message whose result is recorded (else a plain message)
    pub catch: bool,
    /// generous repayment (else exact)
    pub gen: bool,
    /// reference transaction: same `pre` / `post`, the inner message replaced by one that fails without
    /// touching the vault
    pub dummy: bool,
}
impl InLoan {
    fn token(&self) -> String {
        format!(
            "inloan {} {} {} {}{}",
            self.outer.name(),
            self.inner,
            if self.catch { "c" } else { "p" },
            if self.gen { "g" } else { "x" },
            if self.dummy { " (inner replaced by a failing message)" } else { "" }
        )
    }
}

/// one judged transaction
#[derive(Clone, PartialEq, Eq, Debug, PartialOrd, Ord)]
pub enum Job {
    Path(String),
    InLoan(InLoan),
    Migrate(MigSpec),
}
impl Job {
    fn key(&self) -> String {
        match self {
            Job::Path(p) => p.clone(),
            Job::InLoan(j) => j.token(),
            Job::Migrate(m) => m.token(),
        }
    }
}
/// who sends a migration
#[derive(Clone, Copy, PartialEq, Eq, Debug, PartialOrd, Ord)]
pub enum Via {
    /// the factory's owner through the factory's `MigratePair` / `MigrateTrio` / `MigrateVaults`
    Factory,
    /// the wasm admin (the factory's address) with a plain `MsgMigrateContract`
    Direct,
    /// somebody else through the factory's message
    Stranger,
}

/// one migration of the contract under test: the stored cw2 version is set to `from` first (and, `legacy`,
/// the storage items are put into the layout of that release)
#[derive(Clone, PartialEq, Eq, Debug, PartialOrd, Ord)]
pub struct MigSpec {
    pub via: Via,
    pub from: (u64, u64, u64),
    pub legacy: bool,
}
impl MigSpec {
    fn parse(via: &str, from: &str) -> Option<MigSpec> {
        let via = match via {
            "f" => Via::Factory,
            "d" => Via::Direct,
            "s" => Via::Stranger,
            _ => return None,
        };
        let (v, legacy) = match from.strip_suffix('L') {
            Some(v) => (v, true),
            None => (from, false),
        };
        Some(MigSpec { via, from: parse_ver(v)?, legacy })
    }
    fn token(&self) -> String {
        format!(
            "migrate {} {}.{}.{}{}",
            match self.via {
                Via::Factory => "f",
                Via::Direct => "d",
                Via::Stranger => "s",
            },
            self.from.0,
            self.from.1,
            self.from.2,
            if self.legacy { "L" } else { "" }
        )
    }
    fn from_str(&self) -> String {
        format!("{}.{}.{}", self.from.0, self.from.1, self.from.2)
    }
}
fn parse_ver(v: &str) -> Option<(u64, u64, u64)> {
    let p: Vec<&str> = v.split('.').collect();
    if p.len() != 3 || p.iter().any(|x| x.is_empty() || !x.chars().all(|c| c.is_ascii_digit())) {
        return None;
    }
    Some((p[0].parse().ok()?, p[1].parse().ok()?, p[2].parse().ok()?))
}

/// the releases whose storage layout the engine can put back (`…L`), per contract family: exactly the
/// layouts the contracts' `migrations.rs` declare as the input of a migration that rebuilds an item
fn legacy_known(k: Kind, from: (u64, u64, u64)) -> bool {
    if k.is_pair() {
        // ConfigV110 (no burn fee) -> migrate_to_v120;  PairInfoRawV120 (LP as address, no pair type) -> migrate_to_v130
        from == (1, 1, 0) || from == (1, 2, 0)
    } else if k.is_vault() {
        // ConfigV113 (`liquidity_token`, no burn fee) -> migrate_to_v120
        from <= (1, 1, 3)
    } else {
        false
    }
}

fn paths_of(k: Kind) -> &'static [(&'static str, Option<usize>)] {
    if k.is_pair() {
        PAIR_PATHS
    } else if k == Kind::Trio {
        TRIO_PATHS
    } else {
        VAULT_PATHS
    }
}

const FUND: u128 = 1_000_000_000;
const LIQ: u128 = 5_000_000;

pub struct World {
    pub app: App,
    pub kind: Kind,
    pub admin: Addr,
    pub alice: Addr,
    pub token: Addr,
    /// contract under test (pair / trio / vault)
    pub target: Addr,
    pub lp: Addr,
    pub factory: Addr,
    pub router: Option<Addr>,
    pub helper: Option<Addr>,
    pub adv: Option<Addr>,
}

fn nat(d: &str) -> AssetInfo {
    AssetInfo::NativeToken { denom: d.into() }
}
fn tok(a: &Addr) -> AssetInfo {
    AssetInfo::Token { contract_addr: a.to_string() }
}
fn fee(permille: u64) -> Fee {
    Fee { share: Decimal::permille(permille) }
}

fn store_token(app: &mut App) -> u64 {
    app.store_code(Box::new(ContractWrapper::new(
        terraswap_token::contract::execute,
        terraswap_token::contract::instantiate,
        terraswap_token::contract::query,
    )))
}

pub type Snapshot = Vec<(String, Vec<Coin>, Vec<(Vec<u8>, Vec<u8>)>)>;

impl World {
    pub fn build(kind: Kind, funded: bool) -> World {
        let admin = Addr::unchecked("admin");
        let alice = Addr::unchecked("alice");
        let native = |a: &Addr| {
            (
                a.clone(),
                vec![coin(FUND, "ua"), coin(FUND, "ub"), coin(FUND, "uluna"), coin(FUND, "uusd")],
            )
        };
        let bal = vec![native(&admin), native(&alice)];
        let mut app = AppBuilder::new().with_bank(BankKeeper::new()).build(|r, _a, s| {
            for (a, c) in bal {
                r.bank.init_balance(s, &a, c).unwrap();
            }
        });
        let token_id = store_token(&mut app);
        let token = app
            .instantiate_contract(
                token_id,
                admin.clone(),
                &white_whale_std::pool_network::token::InstantiateMsg {
                    name: "mock token".into(),
                    symbol: "MOCK".into(),
                    decimals: 6,
                    initial_balances: vec![
                        cw20::Cw20Coin { address: admin.to_string(), amount: FUND.into() },
                        cw20::Cw20Coin { address: alice.to_string(), amount: FUND.into() },
                    ],
                    mint: None,
                },
                &[],
                "token",
                None,
            )
            .unwrap();
        if kind.is_vault() {
            return Self::build_vault(app, kind, funded, admin, alice, token, token_id);
        }
        let pair_id = app.store_code(Box::new(
            ContractWrapper::new(
                terraswap_pair::contract::execute,
                terraswap_pair::contract::instantiate,
                terraswap_pair::contract::query,
            )
            .with_reply(terraswap_pair::contract::reply)
            .with_migrate(terraswap_pair::contract::migrate),
        ));
        let trio_id = app.store_code(Box::new(
            ContractWrapper::new(
                stableswap_3pool::contract::execute,
                stableswap_3pool::contract::instantiate,
                stableswap_3pool::contract::query,
            )
            .with_reply(stableswap_3pool::contract::reply)
            .with_migrate(stableswap_3pool::contract::migrate),
        ));
        let fac_id = app.store_code(Box::new(
            ContractWrapper::new(
                terraswap_factory::contract::execute,
                terraswap_factory::contract::instantiate,
                terraswap_factory::contract::query,
            )
            .with_reply(terraswap_factory::contract::reply),
        ));
        let factory = app
            .instantiate_contract(
                fac_id,
                admin.clone(),
                &pf::InstantiateMsg {
                    pair_code_id: pair_id,
                    trio_code_id: trio_id,
                    token_code_id: token_id,
                    fee_collector_addr: "collector".into(),
                },
                &[],
                "factory",
                None,
            )
            .unwrap();
        for d in ["ua", "ub", "uluna", "uusd"] {
            app.execute_contract(
                admin.clone(),
                factory.clone(),
                &pf::ExecuteMsg::AddNativeTokenDecimals { denom: d.into(), decimals: 6 },
                &[coin(1, d)],
            )
            .unwrap();
        }
        if kind == Kind::Trio {
            app.execute_contract(
                admin.clone(),
                factory.clone(),
                &pf::ExecuteMsg::CreateTrio {
                    asset_infos: [nat("ua"), nat("ub"), tok(&token)],
                    pool_fees: trio::PoolFee { protocol_fee: fee(1), swap_fee: fee(2), burn_fee: fee(1) },
                    amp_factor: 100,
                    token_factory_lp: false,
                },
                &[],
            )
            .unwrap();
            let ti: TrioInfo = app
                .wrap()
                .query_wasm_smart(&factory, &pf::QueryMsg::Trio { asset_infos: [nat("ua"), nat("ub"), tok(&token)] })
                .unwrap();
            let target = Addr::unchecked(ti.contract_addr);
            let lp = match ti.liquidity_token {
                AssetInfo::Token { contract_addr } => Addr::unchecked(contract_addr),
                _ => panic!("native lp"),
            };
            let mut w = World { app, kind, admin, alice, token, target, lp, factory, router: None, helper: None, adv: None };
            if funded {
                w.trio_provide(LIQ).unwrap();
                // earlier swaps in both directions have left protocol fees above the collection threshold pending
                // (so that fee collection moves something and a switch that silences it is seen)
                w.run_path("trioSwapNative", LIQ / 4).unwrap();
                w.run_path("trioSwapCw20Hook", LIQ / 4).unwrap();
            }
            return w;
        }
        let pair_type = if kind == Kind::Cp { PairType::ConstantProduct } else { PairType::StableSwap { amp: 100 } };
        let fees = pair::PoolFee { protocol_fee: fee(1), swap_fee: fee(2), burn_fee: fee(1) };
        app.execute_contract(
            admin.clone(),
            factory.clone(),
            &pf::ExecuteMsg::CreatePair {
                asset_infos: [nat("uluna"), tok(&token)],
                pool_fees: fees.clone(),
                pair_type,
                token_factory_lp: false,
            },
            &[],
        )
        .unwrap();
        // auxiliary always-open constant-product pair uusd/uluna for the two-hop route
        app.execute_contract(
            admin.clone(),
            factory.clone(),
            &pf::ExecuteMsg::CreatePair {
                asset_infos: [nat("uusd"), nat("uluna")],
                pool_fees: fees,
                pair_type: PairType::ConstantProduct,
                token_factory_lp: false,
            },
            &[],
        )
        .unwrap();
        let pi: PairInfo = app
            .wrap()
            .query_wasm_smart(&factory, &pf::QueryMsg::Pair { asset_infos: [nat("uluna"), tok(&token)] })
            .unwrap();
        let aux: PairInfo =
            app.wrap().query_wasm_smart(&factory, &pf::QueryMsg::Pair { asset_infos: [nat("uusd"), nat("uluna")] }).unwrap();
        let target = Addr::unchecked(pi.contract_addr);
        let lp = match pi.liquidity_token.clone() {
            AssetInfo::Token { contract_addr } => Addr::unchecked(contract_addr),
            _ => panic!("native lp"),
        };
        app.execute_contract(
            admin.clone(),
            Addr::unchecked(aux.contract_addr),
            &pair::ExecuteMsg::ProvideLiquidity {
                assets: [
                    Asset { info: nat("uusd"), amount: LIQ.into() },
                    Asset { info: nat("uluna"), amount: LIQ.into() },
                ],
                slippage_tolerance: None,
                receiver: None,
            },
            &[coin(LIQ, "uluna"), coin(LIQ, "uusd")],
        )
        .unwrap();
        let router_id = app.store_code(Box::new(ContractWrapper::new(
            terraswap_router::contract::execute,
            terraswap_router::contract::instantiate,
            terraswap_router::contract::query,
        )));
        let router_addr = app
            .instantiate_contract(
                router_id,
                admin.clone(),
                &router::InstantiateMsg { terraswap_factory: factory.to_string() },
                &[],
                "router",
                Some(admin.to_string()),
            )
            .unwrap();
        // incentive stack for the frontend helper
        let inc_id = app.store_code(Box::new(ContractWrapper::new(
            incentive::contract::execute,
            incentive::contract::instantiate,
            incentive::contract::query,
        )));
        let incfac_id = app.store_code(Box::new(
            ContractWrapper::new(
                incentive_factory::contract::execute,
                incentive_factory::contract::instantiate,
                incentive_factory::contract::query,
            )
            .with_reply(incentive_factory::contract::reply),
        ));
        let fd_id = app.store_code(Box::new(ContractWrapper::new(
            fee_distributor_mock::contract::execute,
            fee_distributor_mock::contract::instantiate,
            fee_distributor_mock::contract::query,
        )));
        let fd = app
            .instantiate_contract(fd_id, admin.clone(), &fee_distributor_mock::msg::InstantiateMsg {}, &[], "fd", None)
            .unwrap();
        let incfac = app
            .instantiate_contract(
                incfac_id,
                admin.clone(),
                &incf::InstantiateMsg {
                    fee_collector_addr: "collector".into(),
                    fee_distributor_addr: fd.to_string(),
                    create_flow_fee: Asset { info: nat("uusd"), amount: Uint128::zero() },
                    max_concurrent_flows: 5,
                    incentive_code_id: inc_id,
                    max_flow_epoch_buffer: 10,
                    min_unbonding_duration: 86400,
                    max_unbonding_duration: 31556926,
                },
                &[],
                "incfac",
                None,
            )
            .unwrap();
        app.execute_contract(
            admin.clone(),
            incfac.clone(),
            &incf::ExecuteMsg::CreateIncentive { lp_asset: pi.liquidity_token.clone() },
            &[],
        )
        .unwrap();
        let helper_id = app.store_code(Box::new(
            ContractWrapper::new(
                frontend_helper::contract::execute,
                frontend_helper::contract::instantiate,
                frontend_helper::contract::query,
            )
            .with_reply(frontend_helper::contract::reply),
        ));
        let helper = app
            .instantiate_contract(
                helper_id,
                admin.clone(),
                &fh::InstantiateMsg { incentive_factory: incfac.to_string() },
                &[],
                "helper",
                None,
            )
            .unwrap();
        let mut w = World {
            app,
            kind,
            admin,
            alice,
            token,
            target,
            lp,
            factory,
            router: Some(router_addr),
            helper: Some(helper),
            adv: None,
        };
        if funded {
            w.pair_provide(LIQ).unwrap();
            // earlier swaps in both directions have left protocol fees above the collection threshold pending
            w.run_path("pairSwapNative", LIQ / 4).unwrap();
            w.run_path("pairSwapCw20Hook", LIQ / 4).unwrap();
        }
        w
    }

    fn build_vault(mut app: App, kind: Kind, funded: bool, admin: Addr, alice: Addr, token: Addr, token_id: u64) -> World {
        let vault_id = app.store_code(Box::new(
            ContractWrapper::new(::vault::contract::execute, ::vault::contract::instantiate, ::vault::contract::query)
                .with_reply(::vault::reply::reply)
                .with_migrate(::vault::contract::migrate),
        ));
        let vfac_id = app.store_code(Box::new(
            ContractWrapper::new(
                vault_factory::contract::execute,
                vault_factory::contract::instantiate,
                vault_factory::contract::query,
            )
            .with_reply(vault_factory::reply::reply),
        ));
        let vrouter_id = app.store_code(Box::new(ContractWrapper::new(
            vault_router::contract::execute,
            vault_router::contract::instantiate,
            vault_router::contract::query,
        )));
        let adv_id = app.store_code(adv_contract());
        let factory = app
            .instantiate_contract(
                vfac_id,
                admin.clone(),
                &vf::InstantiateMsg {
                    owner: admin.to_string(),
                    vault_id,
                    token_id,
                    fee_collector_addr: "collector".into(),
                },
                &[],
                "vfac",
                None,
            )
            .unwrap();
        let asset = if kind == Kind::VNative { nat("uluna") } else { tok(&token) };
        app.execute_contract(
            admin.clone(),
            factory.clone(),
            &vf::ExecuteMsg::CreateVault {
                asset_info: asset.clone(),
                fees: VaultFee { protocol_fee: fee(1), flash_loan_fee: fee(2), burn_fee: fee(1) },
                token_factory_lp: false,
            },
            &[],
        )
        .unwrap();
        let target: Option<String> =
            app.wrap().query_wasm_smart(&factory, &vf::QueryMsg::Vault { asset_info: asset }).unwrap();
        let target = Addr::unchecked(target.unwrap());
        let cfg: vault::Config = app.wrap().query_wasm_smart(&target, &vault::QueryMsg::Config {}).unwrap();
        let lp = match cfg.lp_asset {
            AssetInfo::Token { contract_addr } => Addr::unchecked(contract_addr),
            _ => panic!("native lp"),
        };
        let vrouter = app
            .instantiate_contract(
                vrouter_id,
                admin.clone(),
                &vr::InstantiateMsg { owner: admin.to_string(), vault_factory_addr: factory.to_string() },
                &[],
                "vrouter",
                None,
            )
            .unwrap();
        let adv = app.instantiate_contract(adv_id, admin.clone(), &Empty {}, &[], "adv", None).unwrap();
        // the borrower holds enough of the asset to pay the loan fees
        app.send_tokens(admin.clone(), adv.clone(), &coins(FUND / 10, "uluna")).unwrap();
        app.execute_contract(
            admin.clone(),
            token.clone(),
            &Cw20ExecuteMsg::Transfer { recipient: adv.to_string(), amount: (FUND / 10).into() },
            &[],
        )
        .unwrap();
        let mut w = World {
            app,
            kind,
            admin,
            alice,
            token,
            target,
            lp,
            factory,
            router: Some(vrouter),
            helper: None,
            adv: Some(adv),
        };
        if funded {
            w.vault_deposit(LIQ).unwrap();
            // the borrower contract holds LP shares too (it can send a withdrawal from inside a callback) …
            let (alice, lp, adv) = (w.alice.clone(), w.lp.clone(), w.adv.clone().unwrap());
            w.app
                .execute_contract(alice, lp, &Cw20ExecuteMsg::Transfer { recipient: adv.to_string(), amount: (LIQ / 10).into() }, &[])
                .unwrap();
            // … and an earlier loan has left protocol fees pending (so that fee collection moves something)
            w.run_path("vaultFlashLoan", LIQ / 2).unwrap();
        }
        w
    }

    // ------------------------------------------------------------------ flags
    pub fn flags(&self) -> [bool; 3] {
        match self.kind {
            Kind::Cp | Kind::Stable => {
                let c: pair::Config = self.app.wrap().query_wasm_smart(&self.target, &pair::QueryMsg::Config {}).unwrap();
                [c.feature_toggle.deposits_enabled, c.feature_toggle.withdrawals_enabled, c.feature_toggle.swaps_enabled]
            }
            Kind::Trio => {
                let c: trio::Config = self.app.wrap().query_wasm_smart(&self.target, &trio::QueryMsg::Config {}).unwrap();
                [c.feature_toggle.deposits_enabled, c.feature_toggle.withdrawals_enabled, c.feature_toggle.swaps_enabled]
            }
            Kind::VNative | Kind::VCw20 => {
                let c: vault::Config = self.app.wrap().query_wasm_smart(&self.target, &vault::QueryMsg::Config {}).unwrap();
                [c.deposit_enabled, c.withdraw_enabled, c.flash_loan_enabled]
            }
        }
    }

    /// the real write path of the switches: the factory owns pools and vaults
    /// one config write: all three switches (`Full`), only the named ones (`Partial`; a pool's
    /// `FeatureToggle` struct is completed with the values `cur` the caller believes to be current),
    /// or none at all (`Touch`: the update only re-states the fee collector address)
    pub fn write_cfg(&mut self, wr: &CfgWrite, cur: [bool; 3]) -> Result<(), String> {
        let (toggle, opts): (Option<[bool; 3]>, [Option<bool>; 3]) = match wr {
            CfgWrite::Full(f) | CfgWrite::FullWith(f) => (Some(*f), [Some(f[0]), Some(f[1]), Some(f[2])]),
            CfgWrite::Partial(o) => (Some([o[0].unwrap_or(cur[0]), o[1].unwrap_or(cur[1]), o[2].unwrap_or(cur[2])]), *o),
            CfgWrite::Touch => (None, [None, None, None]),
            CfgWrite::Migrate(_) => return Err("not a config write".into()),
        };
        let with = matches!(wr, CfgWrite::FullWith(_));
        let col = if matches!(wr, CfgWrite::Touch) || with { Some("collector".to_string()) } else { None };
        let r = match self.kind {
            Kind::Cp | Kind::Stable => self.app.execute_contract(
                self.admin.clone(),
                self.factory.clone(),
                &pf::ExecuteMsg::UpdatePairConfig {
                    pair_addr: self.target.to_string(),
                    owner: None,
                    fee_collector_addr: col.clone(),
                    pool_fees: if with { Some(pair::PoolFee { protocol_fee: fee(1), swap_fee: fee(2), burn_fee: fee(1) }) } else { None },
                    feature_toggle: toggle.map(|f| pair::FeatureToggle { deposits_enabled: f[0], withdrawals_enabled: f[1], swaps_enabled: f[2] }),
                },
                &[],
            ),
            Kind::Trio => self.app.execute_contract(
                self.admin.clone(),
                self.factory.clone(),
                &pf::ExecuteMsg::UpdateTrioConfig {
                    trio_addr: self.target.to_string(),
                    owner: None,
                    fee_collector_addr: col.clone(),
                    pool_fees: if with { Some(trio::PoolFee { protocol_fee: fee(1), swap_fee: fee(2), burn_fee: fee(1) }) } else { None },
                    feature_toggle: toggle.map(|f| trio::FeatureToggle { deposits_enabled: f[0], withdrawals_enabled: f[1], swaps_enabled: f[2] }),
                    amp_factor: None,
                },
                &[],
            ),
            Kind::VNative | Kind::VCw20 => self.app.execute_contract(
                self.admin.clone(),
                self.factory.clone(),
                &vf::ExecuteMsg::UpdateVaultConfig {
                    vault_addr: self.target.to_string(),
                    params: vault::UpdateConfigParams {
                        deposit_enabled: opts[0],
                        withdraw_enabled: opts[1],
                        flash_loan_enabled: opts[2],
                        new_owner: None,
                        new_vault_fees: if with { Some(VaultFee { protocol_fee: fee(1), flash_loan_fee: fee(2), burn_fee: fee(1) }) } else { None },
                        new_fee_collector_addr: col.clone(),
                    },
                },
                &[],
            ),
        };
        r.map(|_| ()).map_err(|e| format!("{e:#}"))
    }

    pub fn set_flags(&mut self, f: [bool; 3]) -> Result<(), String> {
        let r = match self.kind {
            Kind::Cp | Kind::Stable => self.app.execute_contract(
                self.admin.clone(),
                self.factory.clone(),
                &pf::ExecuteMsg::UpdatePairConfig {
                    pair_addr: self.target.to_string(),
                    owner: None,
                    fee_collector_addr: None,
                    pool_fees: None,
                    feature_toggle: Some(pair::FeatureToggle {
                        deposits_enabled: f[0],
                        withdrawals_enabled: f[1],
                        swaps_enabled: f[2],
                    }),
                },
                &[],
            ),
            Kind::Trio => self.app.execute_contract(
                self.admin.clone(),
                self.factory.clone(),
                &pf::ExecuteMsg::UpdateTrioConfig {
                    trio_addr: self.target.to_string(),
                    owner: None,
                    fee_collector_addr: None,
                    pool_fees: None,
                    feature_toggle: Some(trio::FeatureToggle {
                        deposits_enabled: f[0],
                        withdrawals_enabled: f[1],
                        swaps_enabled: f[2],
                    }),
                    amp_factor: None,
                },
                &[],
            ),
            Kind::VNative | Kind::VCw20 => self.app.execute_contract(
                self.admin.clone(),
                self.factory.clone(),
                &vf::ExecuteMsg::UpdateVaultConfig {
                    vault_addr: self.target.to_string(),
                    params: vault::UpdateConfigParams {
                        deposit_enabled: Some(f[0]),
                        withdraw_enabled: Some(f[1]),
                        flash_loan_enabled: Some(f[2]),
                        new_owner: None,
                        new_vault_fees: None,
                        new_fee_collector_addr: None,
                    },
                },
                &[],
            ),
        };
        r.map(|_| ()).map_err(|e| format!("{e:#}"))
    }

    // ------------------------------------------------------------------ migration
    /// one item of the raw storage of a contract
    pub fn raw_get(&self, addr: &Addr, key: &[u8]) -> Option<Vec<u8>> {
        self.app.dump_wasm_raw(addr).into_iter().find(|(k, _)| k.as_slice() == key).map(|(_, v)| v)
    }

    /// Writes one item of a contract's raw storage, from outside any contract (nothing a contract offers can
    /// lower its cw2 version or bring back an older layout).  cw-multi-test keeps a contract's storage under
    /// the length-prefixed namespaces `wasm` / `contract_data/<addr>`; the write is verified by reading the
    /// item back through the public `dump_wasm_raw`.
    pub fn raw_set(&mut self, addr: &Addr, key: &[u8], value: &[u8]) -> Result<(), String> {
        let mut full = vec![];
        for ns in [b"wasm".as_slice(), format!("contract_data/{addr}").as_bytes()] {
            full.extend_from_slice(&(ns.len() as u16).to_be_bytes());
            full.extend_from_slice(ns);
        }
        full.extend_from_slice(key);
        self.app.init_modules(|_, _, storage| storage.set(&full, value));
        if self.raw_get(addr, key).as_deref() == Some(value) {
            Ok(())
        } else {
            Err(format!("raw write of {:?} on {addr} did not land", String::from_utf8_lossy(key)))
        }
    }

    /// (contract name, version) of the cw2 item of the contract under test
    pub fn stored_version(&self) -> Option<(String, String)> {
        let raw = self.raw_get(&self.target, b"contract_info")?;
        let v: serde_json::Value = serde_json::from_slice(&raw).ok()?;
        Some((v.get("contract")?.as_str()?.to_string(), v.get("version")?.as_str()?.to_string()))
    }

    /// "the contract was deployed by release `from`": the stored cw2 version becomes `from`; `legacy`: the items
    /// that release laid out differently are rewritten in its layout, every value carried over
    pub fn arrange_release(&mut self, m: &MigSpec) -> Result<(), String> {
        let target = self.target.clone();
        let (name, _) = self.stored_version().ok_or("no cw2 item")?;
        let info = serde_json::json!({ "contract": name, "version": m.from_str() });
        self.raw_set(&target, b"contract_info", &serde_json::to_vec(&info).unwrap())?;
        if !m.legacy {
            return Ok(());
        }
        if !legacy_known(self.kind, m.from) {
            return Err("no older layout known for this release".into());
        }
        let load = |w: &World, key: &[u8]| -> Result<serde_json::Value, String> {
            serde_json::from_slice(&w.raw_get(&target, key).ok_or("item missing")?).map_err(|e| e.to_string())
        };
        if self.kind.is_pair() && m.from == (1, 1, 0) {
            // ConfigV110 { owner, fee_collector_addr, pool_fees: { protocol_fee, swap_fee }, feature_toggle }
            let mut c = load(self, b"config")?;
            c.get_mut("pool_fees").and_then(|f| f.as_object_mut()).ok_or("config.pool_fees")?.remove("burn_fee");
            self.raw_set(&target, b"config", &serde_json::to_vec(&c).unwrap())?;
        } else if self.kind.is_pair() {
            // PairInfoRawV120 { asset_infos, contract_addr, liquidity_token: CanonicalAddr, asset_decimals }
            let mut p = load(self, b"pair_info")?;
            let lp = p
                .get("liquidity_token")
                .and_then(|l| l.get("token"))
                .and_then(|t| t.get("contract_addr"))
                .cloned()
                .ok_or("pair_info.liquidity_token.token.contract_addr")?;
            let o = p.as_object_mut().ok_or("pair_info")?;
            o.insert("liquidity_token".into(), lp);
            o.remove("pair_type");
            self.raw_set(&target, b"pair_info", &serde_json::to_vec(&p).unwrap())?;
        } else {
            // ConfigV113 { owner, asset_info, flash_loan_enabled, deposit_enabled, withdraw_enabled,
            //              liquidity_token: Addr, fee_collector_addr, fees: { protocol_fee, flash_loan_fee } }
            let mut c = load(self, b"config")?;
            let lp = c
                .get("lp_asset")
                .and_then(|l| l.get("token"))
                .and_then(|t| t.get("contract_addr"))
                .cloned()
                .ok_or("config.lp_asset.token.contract_addr")?;
            let o = c.as_object_mut().ok_or("config")?;
            o.remove("lp_asset");
            o.insert("liquidity_token".into(), lp);
            o.get_mut("fees").and_then(|f| f.as_object_mut()).ok_or("config.fees")?.remove("burn_fee");
            self.raw_set(&target, b"config", &serde_json::to_vec(&c).unwrap())?;
        }
        Ok(())
    }

    /// the single judged transaction of a `migrate` line: the REAL `migrate` entry point, same code id
    pub fn run_migrate(&mut self, m: &MigSpec) -> Result<(), String> {
        let target = self.target.clone();
        let factory = self.factory.clone();
        let code_id = self.app.contract_data(&target).map_err(|e| e.to_string())?.code_id as u64;
        let sender = if m.via == Via::Stranger { self.alice.clone() } else { self.admin.clone() };
        match (m.via, self.kind) {
            (Via::Direct, Kind::Cp | Kind::Stable) => ex(self.app.migrate_contract(factory, target, &pair::MigrateMsg {}, code_id)),
            (Via::Direct, Kind::Trio) => ex(self.app.migrate_contract(factory, target, &trio::MigrateMsg {}, code_id)),
            (Via::Direct, _) => ex(self.app.migrate_contract(factory, target, &vault::MigrateMsg {}, code_id)),
            (_, Kind::Cp | Kind::Stable) => ex(self.app.execute_contract(
                sender,
                factory,
                &pf::ExecuteMsg::MigratePair { contract: target.to_string(), code_id: Some(code_id) },
                &[],
            )),
            (_, Kind::Trio) => ex(self.app.execute_contract(
                sender,
                factory,
                &pf::ExecuteMsg::MigrateTrio { contract: target.to_string(), code_id: Some(code_id) },
                &[],
            )),
            (_, _) => ex(self.app.execute_contract(
                sender,
                factory,
                &vf::ExecuteMsg::MigrateVaults { vault_addr: Some(target.to_string()), vault_code_id: code_id },
                &[],
            )),
        }
    }

    /// the switches as `Config{}` reports them, `None` when the query does not answer
    pub fn flags_checked(&self) -> Option<[bool; 3]> {
        match guarded(|| -> Result<[bool; 3], String> {
            Ok(match self.kind {
                Kind::Cp | Kind::Stable => {
                    let c: pair::Config =
                        self.app.wrap().query_wasm_smart(&self.target, &pair::QueryMsg::Config {}).map_err(|e| e.to_string())?;
                    [c.feature_toggle.deposits_enabled, c.feature_toggle.withdrawals_enabled, c.feature_toggle.swaps_enabled]
                }
                Kind::Trio => {
                    let c: trio::Config =
                        self.app.wrap().query_wasm_smart(&self.target, &trio::QueryMsg::Config {}).map_err(|e| e.to_string())?;
                    [c.feature_toggle.deposits_enabled, c.feature_toggle.withdrawals_enabled, c.feature_toggle.swaps_enabled]
                }
                Kind::VNative | Kind::VCw20 => {
                    let c: vault::Config =
                        self.app.wrap().query_wasm_smart(&self.target, &vault::QueryMsg::Config {}).map_err(|e| e.to_string())?;
                    [c.deposit_enabled, c.withdraw_enabled, c.flash_loan_enabled]
                }
            })
        }) {
            Outcome::Ok(f) => Some(f),
            _ => None,
        }
    }

    /// one step of a case's history: a config write, or a migration (refused or not, it is part of the
    /// history; only a failing ARRANGEMENT of the older release is an error of the machinery)
    pub fn apply(&mut self, wr: &CfgWrite, cur: [bool; 3]) -> Result<(), String> {
        match wr {
            CfgWrite::Migrate(m) => {
                self.arrange_release(m)?;
                let _ = guarded(|| self.run_migrate(m));
                Ok(())
            }
            _ => self.write_cfg(wr, cur),
        }
    }

    // ------------------------------------------------------------------ snapshot
    pub fn snapshot(&self) -> Snapshot {
        let mut out: Snapshot = vec![];
        for a in ["admin", "alice", "collector"] {
            let addr = Addr::unchecked(a);
            let mut b = self.app.wrap().query_all_balances(&addr).unwrap();
            b.sort_by(|x, y| x.denom.cmp(&y.denom));
            out.push((a.to_string(), b, vec![]));
        }
        let mut i = 0;
        loop {
            let addr = Addr::unchecked(format!("contract{i}"));
            if self.app.contract_data(&addr).is_err() {
                break;
            }
            let mut b = self.app.wrap().query_all_balances(&addr).unwrap();
            b.sort_by(|x, y| x.denom.cmp(&y.denom));
            out.push((addr.to_string(), b, self.app.dump_wasm_raw(&addr)));
            i += 1;
        }
        out
    }

    /// the snapshot without the switches themselves (the `config` item of the contract under test)
    pub fn snapshot_modulo_config(&self) -> Snapshot {
        let mut s = self.snapshot();
        for (a, _, raw) in s.iter_mut() {
            if *a == self.target.to_string() {
                raw.retain(|(k, _)| k.as_slice() != b"config");
            }
        }
        s
    }

    // ------------------------------------------------------------------ operations used for funding
    fn allow(&mut self, spender: &Addr, amount: u128) {
        self.app
            .execute_contract(
                self.alice.clone(),
                self.token.clone(),
                &Cw20ExecuteMsg::IncreaseAllowance { spender: spender.to_string(), amount: amount.into(), expires: None },
                &[],
            )
            .unwrap();
    }
    fn pair_assets(&self, amt: u128) -> [Asset; 2] {
        [Asset { info: nat("uluna"), amount: amt.into() }, Asset { info: tok(&self.token), amount: amt.into() }]
    }
    fn trio_assets(&self, amt: u128) -> [Asset; 3] {
        [
            Asset { info: nat("ua"), amount: amt.into() },
            Asset { info: nat("ub"), amount: amt.into() },
            Asset { info: tok(&self.token), amount: amt.into() },
        ]
    }
    fn pair_provide(&mut self, amt: u128) -> Result<(), String> {
        let t = self.target.clone();
        self.allow(&t, amt);
        self.app
            .execute_contract(
                self.alice.clone(),
                self.target.clone(),
                &pair::ExecuteMsg::ProvideLiquidity { assets: self.pair_assets(amt), slippage_tolerance: None, receiver: None },
                &coins(amt, "uluna"),
            )
            .map(|_| ())
            .map_err(|e| format!("{e:#}"))
    }
    fn trio_provide(&mut self, amt: u128) -> Result<(), String> {
        let t = self.target.clone();
        self.allow(&t, amt);
        self.app
            .execute_contract(
                self.alice.clone(),
                self.target.clone(),
                &trio::ExecuteMsg::ProvideLiquidity { assets: self.trio_assets(amt), slippage_tolerance: None, receiver: None },
                &[coin(amt, "ua"), coin(amt, "ub")],
            )
            .map(|_| ())
            .map_err(|e| format!("{e:#}"))
    }
    fn vault_deposit(&mut self, amt: u128) -> Result<(), String> {
        let funds = if self.kind == Kind::VNative {
            coins(amt, "uluna")
        } else {
            let t = self.target.clone();
            self.allow(&t, amt);
            vec![]
        };
        self.app
            .execute_contract(self.alice.clone(), self.target.clone(), &vault::ExecuteMsg::Deposit { amount: amt.into() }, &funds)
            .map(|_| ())
            .map_err(|e| format!("{e:#}"))
    }

    /// preparatory transactions of a path (allowances); not part of the judged transaction
    pub fn prepare(&mut self, path: &str, amt: u128) {
        match path {
            "pairProvide" | "trioProvide" => {
                let t = self.target.clone();
                self.allow(&t, amt)
            }
            "helperDeposit" => {
                let h = self.helper.clone().unwrap();
                self.allow(&h, amt)
            }
            "vaultDeposit" if self.kind == Kind::VCw20 => {
                let t = self.target.clone();
                self.allow(&t, amt)
            }
            _ => {}
        }
    }

    fn send_cw20(&mut self, token: &Addr, to: &Addr, amount: u128, msg: Binary) -> Result<(), String> {
        self.app
            .execute_contract(
                self.alice.clone(),
                token.clone(),
                &Cw20ExecuteMsg::Send { contract: to.to_string(), amount: amount.into(), msg },
                &[],
            )
            .map(|_| ())
            .map_err(|e| format!("{e:#}"))
    }

    fn vault_asset(&self) -> AssetInfo {
        if self.kind == Kind::VNative {
            nat("uluna")
        } else {
            tok(&self.token)
        }
    }
    fn pay_msg(&self, to: &Addr, amount: u128) -> CosmosMsg {
        if self.kind == Kind::VNative {
            BankMsg::Send { to_address: to.to_string(), amount: coins(amount, "uluna") }.into()
        } else {
            WasmMsg::Execute {
                contract_addr: self.token.to_string(),
                msg: to_json_binary(&Cw20ExecuteMsg::Transfer { recipient: to.to_string(), amount: amount.into() }).unwrap(),
                funds: vec![],
            }
            .into()
        }
    }

    /// the single judged transaction of an entry path
    pub fn run_path(&mut self, path: &str, amt: u128) -> Result<(), String> {
        let alice = self.alice.clone();
        let target = self.target.clone();
        let spread = Some(Decimal::percent(50));
        match path {
            // ---------------------------------------------------------------- pair
            "pairProvide" => ex(self.app.execute_contract(
                alice,
                target,
                &pair::ExecuteMsg::ProvideLiquidity { assets: self.pair_assets(amt), slippage_tolerance: None, receiver: None },
                &coins(amt, "uluna"),
            )),
            "helperDeposit" => ex(self.app.execute_contract(
                alice,
                self.helper.clone().unwrap(),
                &fh::ExecuteMsg::Deposit {
                    pair_address: target.to_string(),
                    assets: self.pair_assets(amt),
                    slippage_tolerance: None,
                    unbonding_duration: 86400,
                },
                &coins(amt, "uluna"),
            )),
            "pairWithdrawHook" => {
                let lp = self.lp.clone();
                self.send_cw20(&lp, &target, amt / 10, to_json_binary(&pair::Cw20HookMsg::WithdrawLiquidity {}).unwrap())
            }
            "pairWithdrawDirect" => {
                ex(self.app.execute_contract(alice, target, &pair::ExecuteMsg::WithdrawLiquidity {}, &coins(amt / 10, "uluna")))
            }
            "pairHookMalformed" | "trioHookMalformed" | "vaultHookMalformed" => {
                // three sends, each with a payload that is not a hook message; accepted if ANY of them is
                let lp = self.lp.clone();
                let payloads = [Binary::default(), Binary::from(b"{}".to_vec()), Binary::from(br#"{"unknown_hook":{}}"#.to_vec())];
                let mut out = Err("all refused".to_string());
                for pl in payloads {
                    if self.send_cw20(&lp, &target, amt / 30, pl).is_ok() {
                        out = Ok(());
                    }
                }
                out
            }
            "pairSwapNative" => ex(self.app.execute_contract(
                alice,
                target,
                &pair::ExecuteMsg::Swap {
                    offer_asset: Asset { info: nat("uluna"), amount: amt.into() },
                    belief_price: None,
                    max_spread: spread,
                    to: None,
                },
                &coins(amt, "uluna"),
            )),
            "pairSwapCw20Hook" => {
                let t = self.token.clone();
                self.send_cw20(
                    &t,
                    &target,
                    amt,
                    to_json_binary(&pair::Cw20HookMsg::Swap { belief_price: None, max_spread: spread, to: None }).unwrap(),
                )
            }
            "pairSwapDirectCw20" => ex(self.app.execute_contract(
                alice,
                target,
                &pair::ExecuteMsg::Swap {
                    offer_asset: Asset { info: tok(&self.token), amount: amt.into() },
                    belief_price: None,
                    max_spread: spread,
                    to: None,
                },
                &[],
            )),
            "routerHopNative" => ex(self.app.execute_contract(
                alice,
                self.router.clone().unwrap(),
                &router::ExecuteMsg::ExecuteSwapOperations {
                    operations: vec![router::SwapOperation::TerraSwap {
                        offer_asset_info: nat("uluna"),
                        ask_asset_info: tok(&self.token),
                    }],
                    minimum_receive: None,
                    to: None,
                    max_spread: spread,
                },
                &coins(amt, "uluna"),
            )),
            "routerHopCw20" => {
                let t = self.token.clone();
                let r = self.router.clone().unwrap();
                self.send_cw20(
                    &t,
                    &r,
                    amt,
                    to_json_binary(&router::Cw20HookMsg::ExecuteSwapOperations {
                        operations: vec![router::SwapOperation::TerraSwap {
                            offer_asset_info: tok(&self.token),
                            ask_asset_info: nat("uluna"),
                        }],
                        minimum_receive: None,
                        to: None,
                        max_spread: spread,
                    })
                    .unwrap(),
                )
            }
            "routerTwoHop" => ex(self.app.execute_contract(
                alice,
                self.router.clone().unwrap(),
                &router::ExecuteMsg::ExecuteSwapOperations {
                    operations: vec![
                        router::SwapOperation::TerraSwap { offer_asset_info: nat("uusd"), ask_asset_info: nat("uluna") },
                        router::SwapOperation::TerraSwap { offer_asset_info: nat("uluna"), ask_asset_info: tok(&self.token) },
                    ],
                    minimum_receive: None,
                    to: None,
                    max_spread: spread,
                },
                &coins(amt, "uusd"),
            )),
            "pairCollectFees" => ex(self.app.execute_contract(alice, target, &pair::ExecuteMsg::CollectProtocolFees {}, &[])),
            // ---------------------------------------------------------------- trio
            "trioProvide" => ex(self.app.execute_contract(
                alice,
                target,
                &trio::ExecuteMsg::ProvideLiquidity { assets: self.trio_assets(amt), slippage_tolerance: None, receiver: None },
                &[coin(amt, "ua"), coin(amt, "ub")],
            )),
            "trioWithdrawHook" => {
                let lp = self.lp.clone();
                self.send_cw20(&lp, &target, amt / 10, to_json_binary(&trio::Cw20HookMsg::WithdrawLiquidity {}).unwrap())
            }
            "trioWithdrawDirect" => {
                ex(self.app.execute_contract(alice, target, &trio::ExecuteMsg::WithdrawLiquidity {}, &coins(amt / 10, "ua")))
            }
            "trioSwapNative" => ex(self.app.execute_contract(
                alice,
                target,
                &trio::ExecuteMsg::Swap {
                    offer_asset: Asset { info: nat("ua"), amount: amt.into() },
                    ask_asset: tok(&self.token),
                    belief_price: None,
                    max_spread: spread,
                    to: None,
                },
                &coins(amt, "ua"),
            )),
            "trioSwapCw20Hook" => {
                let t = self.token.clone();
                self.send_cw20(
                    &t,
                    &target,
                    amt,
                    to_json_binary(&trio::Cw20HookMsg::Swap { ask_asset: nat("ub"), belief_price: None, max_spread: spread, to: None })
                        .unwrap(),
                )
            }
            "trioSwapDirectCw20" => ex(self.app.execute_contract(
                alice,
                target,
                &trio::ExecuteMsg::Swap {
                    offer_asset: Asset { info: tok(&self.token), amount: amt.into() },
                    ask_asset: nat("ua"),
                    belief_price: None,
                    max_spread: spread,
                    to: None,
                },
                &[],
            )),
            "trioCollectFees" => ex(self.app.execute_contract(alice, target, &trio::ExecuteMsg::CollectProtocolFees {}, &[])),
            // ---------------------------------------------------------------- vault
            "vaultDeposit" => {
                let funds = if self.kind == Kind::VNative { coins(amt, "uluna") } else { vec![] };
                ex(self.app.execute_contract(alice, target, &vault::ExecuteMsg::Deposit { amount: amt.into() }, &funds))
            }
            "vaultWithdrawHook" => {
                let lp = self.lp.clone();
                self.send_cw20(&lp, &target, amt / 10, to_json_binary(&vault::Cw20HookMsg::Withdraw {}).unwrap())
            }
            "vaultWithdrawDirect" => ex(self.app.execute_contract(alice, target, &vault::ExecuteMsg::Withdraw {}, &coins(amt / 10, "uusd"))),
            "vaultFlashLoan" => {
                let adv = self.adv.clone().unwrap();
                let payback: vault::PaybackAmountResponse = self
                    .app
                    .wrap()
                    .query_wasm_smart(&target, &vault::QueryMsg::GetPaybackAmount { amount: amt.into() })
                    .unwrap();
                let repay = AdvMsg::Run { msgs: vec![self.pay_msg(&target, payback.payback_amount.u128())] };
                let loan = WasmMsg::Execute {
                    contract_addr: target.to_string(),
                    msg: to_json_binary(&vault::ExecuteMsg::FlashLoan { amount: amt.into(), msg: to_json_binary(&repay).unwrap() })
                        .unwrap(),
                    funds: vec![],
                };
                ex(self.app.execute_contract(alice, adv, &AdvMsg::Run { msgs: vec![loan.into()] }, &[]))
            }
            "vaultRouterLoan" => {
                let adv = self.adv.clone().unwrap();
                let vrouter = self.router.clone().unwrap();
                let payback: vault::PaybackAmountResponse = self
                    .app
                    .wrap()
                    .query_wasm_smart(&target, &vault::QueryMsg::GetPaybackAmount { amount: amt.into() })
                    .unwrap();
                let fees = payback.payback_amount.u128() - amt;
                let payload: CosmosMsg = WasmMsg::Execute {
                    contract_addr: adv.to_string(),
                    msg: to_json_binary(&AdvMsg::Run { msgs: vec![self.pay_msg(&vrouter, fees + 7)] }).unwrap(),
                    funds: vec![],
                }
                .into();
                ex(self.app.execute_contract(
                    alice,
                    vrouter,
                    &vr::ExecuteMsg::FlashLoan {
                        assets: vec![Asset { info: self.vault_asset(), amount: amt.into() }],
                        msgs: vec![payload],
                    },
                    &[],
                ))
            }
            "vaultCollectFees" => ex(self.app.execute_contract(alice, target, &vault::ExecuteMsg::CollectProtocolFees {}, &[])),
            "vaultConfigStranger" => ex(self.app.execute_contract(alice, target, &Self::stranger_config(), &[])),
            "vaultCallbackExternal" => ex(self.app.execute_contract(alice, target, &Self::external_callback(), &[])),
            _ => Err("unknown path".into()),
        }
    }

    fn stranger_config() -> vault::ExecuteMsg {
        vault::ExecuteMsg::UpdateConfig(vault::UpdateConfigParams {
            flash_loan_enabled: Some(false),
            deposit_enabled: Some(false),
            withdraw_enabled: Some(false),
            new_owner: None,
            new_vault_fees: None,
            new_fee_collector_addr: None,
        })
    }
    fn external_callback() -> vault::ExecuteMsg {
        vault::ExecuteMsg::Callback(vault::CallbackMsg::AfterTrade { old_balance: Uint128::zero(), loan_amount: Uint128::zero() })
    }

    // ------------------------------------------------------------------ inside a flash-loan callback
    fn wasm<T: Serialize>(to: &Addr, msg: &T, funds: Vec<Coin>) -> CosmosMsg {
        WasmMsg::Execute { contract_addr: to.to_string(), msg: to_json_binary(msg).unwrap(), funds }.into()
    }
    fn payback(&self, amount: u128) -> u128 {
        let p: vault::PaybackAmountResponse = self
            .app
            .wrap()
            .query_wasm_smart(&self.target, &vault::QueryMsg::GetPaybackAmount { amount: amount.into() })
            .unwrap();
        p.payback_amount.u128()
    }
    fn vault_balance(&self) -> u128 {
        if self.kind == Kind::VNative {
            self.app.wrap().query_balance(&self.target, "uluna").unwrap().amount.u128()
        } else {
            let b: cw20::BalanceResponse = self
                .app
                .wrap()
                .query_wasm_smart(&self.token, &cw20::Cw20QueryMsg::Balance { address: self.target.to_string() })
                .unwrap();
            b.balance.u128()
        }
    }

    /// The message `inner` as sent by whoever acts inside the callback (it spends the sender's own asset /
    /// LP holdings), preceded by the messages that prepare it (`pre`: a cw20 allowance for a deposit).
    fn inner_msgs(&self, inner: &str, amt: u128) -> Option<(Vec<CosmosMsg>, CosmosMsg)> {
        let target = self.target.clone();
        let adv = self.adv.clone().unwrap();
        let half = (amt / 2).max(1);
        Some(match inner {
            "vaultDeposit" => {
                if self.kind == Kind::VNative {
                    (vec![], Self::wasm(&target, &vault::ExecuteMsg::Deposit { amount: amt.into() }, coins(amt, "uluna")))
                } else {
                    (
                        vec![Self::wasm(
                            &self.token,
                            &Cw20ExecuteMsg::IncreaseAllowance { spender: target.to_string(), amount: amt.into(), expires: None },
                            vec![],
                        )],
                        Self::wasm(&target, &vault::ExecuteMsg::Deposit { amount: amt.into() }, vec![]),
                    )
                }
            }
            "vaultWithdrawHook" => (
                vec![],
                Self::wasm(
                    &self.lp,
                    &Cw20ExecuteMsg::Send {
                        contract: target.to_string(),
                        amount: (amt / 10).into(),
                        msg: to_json_binary(&vault::Cw20HookMsg::Withdraw {}).unwrap(),
                    },
                    vec![],
                ),
            ),
            "vaultWithdrawDirect" => (vec![], Self::wasm(&target, &vault::ExecuteMsg::Withdraw {}, coins((amt / 10).max(1), "uluna"))),
            "vaultFlashLoan" => {
                // a second loan from the lending vault; its callback would repay it in full
                let repay = AdvMsg::Run { msgs: vec![self.pay_msg(&target, self.payback(half))] };
                (vec![], Self::wasm(&target, &vault::ExecuteMsg::FlashLoan { amount: half.into(), msg: to_json_binary(&repay).unwrap() }, vec![]))
            }
            "vaultRouterLoan" => {
                let vrouter = self.router.clone().unwrap();
                let fees = self.payback(half) - half;
                let payload = Self::wasm(&adv, &AdvMsg::Run { msgs: vec![self.pay_msg(&vrouter, fees + 7)] }, vec![]);
                (
                    vec![],
                    Self::wasm(
                        &vrouter,
                        &vr::ExecuteMsg::FlashLoan { assets: vec![Asset { info: self.vault_asset(), amount: half.into() }], msgs: vec![payload] },
                        vec![],
                    ),
                )
            }
            "vaultCollectFees" => (vec![], Self::wasm(&target, &vault::ExecuteMsg::CollectProtocolFees {}, vec![])),
            "vaultConfigStranger" => (vec![], Self::wasm(&target, &Self::stranger_config(), vec![])),
            "vaultCallbackExternal" => (vec![], Self::wasm(&target, &Self::external_callback(), vec![])),
            _ => return None,
        })
    }

    /// the single judged transaction of an `inloan` line
    pub fn run_inloan(&mut self, j: &InLoan, amt: u128) -> Result<AppResponse, String> {
        let alice = self.alice.clone();
        let target = self.target.clone();
        let adv = self.adv.clone().unwrap();
        let vrouter = self.router.clone().unwrap();
        let (pre, mut inner) = self.inner_msgs(&j.inner, amt).ok_or("unknown inner path")?;
        if j.dummy {
            inner = Self::wasm(&adv, &AdvMsg::Fail {}, vec![]);
        }
        let payback = self.payback(amt);
        let generous: Vec<CosmosMsg> = if j.gen { vec![self.pay_msg(&target, LIQ)] } else { vec![] };
        // what the borrower contract does when it is called from inside the loan
        let act = |post: Vec<CosmosMsg>| -> AdvMsg {
            if j.catch {
                AdvMsg::Try { pre: pre.clone(), inner: inner.clone(), post }
            } else {
                let mut msgs = pre.clone();
                msgs.push(inner.clone());
                msgs.extend(post);
                AdvMsg::Run { msgs }
            }
        };
        let r = match j.outer {
            Outer::Direct => {
                let mut post = vec![self.pay_msg(&target, payback)];
                post.extend(generous);
                let loan = Self::wasm(
                    &target,
                    &vault::ExecuteMsg::FlashLoan { amount: amt.into(), msg: to_json_binary(&act(post)).unwrap() },
                    vec![],
                );
                self.app.execute_contract(alice, adv, &AdvMsg::Run { msgs: vec![loan] }, &[])
            }
            Outer::Router => {
                // the router repays the vault itself (`CompleteLoan`); the borrower contract hands it the fees
                let mut post = vec![self.pay_msg(&vrouter, payback - amt + 7)];
                post.extend(generous);
                let payload = Self::wasm(&adv, &act(post), vec![]);
                self.app.execute_contract(
                    alice,
                    vrouter,
                    &vr::ExecuteMsg::FlashLoan { assets: vec![Asset { info: self.vault_asset(), amount: amt.into() }], msgs: vec![payload] },
                    &[],
                )
            }
            Outer::RouterSends => {
                if j.catch {
                    return Err("the router does not catch".into());
                }
                // the router is handed what the inner message spends, then sends it as its own message
                let mut give = vec![self.pay_msg(&vrouter, amt)];
                if j.inner == "vaultWithdrawHook" {
                    give.push(Self::wasm(&self.lp, &Cw20ExecuteMsg::Transfer { recipient: vrouter.to_string(), amount: (amt / 10).into() }, vec![]));
                }
                let mut post = vec![self.pay_msg(&vrouter, payback - amt + 7)];
                post.extend(generous);
                let mut payload = vec![Self::wasm(&adv, &AdvMsg::Run { msgs: give }, vec![])];
                payload.extend(pre.clone());
                payload.push(inner.clone());
                payload.push(Self::wasm(&adv, &AdvMsg::Run { msgs: post }, vec![]));
                self.app.execute_contract(
                    alice,
                    vrouter,
                    &vr::ExecuteMsg::FlashLoan { assets: vec![Asset { info: self.vault_asset(), amount: amt.into() }], msgs: payload },
                    &[],
                )
            }
        };
        r.map_err(|e| format!("{e:#}"))
    }

    /// preparatory transactions of a job; not part of the judged transaction
    pub fn prepare_job(&mut self, job: &Job, amt: u128) -> Result<(), String> {
        match job {
            Job::Migrate(m) => return self.arrange_release(m),
            Job::Path(p) => self.prepare(p, amt),
            Job::InLoan(_) => {
                // a vault without liquidity cannot lend: give it a plain transfer (no shares exist)
                if self.vault_balance() == 0 {
                    let (admin, target) = (self.admin.clone(), self.target.clone());
                    let m = self.pay_msg(&target, 2 * amt + 10);
                    self.app.execute(admin, m).unwrap();
                }
            }
        }
        Ok(())
    }
}

/// the borrower's record of the inner message: `Some(true)` ok, `Some(false)` failed (+ the error text)
fn inner_record(r: &AppResponse) -> (Option<bool>, String) {
    let mut rec = None;
    let mut err = String::new();
    for e in &r.events {
        for a in &e.attributes {
            if a.key == "inner_result" {
                rec = Some(a.value == "ok");
            }
            if a.key == "inner_err" {
                err = a.value.clone();
            }
        }
    }
    (rec, err)
}

fn ex<T, E: std::fmt::Display>(r: Result<T, E>) -> Result<(), String> {
    r.map(|_| ()).map_err(|e| format!("{e:#}"))
}

/// result of one path on one world
pub struct PathRun {
    /// "ok" | "err" | "panic" (a panic inside a contract aborts the transaction like an error does)
    pub outcome: &'static str,
    pub err: String,
    pub unchanged: bool,
    pub after_mod_cfg: Snapshot,
    /// the full snapshot after the transaction (switches included)
    pub after: Snapshot,
    /// the switches as `Config{}` reports them after the transaction
    pub flags_after: [bool; 3],
    /// `inloan`, catch mode, committed: what the borrower recorded for the inner message
    pub inner: Option<bool>,
    pub inner_err: String,
}
impl PathRun {
    pub fn ok(&self) -> bool {
        self.outcome == "ok"
    }
}

/// how a config write of the case's history was made
#[derive(Clone, Debug, PartialEq)]
pub enum CfgWrite {
    Full([bool; 3]),
    /// all three switches TOGETHER WITH the other fields of the message (fees re-stated, fee collector)
    FullWith([bool; 3]),
    Partial([Option<bool>; 3]),
    Touch,
    /// not a config write: the contract was migrated at this point of the history
    Migrate(MigSpec),
}

pub fn run_on_fresh(kind: Kind, funded: bool, sets: &[[bool; 3]], writes: &[CfgWrite], job: &Job, amt: u128) -> Outcome<PathRun> {
    guarded(|| -> Result<PathRun, String> {
        let mut w = World::build(kind, funded);
        let mut cur = [true, true, true];
        for (f, wr) in sets.iter().zip(writes.iter()) {
            w.apply(wr, cur)?;
            cur = *f;
        }
        w.prepare_job(job, amt)?;
        let before = w.snapshot();
        let mut inner = None;
        let mut inner_err = String::new();
        let (outcome, err) = match job {
            Job::Path(path) => match guarded(|| w.run_path(path, amt)) {
                Outcome::Ok(()) => ("ok", String::new()),
                Outcome::Err(e) => ("err", e),
                Outcome::Panic => ("panic", String::new()),
            },
            Job::InLoan(j) => match guarded(|| w.run_inloan(j, amt)) {
                Outcome::Ok(r) => {
                    (inner, inner_err) = inner_record(&r);
                    ("ok", String::new())
                }
                Outcome::Err(e) => ("err", e),
                Outcome::Panic => ("panic", String::new()),
            },
            Job::Migrate(m) => match guarded(|| w.run_migrate(m)) {
                Outcome::Ok(()) => ("ok", String::new()),
                Outcome::Err(e) => ("err", e),
                Outcome::Panic => ("panic", String::new()),
            },
        };
        let after = w.snapshot();
        let flags_after = w.flags_checked().unwrap_or(cur);
        Ok(PathRun {
            outcome,
            err,
            unchanged: before == after,
            after_mod_cfg: w.snapshot_modulo_config(),
            after,
            flags_after,
            inner,
            inner_err,
        })
    })
}

pub struct Toggles {
    variant: Kind,
    case_no: u64,
    // current case
    kind: Kind,
    funded: bool,
    amt: u128,
    sets: Vec<[bool; 3]>,
    /// how each entry of `sets` was written
    writes: Vec<CfgWrite>,
    world: Option<World>,
    plan: Vec<String>,
    twin: BTreeMap<(Kind, bool, u128, String, String), Twin>,
    /// the crate version of the contract under test, as `instantiate` stores it in the cw2 item
    crate_ver: Option<(u64, u64, u64)>,
}

/// what a job did on the never-paused twin world
#[derive(Clone)]
pub struct Twin {
    pub outcome: &'static str,
    pub after: Snapshot,
    pub inner: Option<bool>,
}

impl Toggles {
    pub fn new(variant: &str) -> Self {
        let k = Kind::parse(variant).unwrap_or(Kind::Cp);
        Toggles {
            variant: k,
            case_no: 0,
            kind: k,
            funded: false,
            amt: 100_000,
            sets: vec![],
            writes: vec![],
            world: None,
            plan: vec![],
            twin: BTreeMap::new(),
            crate_ver: None,
        }
    }

    /// The history of the never-paused twin: the case's migrations, nothing else — except that a config write
    /// re-stating the fees (`setw`) AFTER a migration from an older layout is kept with every switch on (such a
    /// migration legitimately zeroes the burn fee the older release did not have, the write brings it back).
    fn twin_history(&self) -> Vec<CfgWrite> {
        let mut out = vec![];
        let mut seen_legacy = false;
        for wr in &self.writes {
            match wr {
                CfgWrite::Migrate(m) => {
                    seen_legacy |= m.legacy;
                    out.push(wr.clone());
                }
                CfgWrite::FullWith(_) if seen_legacy => out.push(CfgWrite::FullWith([true, true, true])),
                _ => {}
            }
        }
        out
    }

    /// number of config writes (not migrations) of the case so far
    fn n_writes(&self) -> usize {
        self.writes.iter().filter(|w| !matches!(w, CfgWrite::Migrate(_))).count()
    }

    fn crate_version(&mut self) -> (u64, u64, u64) {
        if let Some(v) = self.crate_ver {
            return v;
        }
        let k = self.variant;
        let v = match guarded(|| -> Result<(u64, u64, u64), String> {
            let w = World::build(k, false);
            w.stored_version().and_then(|(_, v)| parse_ver(&v)).ok_or("no version".to_string())
        }) {
            Outcome::Ok(v) => v,
            _ => (0, 0, 0),
        };
        self.crate_ver = Some(v);
        v
    }

    fn twin_of(&mut self, job: &Job) -> Twin {
        let hist = self.twin_history();
        let hkey = hist
            .iter()
            .map(|w| match w {
                CfgWrite::Migrate(m) => m.token(),
                _ => "setw".to_string(),
            })
            .collect::<Vec<_>>()
            .join(";");
        let key = (self.kind, self.funded, self.amt, job.key(), hkey);
        if let Some(v) = self.twin.get(&key) {
            return v.clone();
        }
        let on = vec![[true, true, true]; hist.len()];
        let v = match run_on_fresh(self.kind, self.funded, &on, &hist, job, self.amt) {
            Outcome::Ok(r) => Twin { outcome: r.outcome, after: r.after_mod_cfg, inner: r.inner },
            _ => Twin { outcome: "broken", after: vec![], inner: None },
        };
        if self.twin.len() > 1200 {
            self.twin.clear();
        }
        self.twin.insert(key, v.clone());
        v
    }

    /// the three twin outcomes an `inloan` line carries for the model: the transaction's, the recorded
    /// inner one (`na`: the twin's transaction did not commit, or the inner message was a plain message and
    /// the transaction failed), and the transaction's when the inner message is one that fails (`c` lines)
    fn inloan_bases(&mut self, j: &InLoan) -> (String, String, String) {
        let t = self.twin_of(&Job::InLoan(j.clone()));
        let ibase = if t.outcome != "ok" {
            "na"
        } else {
            match t.inner {
                Some(true) => "ok",
                Some(false) => "err",
                // a committed transaction around a plain message: the message succeeded
                None => "ok",
            }
        };
        let fbase = if j.catch {
            let mut d = j.clone();
            d.dummy = true;
            self.twin_of(&Job::InLoan(d)).outcome.to_string()
        } else {
            "na".to_string()
        };
        (t.outcome.to_string(), ibase.to_string(), fbase)
    }

    fn parse_inloan(ws: &[&str]) -> Option<InLoan> {
        if ws.len() < 5 {
            return None;
        }
        let outer = Outer::parse(ws[1])?;
        let inner = ws[2].to_string();
        VAULT_PATHS.iter().find(|(n, _)| *n == inner)?;
        let catch = match ws[3] {
            "p" => false,
            "c" => true,
            _ => return None,
        };
        let gen = match ws[4] {
            "x" => false,
            "g" => true,
            _ => return None,
        };
        if outer == Outer::RouterSends && catch {
            return None;
        }
        Some(InLoan { outer, inner, catch, gen, dummy: false })
    }

    /// every `inloan` combination: 3 senders x 8 inner entry points x plain / caught x exact / generous
    fn inloan_matrix() -> Vec<InLoan> {
        let mut v = vec![];
        for outer in [Outer::Direct, Outer::Router, Outer::RouterSends] {
            for (inner, _) in VAULT_PATHS {
                for catch in [false, true] {
                    if outer == Outer::RouterSends && catch {
                        continue;
                    }
                    for gen in [false, true] {
                        v.push(InLoan { outer, inner: inner.to_string(), catch, gen, dummy: false });
                    }
                }
            }
        }
        v
    }

    /// The two migrations of case `i`: one the handler must refuse (stored version equal to / above the crate's,
    /// or sent by a stranger) and one from a LOWER version.  Lower versions: the previous patch release, the
    /// versions around every threshold any `migrate` handler of the repository compares against (1.0.4, 1.1.0,
    /// 1.1.3, 1.2.0, 1.3.4, incl. the feature-gated ones), far-away ones, the releases whose older storage
    /// layout can be put back (`L`: there the storage migration really rebuilds `Config` / `pair_info`), and in
    /// later rounds any PRNG version below the crate's.  On the current layout the storage migrations of the
    /// pair (from <= 1.0.4, 1.1.0, 1.2.0) and of the vault (from <= 1.1.3) cannot read the items and fail: a
    /// refused migration from a lower version (observed, nothing may change).
    fn mig_specs(kind: Kind, cv: (u64, u64, u64), i: u64, rng: &mut Rng, round: u64) -> (MigSpec, MigSpec) {
        let not_lower = [cv, (cv.0, cv.1, cv.2 + 1), (cv.0, cv.1 + 1, 0), (cv.0 + 1, 0, 0)];
        let prev = if cv.2 > 0 {
            (cv.0, cv.1, cv.2 - 1)
        } else if cv.1 > 0 {
            (cv.0, cv.1 - 1, 9)
        } else {
            (cv.0.saturating_sub(1), 9, 9)
        };
        let mut lower: Vec<((u64, u64, u64), bool)> = vec![(prev, false)];
        for v in [
            (1, 0, 0), (1, 0, 4), (1, 0, 5), (1, 1, 0), (1, 1, 1), (1, 1, 3), (1, 1, 4), (1, 2, 0), (1, 2, 1), (1, 2, 4), (1, 2, 6),
            (1, 3, 0), (1, 3, 3), (1, 3, 4), (1, 3, 7), (0, 9, 12), (0, 0, 1),
        ] {
            // (the vault's handler treats everything up to 1.1.3 alike: three representatives are enough)
            let dup = kind.is_vault() && v <= (1, 1, 3) && ![(1, 0, 0), (1, 1, 0), (1, 1, 3)].contains(&v);
            if v < cv && !dup && !lower.contains(&(v, false)) {
                lower.push((v, false));
            }
        }
        let legacy: &[(u64, u64, u64)] = if kind.is_pair() {
            &[(1, 1, 0), (1, 2, 0)]
        } else if kind.is_vault() {
            &[(1, 1, 3), (1, 0, 0), (1, 1, 0)]
        } else {
            &[]
        };
        // every third lower migration is one from an older layout (where there is one)
        for (n, v) in legacy.iter().enumerate() {
            if *v < cv {
                lower.insert((3 * n + 2).min(lower.len()), (*v, true));
            }
        }
        let refused = if i % 5 == 4 {
            MigSpec { via: Via::Stranger, from: prev, legacy: false }
        } else {
            MigSpec { via: if i % 2 == 0 { Via::Factory } else { Via::Direct }, from: not_lower[(i % 4) as usize], legacy: false }
        };
        let (from, leg) = if round >= 2 && rng.chance(1, 3) {
            // any version below the crate's
            let major = rng.below(cv.0 + 1);
            let minor = if major == cv.0 { rng.below(cv.1 + 1) } else { rng.below(12) };
            let patch = if (major, minor) == (cv.0, cv.1) { rng.below(cv.2.max(1)) } else { rng.below(12) };
            let v = (major, minor, patch);
            if v < cv { (v, false) } else { lower[0] }
        } else {
            lower[((i + i / 8) % lower.len() as u64) as usize]
        };
        // the factory's `MigratePair` first asks the pair for `Pool{}`, which the CURRENT code cannot answer on
        // the 1.2.0 layout of `pair_info` (on a chain the old code would): such a pair is migrated directly
        let via = if leg && kind.is_pair() && from == (1, 2, 0) {
            Via::Direct
        } else if (i / 2) % 2 == 0 {
            Via::Factory
        } else {
            Via::Direct
        };
        (refused, MigSpec { via, from, legacy: leg })
    }

    /// the case's history so far: switch values after each config write, migrations by their op token
    fn hist_str(&self) -> String {
        self.sets
            .iter()
            .zip(self.writes.iter())
            .map(|(f, w)| match w {
                CfgWrite::Migrate(m) => m.token(),
                _ => format!("{}{}{}", f[0] as u8, f[1] as u8, f[2] as u8),
            })
            .collect::<Vec<_>>()
            .join(", ")
    }

    fn flags_str(f: [bool; 3]) -> String {
        format!("a={} b={} c={}", f[0] as u8, f[1] as u8, f[2] as u8)
    }
}

impl Engine for Toggles {
    fn exec(&mut self, line: &str, mon: &mut Monitor) -> String {
        let ws: Vec<&str> = line.split_whitespace().collect();
        match ws.first().copied() {
            Some("init") => {
                if ws.get(1) != Some(&"toggles") {
                    return "bad-op".into();
                }
                let mut kind = None;
                let mut funded = None;
                let mut amt = None;
                for t in &ws[2..] {
                    match t.split_once('=') {
                        Some(("kind", v)) => kind = Kind::parse(v),
                        Some(("funded", v)) => funded = v.parse::<u8>().ok(),
                        Some(("amt", v)) => amt = v.parse::<u128>().ok(),
                        _ => return "bad-op".into(),
                    }
                }
                let (Some(kind), Some(funded), Some(amt)) = (kind, funded, amt) else { return "bad-op".into() };
                self.kind = kind;
                self.funded = funded != 0;
                self.amt = amt;
                self.sets.clear();
                self.writes.clear();
                let (k, fd) = (self.kind, self.funded);
                match guarded(|| -> Result<World, String> { Ok(World::build(k, fd)) }) {
                    Outcome::Ok(w) => {
                        let f = w.flags();
                        mon.check("C17", "initial_all_enabled", f == [true, true, true], || {
                            format!("fresh {} reports switches {:?}", kind.name(), f)
                        });
                        mon.stat(&format!("cells_{}_funded{}", kind.name(), funded));
                        self.world = Some(w);
                        format!("ok {}", Self::flags_str(f))
                    }
                    Outcome::Err(e) => {
                        mon.check("C17", "world_builds", false, || format!("world build failed: {e}"));
                        "err".into()
                    }
                    Outcome::Panic => {
                        mon.check("C17", "world_builds", false, || "world build panicked".to_string());
                        "panic".into()
                    }
                }
            }
            Some("set") => {
                let f: Vec<bool> = ws[1..].iter().filter_map(|t| t.parse::<u8>().ok()).map(|b| b != 0).collect();
                if f.len() != 3 || ws.len() != 4 {
                    return "bad-op".into();
                }
                let f = [f[0], f[1], f[2]];
                let Some(w) = self.world.as_mut() else { return "bad-op".into() };
                let before = w.snapshot_modulo_config();
                let r = w.set_flags(f);
                let got = w.flags();
                let after = w.snapshot_modulo_config();
                mon.check("C17", "set_flags_accepted_and_reported", r.is_ok() && got == f, || {
                    format!("set {:?} on {}: result {:?}, Config reports {:?}", f, self.kind.name(), r, got)
                });
                mon.check("C17", "set_flags_touches_only_config", before == after, || {
                    format!("set {:?} on {} changed state other than the config item", f, self.kind.name())
                });
                if r.is_ok() {
                    self.sets.push(f);
                    self.writes.push(CfgWrite::Full(f));
                }
                format!("{} {}", if r.is_ok() { "ok" } else { "err" }, Self::flags_str(got))
            }
            Some("setp") | Some("touch") | Some("setw") => {
                let cur = self.sets.last().copied().unwrap_or([true, true, true]);
                let wr = if ws[0] == "setw" {
                    if ws.len() != 4 || ws[1..].iter().any(|t| *t != "0" && *t != "1") {
                        return "bad-op".into();
                    }
                    CfgWrite::FullWith([ws[1] == "1", ws[2] == "1", ws[3] == "1"])
                } else if ws[0] == "touch" {
                    if ws.len() != 1 {
                        return "bad-op".into();
                    }
                    CfgWrite::Touch
                } else {
                    if ws.len() != 4 {
                        return "bad-op".into();
                    }
                    let mut o = [None; 3];
                    for k in 0..3 {
                        o[k] = match ws[k + 1] {
                            "-" => None,
                            "0" => Some(false),
                            "1" => Some(true),
                            _ => return "bad-op".into(),
                        };
                    }
                    CfgWrite::Partial(o)
                };
                let want = match &wr {
                    CfgWrite::Partial(o) => [o[0].unwrap_or(cur[0]), o[1].unwrap_or(cur[1]), o[2].unwrap_or(cur[2])],
                    CfgWrite::FullWith(f) | CfgWrite::Full(f) => *f,
                    CfgWrite::Touch => cur,
                    CfgWrite::Migrate(_) => cur,
                };
                let Some(w) = self.world.as_mut() else { return "bad-op".into() };
                let r = w.write_cfg(&wr, cur);
                let got = w.flags();
                // ---- C17: a config update changes exactly the switches it names
                mon.check("C17", "partial_update_changes_only_named_switches", r.is_ok() && got == want, || {
                    format!("{:?} on {} with switches {:?}: result {:?}, Config reports {:?}, expected {:?}", wr, self.kind.name(), cur, r, got, want)
                });
                if r.is_ok() {
                    self.sets.push(want);
                    self.writes.push(wr);
                }
                format!("{} {}", if r.is_ok() { "ok" } else { "err" }, Self::flags_str(got))
            }
            Some("migrate") => {
                // migrate <f|d|s> <x.y.z[L]> cur=<crate version> base=<twin outcome>
                if ws.len() != 5 || !ws[3].starts_with("cur=") || !ws[4].starts_with("base=") {
                    return "bad-op".into();
                }
                let Some(m) = MigSpec::parse(ws[1], ws[2]) else { return "bad-op".into() };
                if m.legacy && !legacy_known(self.kind, m.from) {
                    return "bad-op".into();
                }
                let cur = self.sets.last().copied().unwrap_or([true, true, true]);
                let hist = self.hist_str();
                let (kind, funded) = (self.kind, self.funded);
                let tok = m.token();
                let desc = |what: &str| format!("{} funded={} history=[{}] {} : {}", kind.name(), funded as u8, hist, tok, what);
                let Some(w) = self.world.as_mut() else { return "bad-op".into() };
                // what the chain shows before: the switches (Config{}), the version instantiate / the last
                // migration stored
                let flags_before = w.flags_checked();
                let crate_ver = self.crate_ver;
                if let Err(e) = w.arrange_release(&m) {
                    mon.check("C17", "world_builds", false, || desc(&format!("could not arrange the older release: {e}")));
                    return "err".into();
                }
                let before = w.snapshot();
                let (outcome, err) = match guarded(|| w.run_migrate(&m)) {
                    Outcome::Ok(()) => ("ok", String::new()),
                    Outcome::Err(e) => ("err", e),
                    Outcome::Panic => ("panic", String::new()),
                };
                let after = w.snapshot();
                let flags_after = w.flags_checked();
                let ver_after = w.stored_version().map(|(_, v)| v).unwrap_or_default();
                // ---- C17: a migration — refused or accepted, from whichever release — moves no switch
                mon.check("C17", "migrate_leaves_switches", flags_before.is_some() && flags_after == flags_before, || {
                    desc(&format!(
                        "Config reported the switches {:?} before the migration ({}) and {:?} after it (operator's last write: {:?})",
                        flags_before, outcome, flags_after, cur
                    ))
                });
                if outcome != "ok" {
                    mon.check("C17", "rejected_unchanged", before == after, || desc("refused migration changed balances or storage"));
                }
                // ---- statistics: which outcomes of which kinds of migration were reached
                let lower = crate_ver.map(|c| m.from < c);
                let class = match (m.via, lower, outcome) {
                    (Via::Stranger, _, "ok") => "stranger_ACCEPTED",
                    (Via::Stranger, _, _) => "stranger_refused",
                    (_, Some(false), "ok") => "not_lower_ACCEPTED",
                    (_, Some(false), _) => "not_lower_refused",
                    (_, _, "ok") if m.legacy => "lower_older_layout_storage_migration_ran",
                    (_, _, "ok") => "lower_accepted",
                    (_, _, _) if err.contains("Error parsing") || err.contains("unknown field") || err.contains("missing field") || err.contains("not found") => {
                        "lower_storage_migration_cannot_read_current_layout"
                    }
                    (_, _, _) => "lower_refused_other",
                };
                mon.stat(&format!("migrate_{class}"));
                mon.stat(&format!("migrate_via_{}_{}", ws[1], outcome));
                mon.stat(&format!("migrate_from_{}_{}", ws[2], outcome));
                if outcome == "ok" {
                    mon.stat(&format!("migrate_accepted_with_switches_{}", Self::flags_str(cur).replace(' ', "_")));
                    mon.stat(&format!("migrate_accepted_version_after_{ver_after}"));
                }
                self.sets.push(cur);
                self.writes.push(CfgWrite::Migrate(m));
                let f = match flags_after {
                    Some(f) => Self::flags_str(f),
                    None => "a=? b=? c=?".to_string(),
                };
                if outcome == "ok" {
                    format!("ok {f}")
                } else {
                    format!("{outcome} unchanged={} {f}", (before == after) as u8)
                }
            }
            Some("path") => {
                if ws.len() != 3 {
                    return "bad-op".into();
                }
                let path = ws[1];
                let Some(&(_, named)) = paths_of(self.kind).iter().find(|(n, _)| *n == path) else { return "bad-op".into() };
                let cur = self.sets.last().copied().unwrap_or([true, true, true]);
                let job = Job::Path(path.to_string());
                let Twin { outcome: base, after: base_after, .. } = self.twin_of(&job);
                let reenabled = self.n_writes() >= 2 && cur == [true, true, true];
                let sets = self.hist_str();
                let desc = |what: &str| {
                    format!(
                        "{} funded={} amt={} history=[{}] path={} : {}",
                        self.kind.name(),
                        self.funded as u8,
                        self.amt,
                        sets,
                        path,
                        what
                    )
                };
                match run_on_fresh(self.kind, self.funded, &self.sets, &self.writes, &job, self.amt) {
                    Outcome::Ok(r) => {
                        let disabled = named.map(|i| !cur[i]).unwrap_or(false);
                        mon.check("C17", "call_leaves_switches", r.flags_after == cur, || {
                            desc(&format!("the switches read {:?} after the call", r.flags_after))
                        });
                        if disabled {
                            mon.check("C17", "disabled_rejected", !r.ok(), || desc("switch off but the call succeeded"));
                            mon.check("C17", "disabled_unchanged", r.unchanged, || {
                                desc("switch off: balances or storage differ after the call")
                            });
                            mon.stat("path_disabled");
                        } else {
                            mon.check("C17", "enabled_same_outcome_as_twin", r.outcome == base, || {
                                desc(&format!("outcome {} but twin (all switches on) {} err={}", r.outcome, base, r.err))
                            });
                            mon.check("C17", "enabled_same_effect_as_twin", r.after_mod_cfg == base_after, || {
                                desc("balances/storage after the call differ from the twin world")
                            });
                            if reenabled {
                                mon.check("C17", "reenable_restores", r.outcome == base && r.after_mod_cfg == base_after, || {
                                    desc("after re-enabling, behaviour differs from the never-paused twin")
                                });
                            }
                            mon.stat(&format!("path_enabled_{}", r.outcome));
                        }
                        if !r.ok() {
                            mon.check("C17", "rejected_unchanged", r.unchanged, || desc("rejected call changed balances or storage"));
                            if r.err.contains("disabled") || r.err.contains("Disabled") {
                                mon.stat("err_kind_disabled");
                            } else {
                                mon.stat("err_kind_other");
                            }
                        }
                        let f = format!(
                            "{} named={}",
                            Self::flags_str(r.flags_after),
                            match named {
                                Some(0) => "a",
                                Some(1) => "b",
                                Some(2) => "c",
                                _ => "-",
                            }
                        );
                        if r.ok() {
                            format!("ok {f}")
                        } else {
                            format!("{} unchanged={} {f}", r.outcome, r.unchanged as u8)
                        }
                    }
                    Outcome::Err(e) => {
                        mon.check("C17", "world_builds", false, || desc(&format!("world build failed: {e}")));
                        "err".into()
                    }
                    Outcome::Panic => {
                        mon.check("C17", "no_panic", false, || desc("panicked"));
                        "panic".into()
                    }
                }
            }
            Some("inloan") => {
                if !self.kind.is_vault() || ws.len() != 8 {
                    return "bad-op".into();
                }
                let Some(j) = Self::parse_inloan(&ws) else { return "bad-op".into() };
                let Some(&(_, inner_named)) = VAULT_PATHS.iter().find(|(n, _)| *n == j.inner) else { return "bad-op".into() };
                let cur = self.sets.last().copied().unwrap_or([true, true, true]);
                let job = Job::InLoan(j.clone());
                let twin = self.twin_of(&job);
                let reenabled = self.n_writes() >= 2 && cur == [true, true, true];
                let sets = self.hist_str();
                let (kind, funded, amt) = (self.kind, self.funded, self.amt);
                let tok = j.token();
                let desc = |what: &str| format!("{} funded={} amt={} history=[{}] {} : {}", kind.name(), funded as u8, amt, sets, tok, what);
                let sw = |n: Option<usize>| match n {
                    Some(0) => "a",
                    Some(1) => "b",
                    Some(2) => "c",
                    _ => "-",
                };
                match run_on_fresh(kind, funded, &self.sets, &self.writes, &job, amt) {
                    Outcome::Ok(r) => {
                        // the loan is an invocation of "flash loan", the inner message one of its own operation
                        let outer_off = !cur[2];
                        let inner_off = inner_named.map(|i| !cur[i]).unwrap_or(false);
                        mon.check("C17", "call_leaves_switches", r.flags_after == cur, || {
                            desc(&format!("the switches read {:?} after the transaction", r.flags_after))
                        });
                        if outer_off {
                            mon.check("C17", "disabled_rejected", !r.ok(), || desc("flash loans are off but the loan transaction succeeded"));
                            mon.check("C17", "disabled_unchanged", r.unchanged, || {
                                desc("flash loans are off: balances or storage differ after the transaction")
                            });
                            mon.stat("inloan_outer_disabled");
                        } else if inner_off {
                            // ---- C17: the paused operation is refused on the in-callback path as well …
                            mon.check("C17", "disabled_rejected_in_callback", r.inner != Some(true) && (j.catch || !r.ok()), || {
                                desc(&format!(
                                    "switch {} is off but the message sent from inside the flash-loan callback went through (transaction {}, borrower recorded {:?})",
                                    sw(inner_named), r.outcome, r.inner
                                ))
                            });
                            if !j.catch {
                                // … its error fails the loan, nothing moves
                                mon.check("C17", "disabled_unchanged_in_callback", r.unchanged, || {
                                    desc("paused inner operation (plain message): balances or storage differ after the transaction")
                                });
                                mon.stat("inloan_inner_disabled_plain");
                            } else {
                                // … nothing moves on its account, and the loan around it goes on as it would
                                // around any failing message (same switches, inner message replaced)
                                let mut d = j.clone();
                                d.dummy = true;
                                match run_on_fresh(kind, funded, &self.sets, &self.writes, &Job::InLoan(d), amt) {
                                    Outcome::Ok(reference) => {
                                        mon.check("C17", "disabled_unchanged_in_callback", r.after == reference.after, || {
                                            desc("paused inner operation (caught): balances or storage differ from the same loan around a message that fails")
                                        });
                                        mon.check("C17", "loan_unaffected_by_paused_inner", r.outcome == reference.outcome, || {
                                            desc(&format!(
                                                "paused inner operation (caught): the loan ended {} but {} around a message that fails (err={})",
                                                r.outcome, reference.outcome, r.err
                                            ))
                                        });
                                    }
                                    _ => mon.check("C17", "world_builds", false, || desc("reference world failed")),
                                }
                                mon.stat(&format!("inloan_inner_disabled_caught_loan_{}", r.outcome));
                            }
                        } else {
                            mon.check("C17", "enabled_same_outcome_as_twin", r.outcome == twin.outcome && r.inner == twin.inner, || {
                                desc(&format!(
                                    "outcome {} inner {:?} but twin (all switches on) {} inner {:?} err={}",
                                    r.outcome, r.inner, twin.outcome, twin.inner, r.err
                                ))
                            });
                            mon.check("C17", "enabled_same_effect_as_twin", r.after_mod_cfg == twin.after, || {
                                desc("balances/storage after the transaction differ from the twin world")
                            });
                            if reenabled {
                                mon.check(
                                    "C17",
                                    "reenable_restores",
                                    r.outcome == twin.outcome && r.inner == twin.inner && r.after_mod_cfg == twin.after,
                                    || desc("after re-enabling, behaviour differs from the never-paused twin"),
                                );
                            }
                            mon.stat(&format!("inloan_enabled_{}", r.outcome));
                        }
                        if !r.ok() {
                            mon.check("C17", "rejected_unchanged", r.unchanged, || desc("rejected transaction changed balances or storage"));
                        }
                        // ---- statistics: which in-callback paths were reached, and how the inner message ended
                        mon.stat(&format!("inloan_{}_{}_{}", j.outer.name(), if j.catch { "caught" } else { "plain" }, r.outcome));
                        // (a failed transaction shows the outermost error only: the loan's own when flash loans are off)
                        let e = if r.ok() { &r.inner_err } else { &r.err };
                        let inner_kind = if outer_off {
                            "not_sent_loan_paused"
                        } else {
                            match r.inner {
                                Some(true) => "ok",
                                None if r.ok() => "ok_plain",
                                _ if e.contains("not enabled") => "refused_paused",
                                _ if e.contains("while flash-loaning") => "refused_deposit_during_loan",
                                _ if e.contains("Unauthorized") => "refused_unauthorized",
                                _ if e.contains("outside contract") => "refused_external_callback",
                                _ if e.contains("doesn't match the asset") => "refused_asset_mismatch",
                                // cw-multi-test hands `reply` the outermost error context only
                                Some(false) => "refused_caught_reason_hidden",
                                None if e.contains("Final desired amount") => "tx_failed_not_repaid",
                                None => "tx_failed_other",
                            }
                        };
                        mon.stat(&format!("inloan_inner_{}_{}", j.inner, inner_kind));
                        let f = format!("{} named=c/{}", Self::flags_str(r.flags_after), sw(inner_named));
                        if r.ok() {
                            let i = match r.inner {
                                Some(true) => "ok",
                                Some(false) => "err",
                                None => "-",
                            };
                            format!("ok {f} inner={i}")
                        } else {
                            format!("{} unchanged={} {f}", r.outcome, r.unchanged as u8)
                        }
                    }
                    Outcome::Err(e) => {
                        mon.check("C17", "world_builds", false, || desc(&format!("world build failed: {e}")));
                        "err".into()
                    }
                    Outcome::Panic => {
                        mon.check("C17", "no_panic", false, || desc("panicked"));
                        "panic".into()
                    }
                }
            }
            _ => "bad-op".into(),
        }
    }

    fn next_op(&mut self, rng: &mut Rng, step: u64) -> Option<String> {
        if step == 0 {
            let i = self.case_no;
            self.case_no += 1;
            let flags = i % 8;
            let funded = (i / 8) % 2;
            let round = i / 16;
            let amt: u128 = if round == 0 { 100_000 } else { [1u128, 1000, 10_000, 2_000_000][rng.below(4) as usize] + rng.below(50_000) as u128 };
            self.kind = self.variant;
            self.funded = funded != 0;
            self.amt = amt;
            let f = [flags & 1 != 0, flags & 2 != 0, flags & 4 != 0];
            // round 0 writes all three switches at once; later rounds name only the switches they turn
            // off (and, afterwards, only those they turn back on) and add an update naming no switch
            let mut plan = if round == 0 {
                vec![format!("set {} {} {}", f[0] as u8, f[1] as u8, f[2] as u8)]
            } else if round % 3 == 2 {
                // the switches travel together with other fields of the same message
                vec![format!("setw {} {} {}", f[0] as u8, f[1] as u8, f[2] as u8)]
            } else {
                let o = |b: bool| if b { "-" } else { "0" };
                let mut v = vec![format!("setp {} {} {}", o(f[0]), o(f[1]), o(f[2]))];
                if round % 2 == 1 {
                    v.push("touch".into());
                }
                v
            };
            // vaults: every entry point again, sent from inside a flash-loan callback of the vault (round 0:
            // the whole matrix of senders x inner entry points x plain / caught x exact / generous repayment;
            // later rounds: a PRNG sample of it, with PRNG amounts)
            let matrix = if self.variant.is_vault() { Self::inloan_matrix() } else { vec![] };
            let push_inloans = |plan: &mut Vec<String>, rng: &mut Rng, all: bool| {
                if matrix.is_empty() {
                    return;
                }
                if all {
                    for j in &matrix {
                        plan.push(j.token());
                    }
                } else {
                    for _ in 0..10 {
                        plan.push(rng.pick(&matrix).token());
                    }
                }
            };
            // ---- migrations of the case (see `mig_specs`): one that must be refused and one from a lower
            // version, sent after the switches were written (round 0: a full write; later rounds: a partial
            // write, possibly followed by a write naming no switch) and before every entry path is tried again
            let cv = self.crate_version();
            let (refused, lower) = Self::mig_specs(self.variant, cv, i, rng, round);
            if round >= 1 && round % 2 == 0 {
                // the pool was upgraded before the operator ever touched a switch
                let early = Self::mig_specs(self.variant, cv, i + 5, rng, round).1;
                plan.insert(0, early.token());
            }
            for (p, _) in paths_of(self.variant) {
                plan.push(format!("path {p}"));
            }
            push_inloans(&mut plan, rng, round == 0);
            plan.push(refused.token());
            plan.push(lower.token());
            for (p, _) in paths_of(self.variant) {
                plan.push(format!("path {p}"));
            }
            push_inloans(&mut plan, rng, false);
            if round >= 1 && self.variant.is_vault() {
                // the switches are flipped once more between operations: a second combination, written by
                // naming only the switches that change
                let g = rng.below(8);
                let g = [g & 1 != 0, g & 2 != 0, g & 4 != 0];
                let o = |k: usize| if g[k] == f[k] { "-".to_string() } else { (g[k] as u8).to_string() };
                plan.push(format!("setp {} {} {}", o(0), o(1), o(2)));
                if round % 2 == 1 {
                    // a second upgrade, now under the second combination
                    plan.push(Self::mig_specs(self.variant, cv, i + 3, rng, round).1.token());
                }
                for (p, _) in paths_of(self.variant) {
                    plan.push(format!("path {p}"));
                }
                push_inloans(&mut plan, rng, false);
                plan.push("set 1 1 1".into());
            } else if round == 0 {
                plan.push("set 1 1 1".into());
            } else if round % 3 == 2 {
                plan.push("setw 1 1 1".into());
            } else {
                let o = |b: bool| if b { "-" } else { "1" };
                plan.push(format!("setp {} {} {}", o(f[0]), o(f[1]), o(f[2])));
                if round % 2 == 1 {
                    // between the partial write that re-enables and the write naming no switch
                    plan.push(Self::mig_specs(self.variant, cv, i + 3, rng, round).1.token());
                }
                plan.push("touch".into());
            }

            for (p, _) in paths_of(self.variant) {
                plan.push(format!("path {p}"));
            }
            push_inloans(&mut plan, rng, round == 0);
            plan.reverse();
            self.plan = plan;
            return Some(format!("init toggles kind={} funded={} amt={}", self.variant.name(), funded, amt));
        }
        let l = self.plan.pop()?;
        if let Some(p) = l.strip_prefix("path ") {
            let p = p.to_string();
            let base = self.twin_of(&Job::Path(p.clone())).outcome;
            return Some(format!("path {p} base={base}"));
        }
        if l.starts_with("migrate ") {
            let ws: Vec<&str> = l.split_whitespace().collect();
            if let Some(m) = ws.get(1).zip(ws.get(2)).and_then(|(v, f)| MigSpec::parse(v, f)) {
                let cv = self.crate_version();
                let base = self.twin_of(&Job::Migrate(m)).outcome;
                return Some(format!("{l} cur={}.{}.{} base={base}", cv.0, cv.1, cv.2));
            }
        }
        if l.starts_with("inloan ") {
            let ws: Vec<&str> = l.split_whitespace().collect();
            if let Some(j) = Self::parse_inloan(&ws) {
                let (base, ibase, fbase) = self.inloan_bases(&j);
                return Some(format!("{l} base={base} ibase={ibase} fbase={fbase}"));
            }
        }
        Some(l)
    }
}

/// Completeness of the entry-path enumeration, enforced at compile time: every `ExecuteMsg` /
/// `Cw20HookMsg` variant of pair, 3pool, vault and of the three indirect callers is mapped — through a
/// `match` WITHOUT wildcard — to the entry paths that exercise it (or to the reason it is not an entry
/// of a pausable operation).  A new variant in the sources stops the harness from compiling.
#[allow(dead_code)]
pub mod completeness {
    use super::*;
    pub fn pair_exec(m: &pair::ExecuteMsg) -> &'static [&'static str] {
        match m {
            pair::ExecuteMsg::Receive(_) => &["pairWithdrawHook", "pairSwapCw20Hook", "routerHopCw20"],
            pair::ExecuteMsg::ProvideLiquidity { .. } => &["pairProvide", "helperDeposit"],
            pair::ExecuteMsg::WithdrawLiquidity {} => &["pairWithdrawDirect"],
            pair::ExecuteMsg::Swap { .. } => &["pairSwapNative", "pairSwapDirectCw20", "routerHopNative", "routerTwoHop"],
            pair::ExecuteMsg::UpdateConfig { .. } => &["set"],
            pair::ExecuteMsg::CollectProtocolFees {} => &["pairCollectFees"],
        }
    }
    pub fn pair_hook(m: &pair::Cw20HookMsg) -> &'static [&'static str] {
        match m {
            pair::Cw20HookMsg::Swap { .. } => &["pairSwapCw20Hook", "routerHopCw20"],
            pair::Cw20HookMsg::WithdrawLiquidity {} => &["pairWithdrawHook"],
        }
    }
    pub fn trio_exec(m: &trio::ExecuteMsg) -> &'static [&'static str] {
        match m {
            trio::ExecuteMsg::Receive(_) => &["trioWithdrawHook", "trioSwapCw20Hook"],
            trio::ExecuteMsg::ProvideLiquidity { .. } => &["trioProvide"],
            trio::ExecuteMsg::WithdrawLiquidity {} => &["trioWithdrawDirect"],
            trio::ExecuteMsg::Swap { .. } => &["trioSwapNative", "trioSwapDirectCw20"],
            trio::ExecuteMsg::UpdateConfig { .. } => &["set"],
            trio::ExecuteMsg::CollectProtocolFees {} => &["trioCollectFees"],
        }
    }
    pub fn trio_hook(m: &trio::Cw20HookMsg) -> &'static [&'static str] {
        match m {
            trio::Cw20HookMsg::Swap { .. } => &["trioSwapCw20Hook"],
            trio::Cw20HookMsg::WithdrawLiquidity {} => &["trioWithdrawHook"],
        }
    }
    pub fn vault_exec(m: &vault::ExecuteMsg) -> &'static [&'static str] {
        match m {
            vault::ExecuteMsg::Deposit { .. } => &["vaultDeposit"],
            vault::ExecuteMsg::Withdraw {} => &["vaultWithdrawDirect"],
            vault::ExecuteMsg::FlashLoan { .. } => &["vaultFlashLoan", "vaultRouterLoan"],
            vault::ExecuteMsg::CollectProtocolFees {} => &["vaultCollectFees"],
            vault::ExecuteMsg::UpdateConfig(_) => &["set", "vaultConfigStranger"],
            vault::ExecuteMsg::Receive(_) => &["vaultWithdrawHook"],
            // only callable by the vault itself, inside a flash loan; sent by outsiders (and by the borrower
            // from inside a callback) as `vaultCallbackExternal`
            vault::ExecuteMsg::Callback(_) => &["vaultCallbackExternal"],
        }
    }
    pub fn vault_hook(m: &vault::Cw20HookMsg) -> &'static [&'static str] {
        match m {
            vault::Cw20HookMsg::Withdraw {} => &["vaultWithdrawHook"],
        }
    }
    pub fn router_exec(m: &router::ExecuteMsg) -> &'static [&'static str] {
        match m {
            router::ExecuteMsg::Receive(_) => &["routerHopCw20"],
            router::ExecuteMsg::ExecuteSwapOperations { .. } => &["routerHopNative", "routerTwoHop"],
            // internal (self-only) steps of ExecuteSwapOperations
            router::ExecuteMsg::ExecuteSwapOperation { .. } => &[],
            router::ExecuteMsg::AssertMinimumReceive { .. } => &[],
            // route bookkeeping, never reaches a pool's execute entry
            router::ExecuteMsg::AddSwapRoutes { .. } => &[],
            router::ExecuteMsg::RemoveSwapRoutes { .. } => &[],
        }
    }
    pub fn router_swap_op(m: &router::SwapOperation) -> &'static [&'static str] {
        match m {
            router::SwapOperation::TerraSwap { .. } => &["routerHopNative", "routerHopCw20", "routerTwoHop"],
        }
    }
    pub fn helper_exec(m: &fh::ExecuteMsg) -> &'static [&'static str] {
        match m {
            fh::ExecuteMsg::Deposit { .. } => &["helperDeposit"],
            fh::ExecuteMsg::UpdateConfig { .. } => &[],
        }
    }
    pub fn vault_router_exec(m: &vr::ExecuteMsg) -> &'static [&'static str] {
        match m {
            vr::ExecuteMsg::FlashLoan { .. } => &["vaultRouterLoan"],
            vr::ExecuteMsg::UpdateConfig { .. } => &[],
            // internal continuation steps of FlashLoan
            vr::ExecuteMsg::NextLoan { .. } => &[],
            vr::ExecuteMsg::CompleteLoan { .. } => &[],
        }
    }
}
