#!/usr/bin/env python3
"""Regenerate lean/WW/Gen/Constants.lean from /repo's current sources (every check run).

Each entry: (lean_name, file relative to /repo, regex with one group capturing the numeric
literal).  A constant that is no longer found is a broken tie: the script exits 3 and names it.
The models use these generated values; the property theorems pin the *documented* numbers, so a
changed constant breaks a proof obligation (`WW/Props/Consts.lean` and the per-property files).
"""
import os
import re
import sys

REPO = os.environ.get("VERIF_REPO", "/repo")
OUT = os.path.join(os.path.dirname(os.path.abspath(__file__)), "..", "lean", "WW", "Gen", "Constants.lean")

LH = "contracts/liquidity_hub/"
PN = LH + "pool-network/"
NUM = r"([0-9][0-9_]*)"
DECSTR = r'"([0-9]+(?:\.[0-9]{1,18})?)"'  # a `Decimal::from_str` literal; value = 18-decimal atomics


def dec18(s):
    """atomics of `Decimal::from_str(s)` (18 fractional digits)"""
    whole, _, frac = s.partition(".")
    return int(whole) * 10 ** 18 + int((frac + "0" * 18)[:18] or "0")


TABLE = [
    ("MINIMUM_LIQUIDITY_AMOUNT", "packages/white-whale-std/src/pool_network/asset.rs",
     r"pub const MINIMUM_LIQUIDITY_AMOUNT: Uint128 = Uint128::new\(" + NUM + r"u128\)"),
    ("PAIR_MINIMUM_COLLECTABLE_BALANCE", PN + "terraswap_pair/src/commands.rs",
     r"const MINIMUM_COLLECTABLE_BALANCE: Uint128 = Uint128::new\(" + NUM + r"u128\)"),
    ("TRIO_MINIMUM_COLLECTABLE_BALANCE", PN + "stableswap_3pool/src/commands.rs",
     r"const MINIMUM_COLLECTABLE_BALANCE: Uint128 = Uint128::new\(" + NUM + r"u128\)"),
    ("PAIR_NEWTON_ITERATIONS", PN + "terraswap_pair/src/helpers.rs", r"const NEWTON_ITERATIONS: u64 = " + NUM),
    ("PAIR_N_COINS", PN + "terraswap_pair/src/helpers.rs", r"const N_COINS: Uint256 = Uint256::from_u128\(" + NUM + r"\)"),
    ("PAIR_COMPUTE_D_ITERATIONS", PN + "terraswap_pair/src/helpers.rs",
     r"for _ in 0\.\." + NUM + r" \{\s*let mut d_prod = d;"),
    ("PAIR_MIN_AMP", PN + "terraswap_pair/src/contract.rs", r"pub const MIN_AMP: u64 = " + NUM),
    ("PAIR_MAX_AMP", PN + "terraswap_pair/src/contract.rs", r"pub const MAX_AMP: u64 = " + NUM),
    ("TRIO_MIN_AMP", PN + "stableswap_3pool/src/contract.rs", r"pub const MIN_AMP: u64 = " + NUM),
    ("TRIO_MAX_AMP", PN + "stableswap_3pool/src/contract.rs", r"pub const MAX_AMP: u64 = " + NUM),
    ("TRIO_MIN_RAMP_BLOCKS", PN + "stableswap_3pool/src/contract.rs", r"pub const MIN_RAMP_BLOCKS: u64 = " + NUM),
    ("TRIO_MAX_AMP_CHANGE", PN + "stableswap_3pool/src/contract.rs", r"pub const MAX_AMP_CHANGE: u64 = " + NUM),
    ("COLLECTOR_MINIMUM_AGGREGABLE_BALANCE", LH + "fee_collector/src/commands.rs",
     r"const MINIMUM_AGGREGABLE_BALANCE: Uint128 = Uint128::new\(" + NUM + r"u128\)"),
    # the page limit of the four CollectFees / AggregateFees self-calls of `forward_fees` (vault factory,
    # pool factory, twice each): all four must pass the SAME `limit: Some(<n>u32)`; `limit: None`, a
    # different spelling, or four limits that are not equal leave the pattern unmatched (MISSING-CONSTANT)
    ("COLLECTOR_FORWARD_FEES_LIMIT", LH + "fee_collector/src/commands.rs",
     r"pub fn forward_fees\((?:(?!\n\}\n)[\s\S])*?"
     r"FactoryType::Vault \{\s*start_after: None,\s*limit: Some\(" + NUM + r"u32\),\s*\}(?:(?!\n\}\n)[\s\S])*?"
     r"FactoryType::Pool \{\s*start_after: None,\s*limit: Some\(\1u32\),\s*\}(?:(?!\n\}\n)[\s\S])*?"
     r"FactoryType::Vault \{\s*start_after: None,\s*limit: Some\(\1u32\),\s*\}(?:(?!\n\}\n)[\s\S])*?"
     r"FactoryType::Pool \{\s*start_after: None,\s*limit: Some\(\1u32\),\s*\}"
     r"(?:(?!\n\}\n|FactoryType::)[\s\S])*\n\}\n"),
    ("DISTRIBUTOR_MAX_GRACE_PERIOD", LH + "fee_distributor/src/helpers.rs", r"const MAX_GRACE_PERIOD: u64 = " + NUM),
    ("DISTRIBUTOR_DAY_IN_NANOSECONDS", LH + "fee_distributor/src/helpers.rs",
     r"pub const DAY_IN_NANOSECONDS: u64 = " + NUM),
    ("LAIR_BONDING_ASSETS_LIMIT", LH + "whale_lair/src/state.rs", r"pub const BONDING_ASSETS_LIMIT: usize = " + NUM),
    ("LAIR_DAY_IN_NANOSECONDS", LH + "whale_lair/src/helpers.rs", r"pub const DAY_IN_NANOSECONDS: u64 = " + NUM),
    ("LAIR_MAX_PAGE_LIMIT", LH + "whale_lair/src/queries.rs", r"pub const MAX_PAGE_LIMIT: u8 = " + NUM),
    ("LAIR_DEFAULT_PAGE_LIMIT", LH + "whale_lair/src/queries.rs", r"pub const DEFAULT_PAGE_LIMIT: u8 = " + NUM),
    ("INCENTIVE_MAX_EPOCH_LIMIT", PN + "incentive/src/helpers.rs", r"pub const MAX_EPOCH_LIMIT: u64 = " + NUM),
    ("INCENTIVE_EPOCH_CLAIM_CAP", PN + "incentive/src/claim.rs", r"pub const EPOCH_CLAIM_CAP: u64 = " + NUM),
    ("INCENTIVE_MIN_FLOW_AMOUNT", PN + "incentive/src/execute/open_flow.rs",
     r"const MIN_FLOW_AMOUNT: Uint128 = Uint128::new\(" + NUM + r"u128\)"),
    ("INCENTIVE_DEFAULT_FLOW_DURATION", PN + "incentive/src/execute/open_flow.rs",
     r"pub const DEFAULT_FLOW_DURATION: u64 = " + NUM),
    ("INCENTIVE_FLOW_EXPANSION_BUFFER", PN + "incentive/src/execute/expand_flow.rs",
     r"const FLOW_EXPANSION_BUFFER: u64 = " + NUM),
    ("INCENTIVE_FLOW_EXPANSION_LIMIT", PN + "incentive/src/execute/expand_flow.rs",
     r"const FLOW_EXPANSION_LIMIT: u64 = " + NUM),
    ("INCENTIVE_WEIGHT_MIN_DURATION", PN + "incentive/src/weight.rs", r"if !\(" + NUM + r"\.\.="),
    ("INCENTIVE_WEIGHT_MAX_DURATION", PN + "incentive/src/weight.rs", r"\.\.=" + NUM + r"\)\.contains"),
    ("INCENTIVE_WEIGHT_SQ_COEFF", PN + "incentive/src/weight.rs",
     r"unbonding_duration_squared\.checked_mul\(Decimal256::raw\(" + NUM + r"\)\)"),
    ("INCENTIVE_WEIGHT_SQ_DENOM", PN + "incentive/src/weight.rs",
     r"unbonding_duration_mul\.checked_div\(Decimal256::raw\(" + NUM + r"\)\)"),
    ("INCENTIVE_WEIGHT_LIN_COEFF", PN + "incentive/src/weight.rs",
     r"\.checked_mul\(Decimal256::raw\(" + NUM + r"\)\)\?\s*\.checked_div"),
    ("INCENTIVE_WEIGHT_LIN_DENOM", PN + "incentive/src/weight.rs",
     r"\.checked_mul\(Decimal256::raw\([0-9_]+\)\)\?\s*\.checked_div\(Decimal256::raw\(" + NUM + r"\)\)"),
    ("INCENTIVE_WEIGHT_CONST_NUM", PN + "incentive/src/weight.rs", r"Decimal256::from_ratio\(" + NUM + r"u64, "),
    ("INCENTIVE_WEIGHT_CONST_DEN", PN + "incentive/src/weight.rs",
     r"Decimal256::from_ratio\([0-9_]+u64, " + NUM + r"u64\)"),
    ("POOL_FACTORY_MAX_LIMIT", PN + "terraswap_factory/src/state.rs", r"const MAX_LIMIT: u32 = " + NUM),
    ("POOL_FACTORY_DEFAULT_LIMIT", PN + "terraswap_factory/src/state.rs", r"const DEFAULT_LIMIT: u32 = " + NUM),
    ("VAULT_FACTORY_MAX_LIMIT", LH + "vault-network/vault_factory/src/state.rs", r"const MAX_LIMIT: u32 = " + NUM),
    ("VAULT_FACTORY_DEFAULT_LIMIT", LH + "vault-network/vault_factory/src/state.rs", r"const DEFAULT_LIMIT: u32 = " + NUM),
    ("INCENTIVE_FACTORY_MAX_LIMIT", PN + "incentive_factory/src/queries/get_incentives.rs",
     r"const MAX_LIMIT: u32 = " + NUM),
    ("INCENTIVE_FACTORY_DEFAULT_LIMIT", PN + "incentive_factory/src/queries/get_incentives.rs",
     r"const DEFAULT_LIMIT: u32 = " + NUM),
    ("SWAP_DEFAULT_SLIPPAGE", "packages/white-whale-std/src/pool_network/swap.rs",
     r"pub const DEFAULT_SLIPPAGE: &str = " + DECSTR, dec18),
    ("SWAP_MAX_ALLOWED_SLIPPAGE", "packages/white-whale-std/src/pool_network/swap.rs",
     r"pub const MAX_ALLOWED_SLIPPAGE: &str = " + DECSTR, dec18),
    ("SWAP_DEFAULT_SLIPPAGE_ATOMICS", "packages/white-whale-std/src/pool_network/swap.rs",
     r"pub const DEFAULT_SLIPPAGE: &str = " + DECSTR, dec18),
    ("SWAP_MAX_ALLOWED_SLIPPAGE_ATOMICS", "packages/white-whale-std/src/pool_network/swap.rs",
     r"pub const MAX_ALLOWED_SLIPPAGE: &str = " + DECSTR, dec18),
]


def main():
    lines = ["/- GENERATED by tools/extract_constants.py from /repo on every check run. Do not edit. -/",
             "namespace WW.Gen", ""]
    missing = []
    for name, rel, rx, *conv in TABLE:
        path = os.path.join(REPO, rel)
        try:
            src = open(path).read()
        except OSError:
            missing.append(f"{name} ({rel}: file not found)")
            continue
        m = re.search(rx, src)
        if not m:
            missing.append(f"{name} ({rel}: pattern not found)")
            continue
        val = conv[0](m.group(1)) if conv else int(m.group(1).replace("_", ""))
        lines.append(f"/-- `{rel}` -/")
        lines.append(f"def {name} : Nat := {val}")
    lines += ["", "end WW.Gen", ""]
    text = "\n".join(lines)
    if missing:
        for m in missing:
            print("MISSING-CONSTANT " + m)
        return 3
    old = None
    try:
        old = open(OUT).read()
    except OSError:
        pass
    if old != text:
        os.makedirs(os.path.dirname(OUT), exist_ok=True)
        with open(OUT, "w") as f:
            f.write(text)
        print("constants: regenerated")
    else:
        print("constants: unchanged")
    return 0


if __name__ == "__main__":
    sys.exit(main())
