#!/usr/bin/env python3
"""tools/status_table.py : rewrite the rows of DESIGN.md section 9.4 (theorem counts from evidence/, engines from
tools/checks, known findings from known_findings.json); the hand-written 'strength' column is kept."""
import json, re, os
ROOT = os.path.dirname(os.path.dirname(os.path.abspath(__file__)))
p = os.path.join(ROOT, "DESIGN.md")
s = open(p).read()
kf = json.load(open(os.path.join(ROOT, "known_findings.json")))
ids = {}
for f in kf["findings"]:
    ids.setdefault(f["property"], set()).add(f["id"])
def row(m):
    pid, _n, strength, _eng, _k = m.group(1), m.group(2), m.group(3), m.group(4), m.group(5)
    ev = json.load(open(os.path.join(ROOT, "evidence", pid + ".json")))
    txt = json.dumps(ev)
    mo = re.search(r'"obligations(?:_total)?":\s*(\d+)', txt)
    n = mo.group(1) if mo else _n
    cfg = json.load(open(os.path.join(ROOT, "tools", "checks", pid + ".json")))
    engs = sorted({e["engine"] + (":" + e["variant"] if e.get("variant") else "") for e in cfg["engines"]})
    k = len(ids.get(pid, ()))
    return f"| {pid} | {n} | {strength} | {', '.join(engs)} | {k if k else '–'} |"
new = re.sub(r"^\| (C\d\d) \| (\d+) \| (.*?) \| ([^|]*) \| ([^|]*) \|$", row, s, flags=re.M)
open(p, "w").write(new)
print("rows rewritten:", len(re.findall(r"^\| C\d\d \| \d+ \|", new, flags=re.M)))
