#!/bin/bash
# tools/confirm_seed.sh <seed dir> <scratch worktree> : confirm a seeded change independently:
#  demo passes on the clean tree, fails with the change; the unedited baseline suite passes with the change.
D=$1; WT=$2
cd "$WT" || exit 2
git checkout -q -- . ; git clean -fdq -e target
CMD=${DEMO_CMD:-$(awk '/^## Run the demonstration/{f=1;next} /^## /{f=0} f && /cargo test/{sub(/^ +/,""); print; exit}' "$D/RUN.md")}
# the script applies demo.diff itself and runs in the worktree: drop such steps from the documented command
CMD=$(printf '%s' "$CMD" | sed -E 's/^(cd [^&]*&& *)?(git apply [^&]*&& *)?//')
[ -z "$CMD" ] && { echo "no demo command found in RUN.md"; exit 2; }
LOG="$D/confirm.log"; : > "$LOG"
echo "demo command: $CMD" | tee -a "$LOG"
git apply "$D/demo.diff" || { echo "demo.diff does not apply" | tee -a "$LOG"; exit 2; }
echo "== demo WITHOUT the change" >> "$LOG"
( eval "$CMD" ) >> "$LOG" 2>&1; RC_CLEAN=$?
git apply "$D/patch.diff" || { echo "patch.diff does not apply" | tee -a "$LOG"; exit 2; }
echo "== demo WITH the change" >> "$LOG"
( eval "$CMD" ) >> "$LOG" 2>&1; RC_MUT=$?
git checkout -q -- . ; git clean -fdq -e target
git apply "$D/patch.diff"
echo "== baseline WITH the change (no demo)" >> "$LOG"
cargo nextest run --workspace --no-fail-fast --tool-config-file pb:/w/lib/nextest.toml --profile pb --test-threads 8 --offline > "$D/baseline.log" 2>&1
SUMMARY=$(grep -E "Summary" "$D/baseline.log" | tail -1)
echo "$SUMMARY" >> "$LOG"
git checkout -q -- . ; git clean -fdq -e target
OK=no
if [ $RC_CLEAN -eq 0 ] && [ $RC_MUT -ne 0 ] && echo "$SUMMARY" | grep -q "318 passed" && ! echo "$SUMMARY" | grep -q "failed"; then OK=yes; fi
echo "confirm: demo_clean_rc=$RC_CLEAN demo_mut_rc=$RC_MUT baseline='$SUMMARY' confirmed=$OK" | tee -a "$LOG"
[ $OK = yes ]
