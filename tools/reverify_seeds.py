#!/usr/bin/env python3
"""tools/reverify_seeds.py <copy dir> <out.jsonl> [--shard k/n] : re-run every recorded seeded change against the
CURRENT checks, in a private copy made by tools/mk_agent_copy.sh (the generators keep changing; a seed that was
caught when it was recorded must still be caught). For each seeded/<id>/patch.diff: apply to <copy>/repo, run the
property's quick check in <copy>/verif, undo, and record what was reported next to what meta.json says."""
import json, os, re, subprocess, sys
copy, out = sys.argv[1], sys.argv[2]
args = sys.argv[3:]
REPO, VERIF = os.path.join(copy, "repo"), os.path.join(copy, "verif")
env = dict(os.environ, VERIF_REPO=REPO, CARGO_NET_OFFLINE="true")
def sh(cmd, cwd, timeout=7200):
    p = subprocess.run(cmd, shell=True, cwd=cwd, env=env, text=True, stdout=subprocess.PIPE, stderr=subprocess.STDOUT, timeout=timeout)
    return p.returncode, p.stdout
seeds = sorted(d for d in os.listdir(os.path.join(VERIF, "seeded")) if re.match(r"C\d\d-[A-Z]+$", d))
if "--shard" in args:
    k, n = [int(x) for x in args[args.index("--shard") + 1].split("/")]
    seeds = seeds[k::n]
done = set()
if os.path.exists(out):
    done = {json.loads(l)["seed"] for l in open(out)}
for i, s in enumerate(seeds):
    if s in done:
        continue
    d = os.path.join(VERIF, "seeded", s)
    pid = s.split("-")[0]
    meta = json.load(open(os.path.join(d, "meta.json"))) if os.path.exists(os.path.join(d, "meta.json")) else {}
    sh("git checkout -- . ; git clean -fdq -e target", REPO)
    rc, o = sh(f"git apply {d}/patch.diff", REPO)
    rec = {"seed": s, "recorded": meta.get("check_result")}
    if rc != 0:
        rec["now"] = "patch-does-not-apply"
    else:
        rc, o = sh(f"./check {pid} 2>&1 | grep -E 'VIOLATION|^check ' | cut -c1-200", VERIF)
        viol = [l for l in o.splitlines() if l.startswith("VIOLATION")]
        with_input = [l for l in viol if "no-failing-input-found" not in l]
        rec["now"] = "caught-with-failing-input" if with_input else ("caught-no-failing-input-found" if viol else "MISSED")
        sh("rm -f replays/C??-*.json", VERIF)
    sh("git checkout -- . ; git clean -fdq -e target", REPO)
    with open(out, "a") as fh:
        fh.write(json.dumps(rec) + "\n")
    print(i + 1, "/", len(seeds), s, rec["recorded"], "->", rec["now"], flush=True)
